/-
  Helper lemmas for C04 (JSON Pointer resolution). The statements used by JP/Props/C04.lean
  are at the end of this file.
-/
import JP.Pointer
import JP.Lemmas.Str
import JP.Lemmas.Decimal
namespace JP.Lemmas
open JP JP.Pointer

/-! ## Monadic plumbing -/

theorem mapM_ok {ε α β} (f : α → Except ε β) (g : α → β) (xs : List α)
    (h : ∀ x ∈ xs, f x = .ok (g x)) : xs.mapM f = .ok (xs.map g) := by
  induction xs with
  | nil => rfl
  | cons x xs ih =>
    rw [List.mapM_cons, h x (by simp), ih (fun y hy => h y (by simp [hy]))]
    rfl

theorem resolveParts_nil (doc : J) : resolveParts doc [] = .ok doc := rfl

theorem resolveParts_cons_ok {doc w : J} {p : Part} (h : getitem doc p = .ok w) (ps : List Part) :
    resolveParts doc (p :: ps) = resolveParts w ps := by
  unfold resolveParts
  rw [List.foldlM_cons, h]
  rfl

theorem resolveParts_cons_error {doc : J} {p : Part} {e : Err} (h : getitem doc p = .error e)
    (ps : List Part) : resolveParts doc (p :: ps) = .error e := by
  unfold resolveParts
  rw [List.foldlM_cons, h]
  rfl

theorem resolveText_of_parse {dec : EscDec} {ue : Bool} {s : Str} {ps : List Part}
    (h : parse dec ue s = .ok ps) (doc : J) : resolveText dec ue s doc = resolveParts doc ps := by
  unfold resolveText
  rw [h]
  rfl

/-! ## `_parse` on well-formed text -/

theorem parse_nil (dec : EscDec) (ue : Bool) : parse dec ue [] = .ok [] := by
  cases ue <;> rfl

theorem parse_slash (dec : EscDec) (ue : Bool) (cs : Str)
    (hb : ue = true → ('/' :: cs).contains '\\' = false) :
    parse dec ue ('/' :: cs) =
      (splitOn '/' ('/' :: cs)).tail.mapM (fun p => indexOf (unescapeTok p)) := by
  unfold parse
  cases ue with
  | false =>
    simp only [Bool.false_eq_true, if_false, pure_bind, lstrip_slash]
    simp
  | true =>
    simp only [if_true]
    rw [unicodeEscape_of_no_backslash dec (hb rfl)]
    change (pure ('/' :: cs) >>= _) = _
    simp only [pure_bind, lstrip_slash]
    simp

/-- The part `_index` makes of a token whose integer reading (if any) is within the limits. -/
def tokPart (t : Str) : Part :=
  match parseIndexToken t with
  | none => .key t
  | some i => .idx i

/-- The integer reading of a token, if any, is within the pointer index limits. -/
def TokInRange (t : Str) : Prop :=
  ∀ i, parseIndexToken t = some i → minIntIndex ≤ i ∧ i ≤ maxIntIndex

theorem indexOf_of_inRange {t : Str} (h : TokInRange t) : indexOf t = .ok (tokPart t) := by
  unfold tokPart
  cases hp : parseIndexToken t with
  | none => exact indexOf_of_none hp
  | some i => exact indexOf_of_some hp (h i hp).1 (h i hp).2

theorem partStr_tokPart (t : Str) : partStr (tokPart t) = t := by
  unfold tokPart
  cases hp : parseIndexToken t with
  | none => rfl
  | some i => exact intStr_of_parseIndexToken hp

theorem tokPart_natStr (n : Nat) : tokPart (natStr n) = .idx n := by
  unfold tokPart
  rw [parseIndexToken_natStr]

theorem tokInRange_stepToken {p : Step} (h : StepInRange p) : TokInRange (stepToken p) := by
  cases p with
  | name k => exact h
  | index n =>
    intro i hi
    simp only [stepToken, parseIndexToken_natStr, Option.some.injEq] at hi
    subst hi
    have e2 : minIntIndex = -9007199254740991 := by decide
    refine ⟨?_, h⟩
    rw [e2]; omega

/-- Parsing the spelling of a token list gives back the tokens, each read by `_index`. -/
theorem parse_spellTokens (dec : EscDec) (ue : Bool) (ts : List Str)
    (hr : ∀ t ∈ ts, TokInRange t)
    (hb : ue = true → (spellTokens ts).contains '\\' = false) :
    parse dec ue (spellTokens ts) = .ok (ts.map tokPart) := by
  cases ts with
  | nil => exact parse_nil dec ue
  | cons t ts =>
    have hsp : spellTokens (t :: ts) = '/' :: (escapeTok t ++ spellTokens ts) := by
      simp [spellTokens]
    have htail : (splitOn '/' (spellTokens (t :: ts))).tail = (t :: ts).map escapeTok :=
      splitOn_flatMap_tail escapeTok (t :: ts) (fun x _ => escapeTok_no_slash x)
    rw [hsp] at hb htail ⊢
    rw [parse_slash dec ue _ hb, htail]
    rw [mapM_ok _ (fun e => tokPart (unescapeTok e))]
    · simp only [List.map_map]
      congr 1
      apply List.map_congr_left
      intro x _
      simp [unescapeTok_escapeTok]
    · intro e he
      obtain ⟨x, hx, rfl⟩ := List.mem_map.mp he
      rw [unescapeTok_escapeTok]
      exact indexOf_of_inRange (hr x hx)

/-! ## `_getitem`, case by case -/

theorem getitem_obj_of_get {kvs : List (Str × J)} {p : Part} {v : J}
    (h : dictGet kvs (partStr p) = some v) : getitem (.obj kvs) p = .ok v := by
  cases p with
  | idx i => simp only [partStr] at h; simp [getitem, h]; rfl
  | key k => simp only [partStr] at h; simp [getitem, h]; rfl

theorem getitem_obj_of_none {kvs : List (Str × J)} {p : Part}
    (h : dictGet kvs (partStr p) = none)
    (h1 : ∀ rest, partStr p ≠ '~' :: rest) (h2 : ∀ rest, partStr p ≠ '#' :: rest) :
    getitem (.obj kvs) p = .error .ptrKey := by
  cases p with
  | idx i => simp only [partStr] at h; simp [getitem, h]; rfl
  | key k =>
    simp only [partStr] at h h1 h2
    cases k with
    | nil => simp [getitem, h]; rfl
    | cons c rest =>
      have hc1 : c ≠ '~' := fun e => h1 rest (by rw [e])
      have hc2 : c ≠ '#' := fun e => h2 rest (by rw [e])
      simp [getitem, h, hc1, hc2]; rfl

theorem getitem_arr_idx_nat (xs : List J) (n : Nat) :
    getitem (.arr xs) (.idx n) =
      match xs[n]? with
      | some v => .ok v
      | none => .error .ptrIndex := by
  have : pyListGet xs (n : Int) = xs[n]? := by simp [pyListGet]
  simp only [getitem, this]
  cases xs[n]? <;> rfl

theorem getitem_arr_key_of_none {xs : List J} {k : Str} (hp : parseIndexToken k = none)
    (h2 : ∀ rest, k ≠ '#' :: rest) :
    ∃ e, getitem (.arr xs) (.key k) = .error e ∧ e.isPointerResolution = true := by
  by_cases hd : k = ['-']
  · subst hd; exact ⟨.ptrIndex, rfl, rfl⟩
  · refine ⟨.ptrType, ?_, rfl⟩
    unfold getitem
    simp only [hd, if_false]
    rw [indexOf_of_none hp]; rfl

/-! ## Every node is reachable -/

theorem getitem_step {doc v : J} {p : Step} {rest : List Step}
    (h : valueAt doc (p :: rest) = some v) :
    ∃ w, getitem doc (tokPart (stepToken p)) = .ok w ∧ valueAt w rest = some v := by
  cases doc <;> cases p <;> simp only [valueAt, reduceCtorEq] at h
  case arr.index xs n =>
    cases hx : xs[n]? with
    | none => simp [hx] at h
    | some w =>
      rw [hx] at h
      refine ⟨w, ?_, h⟩
      simp only [stepToken, tokPart_natStr, getitem_arr_idx_nat, hx]
  case obj.name kvs k =>
    cases hx : dictGet kvs k with
    | none => simp [hx] at h
    | some w =>
      rw [hx] at h
      refine ⟨w, ?_, h⟩
      apply getitem_obj_of_get
      simp only [stepToken, partStr_tokPart, hx]

theorem resolveParts_spell (ps : List Step) :
    ∀ (doc v : J), valueAt doc ps = some v →
      resolveParts doc ((ps.map stepToken).map tokPart) = .ok v := by
  induction ps with
  | nil => intro doc v h; simp only [valueAt, Option.some.injEq] at h; subst h; rfl
  | cons p ps ih =>
    intro doc v h
    obtain ⟨w, hw, hrest⟩ := getitem_step h
    simp only [List.map_cons]
    rw [resolveParts_cons_ok hw]
    exact ih w v hrest

/-! ## RFC 6901 conformance -/

theorem nonext_facts {t : Str} (h : isExtensionToken t = false) :
    (∀ rest, t ≠ '#' :: rest) ∧ (∀ rest, t ≠ '~' :: rest) ∧
    (∀ i, parseIndexToken t = some i → 0 ≤ i ∧ i ≤ maxIntIndex) := by
  unfold isExtensionToken at h
  split at h
  · cases h
  · cases h
  · rename_i h1 h2
    refine ⟨fun rest e => h1 rest e, fun rest e => h2 rest e, ?_⟩
    intro i hi
    rw [hi] at h
    simp only [Bool.or_eq_false_iff, decide_eq_false_iff_not] at h
    omega

theorem tokInRange_of_nonext {t : Str} (h : isExtensionToken t = false) : TokInRange t := by
  intro i hi
  have := (nonext_facts h).2.2 i hi
  have e2 : minIntIndex = -9007199254740991 := by decide
  rw [e2]; omega

/-- One evaluation step: `_getitem` on the part made from a non-extension token agrees with
    RFC 6901 section 4. -/
theorem getitem_rfcStep (doc : J) {t : Str} (h : isExtensionToken t = false) :
    match rfcStep doc t with
    | some w => getitem doc (tokPart t) = .ok w
    | none => ∃ e, getitem doc (tokPart t) = .error e ∧ e.isPointerResolution = true := by
  obtain ⟨h1, h2, h3⟩ := nonext_facts h
  cases doc with
  | null | bool _ | int _ | flt _ | str _ => exact ⟨.ptrType, rfl, rfl⟩
  | obj kvs =>
    simp only [rfcStep]
    cases hx : dictGet kvs t with
    | some w => exact getitem_obj_of_get (by rw [partStr_tokPart, hx])
    | none =>
      refine ⟨.ptrKey, ?_, rfl⟩
      apply getitem_obj_of_none <;> rw [partStr_tokPart]
      · exact hx
      · exact h2
      · exact h1
  | arr xs =>
    simp only [rfcStep]
    cases hp : parseIndexToken t with
    | none =>
      rw [isCanonNat_false_of_parseIndexToken_none hp]
      simp only [Bool.false_eq_true, if_false]
      have : tokPart t = .key t := by simp [tokPart, hp]
      rw [this]
      exact getitem_arr_key_of_none hp h1
    | some i =>
      obtain ⟨hc, hv, ht⟩ := canon_of_parseIndexToken_nonneg hp (h3 i hp).1
      have hpart : tokPart t = .idx (digitsVal t : Nat) := by simp [tokPart, hp, hv]
      rw [hc, hpart, getitem_arr_idx_nat]
      simp only [if_true]
      cases xs[digitsVal t]? with
      | some w => rfl
      | none => exact ⟨.ptrIndex, rfl, rfl⟩

theorem resolveParts_rfcEval (ts : List Str) :
    ∀ (doc : J), (∀ t ∈ ts, isExtensionToken t = false) →
      match rfcEval doc ts with
      | some v => resolveParts doc (ts.map tokPart) = .ok v
      | none => ∃ e, resolveParts doc (ts.map tokPart) = .error e ∧ e.isPointerResolution = true := by
  induction ts with
  | nil => intro doc _; rfl
  | cons t ts ih =>
    intro doc hext
    have hstep := getitem_rfcStep doc (hext t (by simp))
    have hev : rfcEval doc (t :: ts) = (rfcStep doc t).bind (fun w => rfcEval w ts) := by
      simp [rfcEval, List.foldlM_cons]
    rw [hev]
    simp only [List.map_cons]
    cases hs : rfcStep doc t with
    | none =>
      rw [hs] at hstep
      obtain ⟨e, he, hres⟩ := hstep
      exact ⟨e, resolveParts_cons_error he _, hres⟩
    | some w =>
      rw [hs] at hstep
      simp only [Option.bind_some]
      rw [resolveParts_cons_ok hstep]
      exact ih w (fun x hx => hext x (by simp [hx]))

/-! ## Statements used by JP/Props/C04.lean -/

theorem resolveText_spell (dec : EscDec) (ue : Bool) (doc v : J) (ps : List Step)
    (hat : valueAt doc ps = some v) (hr : ∀ p ∈ ps, StepInRange p)
    (hb : ue = true → (spell ps).contains '\\' = false) :
    resolveText dec ue (spell ps) doc = .ok v := by
  have hparse : parse dec ue (spell ps) = .ok ((ps.map stepToken).map tokPart) := by
    apply parse_spellTokens dec ue _ _ hb
    intro t ht
    obtain ⟨p, hp, rfl⟩ := List.mem_map.mp ht
    exact tokInRange_stepToken (hr p hp)
  rw [resolveText_of_parse hparse]
  exact resolveParts_spell ps doc v hat

theorem resolveText_conforms (dec : EscDec) (ue : Bool) (doc : J) (s : Str) (ts : List Str)
    (hs : rfcParse s = some ts) (hext : ∀ t ∈ ts, isExtensionToken t = false)
    (hb : ue = true → s.contains '\\' = false) :
    match rfcEval doc ts with
    | some v => resolveText dec ue s doc = .ok v
    | none => ∃ e, resolveText dec ue s doc = .error e ∧ e.isPointerResolution = true := by
  have hparse : parse dec ue s = .ok (ts.map tokPart) := by
    unfold rfcParse at hs
    split at hs
    · cases hs; exact parse_nil dec ue
    · rename_i cs
      simp only at hs
      split at hs
      · cases hs
        rw [parse_slash dec ue cs hb]
        rw [mapM_ok _ (fun e => tokPart (unescapeTok e))]
        · simp only [List.map_map]; rfl
        · intro e he
          apply indexOf_of_inRange
          apply tokInRange_of_nonext
          exact hext _ (List.mem_map.mpr ⟨e, he, rfl⟩)
      · cases hs
    · cases hs
  rw [resolveText_of_parse hparse]
  exact resolveParts_rfcEval ts doc hext

theorem getitem_primitive (doc : J) (p : Part) (h : doc.isContainer = false) :
    ∃ e, getitem doc p = .error e ∧ e.isPointerResolution = true := by
  cases doc <;> simp [J.isContainer] at h <;> exact ⟨.ptrType, rfl, rfl⟩

theorem getitem_dash_length (xs : List J) :
    (∃ e, getitem (.arr xs) (.key ['-']) = .error e ∧ e.isPointerResolution = true) ∧
    (∃ e, getitem (.arr xs) (.idx xs.length) = .error e ∧ e.isPointerResolution = true) := by
  refine ⟨⟨.ptrIndex, rfl, rfl⟩, ⟨.ptrIndex, ?_, rfl⟩⟩
  rw [getitem_arr_idx_nat]
  simp

theorem existsIn_spec (doc : J) (ps : List Part) :
    (∀ v, resolveParts doc ps = .ok v → existsIn doc ps = .ok true) ∧
    (∀ e, resolveParts doc ps = .error e → e.isPointerResolution = true → existsIn doc ps = .ok false) := by
  constructor
  · intro v h; simp [existsIn, h]; rfl
  · intro e h he; simp [existsIn, h, he]; rfl

end JP.Lemmas
