/-
  Helper lemmas for C04 (JSON Pointer resolution). The statements used by JP/Props/C04.lean
  are at the end of this file.
-/
import JP.Pointer
namespace JP.Lemmas
open JP JP.Pointer

theorem resolveText_spell (dec : EscDec) (ue : Bool) (doc v : J) (ps : List Step)
    (hat : valueAt doc ps = some v) (hr : ∀ p ∈ ps, StepInRange p)
    (hb : ue = true → (spell ps).contains '\\' = false) :
    resolveText dec ue (spell ps) doc = .ok v := by
  sorry

theorem resolveText_conforms (dec : EscDec) (ue : Bool) (doc : J) (s : Str) (ts : List Str)
    (hs : rfcParse s = some ts) (hext : ∀ t ∈ ts, isExtensionToken t = false)
    (hb : ue = true → s.contains '\\' = false) :
    match rfcEval doc ts with
    | some v => resolveText dec ue s doc = .ok v
    | none => ∃ e, resolveText dec ue s doc = .error e ∧ e.isPointerResolution = true := by
  sorry

theorem getitem_primitive (doc : J) (p : Part) (h : doc.isContainer = false) :
    ∃ e, getitem doc p = .error e ∧ e.isPointerResolution = true := by
  sorry

theorem getitem_dash_length (xs : List J) :
    (∃ e, getitem (.arr xs) (.key ['-']) = .error e ∧ e.isPointerResolution = true) ∧
    (∃ e, getitem (.arr xs) (.idx xs.length) = .error e ∧ e.isPointerResolution = true) := by
  sorry

theorem existsIn_spec (doc : J) (ps : List Part) :
    (∀ v, resolveParts doc ps = .ok v → existsIn doc ps = .ok true) ∧
    (∀ e, resolveParts doc ps = .error e → e.isPointerResolution = true → existsIn doc ps = .ok false) := by
  sorry

end JP.Lemmas
