/-
  Helper lemmas for C12 (Query iterator operations). Statements used by JP/Props/C12.lean.
-/
import JP.Fluent
namespace JP.Lemmas
open JP JP.Fluent

theorem next_spec {α : Type} (it : It α) :
    it.next.1 = it.drain.head? ∧ it.next.2.drain = it.drain.drop 1 := by
  induction it with
  | src xs => cases xs <;> simp [It.next, It.drain]
  | islice it n ih =>
    cases n with
    | zero => simp [It.next, It.drain]
    | succ n =>
      rcases h : it.next with ⟨_ | x, it'⟩
      · rw [h] at ih
        have hnil : it.drain = [] := by
          have := ih.1.symm
          simpa using this
        simp [It.next, h, It.drain, hnil]
      · rw [h] at ih
        obtain ⟨h1, h2⟩ := ih
        cases hd : it.drain with
        | nil => rw [hd] at h1; simp at h1
        | cons y ys =>
          rw [hd] at h1 h2
          simp at h1 h2
          simp [It.next, h, It.drain, hd, h1, h2]

theorem advance_drain {α : Type} (n : Nat) (it : It α) :
    (it.advance n).drain = it.drain.drop n := by
  induction n generalizing it with
  | zero => simp [It.advance]
  | succ n ih =>
    simp only [It.advance]
    rw [ih, (next_spec it).2, List.drop_drop]
    congr 1
    omega

theorem takeList_spec {α : Type} (n : Nat) (it : It α) :
    (it.takeList n).1 = it.drain.take n ∧ (it.takeList n).2.drain = it.drain.drop n := by
  induction n generalizing it with
  | zero => simp [It.takeList]
  | succ n ih =>
    have hs := next_spec it
    rcases h : it.next with ⟨_ | x, it'⟩
    · rw [h] at hs
      have hnil : it.drain = [] := by
        have := hs.1.symm
        simpa using this
      have h2 := hs.2
      simp only [hnil] at h2
      simp [It.takeList, h, hnil, h2]
    · rw [h] at hs
      obtain ⟨h1, h2⟩ := hs
      have ih' := ih it'
      cases hd : it.drain with
      | nil => rw [hd] at h1; simp at h1
      | cons y ys =>
        rw [hd] at h1 h2
        simp at h1 h2
        simp only [h2] at ih'
        simp [It.takeList, h, ih'.1, ih'.2, h1]

theorem drop_length_sub_one {α : Type} : ∀ (l : List α) (h : l ≠ []),
    l.drop (l.length - 1) = [l.getLast h]
  | [], h => absurd rfl h
  | [a], _ => rfl
  | a :: b :: t, _ => by
    have ih := drop_length_sub_one (b :: t) (List.cons_ne_nil b t)
    simp only [List.length_cons, Nat.add_sub_cancel] at ih ⊢
    rw [List.drop_succ_cons, ih, List.getLast_cons (List.cons_ne_nil b t)]

theorem dequeLast_one {α : Type} (l : List α) :
    dequeLast l 1 = match l.getLast? with | some x => [x] | none => [] := by
  unfold dequeLast
  cases l with
  | nil => simp
  | cons a as =>
    rw [List.getLast?_eq_some_getLast (List.cons_ne_nil a as)]
    simp only
    exact drop_length_sub_one _ (List.cons_ne_nil a as)

theorem step_refines {α : Type} (it : It α) (op : Op) :
    (step it op).1 = (specStep it.drain op).1 ∧ (step it op).2.drain = (specStep it.drain op).2 := by
  cases op with
  | limit n | head n | first n =>
    simp only [step, specStep]
    split <;> simp [It.drain]
  | drop n | skip n =>
    simp only [step, specStep]
    split
    · simp
    · refine ⟨rfl, ?_⟩
      simp only
      split
      · exact advance_drain _ _
      · have : n.toNat = 0 := by omega
        simp [this]
  | tail n | last n =>
    simp only [step, specStep]
    split <;> simp [It.drain, dequeLast]
  | take n =>
    simp only [step, specStep]
    split
    · simp
    · have := takeList_spec n.toNat it
      simp [this.1, this.2]
  | tee n =>
    simp only [step, specStep]
    split
    · simp
    · split <;> simp [It.drain]
  | firstOne | one =>
    have := next_spec it
    simp [step, specStep, this.1, this.2]
  | lastOne =>
    simp only [step, specStep]
    rw [dequeLast_one]
    cases it.drain.getLast? <;> simp [It.drain]

theorem chain_refines_list_from {α : Type} (ops : List Op) (it : It α) :
    run ops it = runSpec ops it.drain := by
  induction ops generalizing it with
  | nil => simp [run, runSpec]
  | cons op ops ih =>
    obtain ⟨h1, h2⟩ := step_refines it op
    simp only [run, runSpec]
    rw [ih, h1, h2]

theorem chain_refines_list {α : Type} (ops : List Op) (l : List α) :
    run ops (.src l) = runSpec ops l :=
  chain_refines_list_from ops (.src l)

theorem limit_spec {α : Type} (it : It α) (n : Nat) :
    (step it (.limit n)).2.drain = it.drain.take n ∧ (step it (.head n)).2.drain = it.drain.take n ∧ (step it (.first n)).2.drain = it.drain.take n := by
  have hn : ¬ ((n : Int) < 0) := by omega
  refine ⟨?_, ?_, ?_⟩ <;> simp [step, hn, It.drain]

theorem drop_spec {α : Type} (it : It α) (n : Nat) :
    (step it (.drop n)).2.drain = it.drain.drop n ∧ (step it (.skip n)).2.drain = it.drain.drop n := by
  have h1 := (step_refines it (.drop n)).2
  have h2 := (step_refines it (.skip n)).2
  have hn : ¬ ((n : Int) < 0) := by omega
  simp only [specStep, hn, if_false, Int.toNat_natCast] at h1 h2
  exact ⟨h1, h2⟩

theorem tail_spec {α : Type} (it : It α) (n : Nat) :
    (step it (.tail n)).2.drain = it.drain.drop (it.drain.length - n) ∧ (step it (.last n)).2.drain = it.drain.drop (it.drain.length - n) := by
  have h1 := (step_refines it (.tail n)).2
  have h2 := (step_refines it (.last n)).2
  have hn : ¬ ((n : Int) < 0) := by omega
  simp only [specStep, hn, if_false, Int.toNat_natCast] at h1 h2
  exact ⟨h1, h2⟩

theorem take_spec {α : Type} (it : It α) (n : Nat) :
    (step it (.take n)).1 = some (.taken (it.drain.take n)) ∧ (step it (.take n)).2.drain = it.drain.drop n := by
  have h := step_refines it (.take n)
  have hn : ¬ ((n : Int) < 0) := by omega
  simp only [specStep, hn, if_false, Int.toNat_natCast] at h
  exact h

theorem tee_spec {α : Type} (it : It α) (n : Nat) (hn : 0 < n) :
    (step it (.tee n)).1 = some (.children (List.replicate (n - 1) it.drain)) ∧ (step it (.tee n)).2.drain = it.drain := by
  have h := step_refines it (.tee n)
  have hn1 : ¬ ((n : Int) < 0) := by omega
  have hn2 : ¬ ((n : Int) = 0) := by omega
  simp only [specStep, hn1, hn2, if_false, Int.toNat_natCast] at h
  exact h

theorem one_spec {α : Type} (it : It α) :
    (step it .firstOne).1 = some (.item it.drain.head?) ∧ (step it .one).1 = some (.item it.drain.head?) ∧ (step it .lastOne).1 = some (.item it.drain.getLast?) :=
  ⟨(step_refines it .firstOne).1, (step_refines it .one).1, (step_refines it .lastOne).1⟩

theorem negative_refused {α : Type} (it : It α) (n : Int) (hn : n < 0) :
    ∀ op ∈ [Op.limit n, .head n, .first n, .drop n, .skip n, .tail n, .last n, .take n, .tee n], step it op = (some .valueError, it) := by
  intro op hop
  simp only [List.mem_cons, List.mem_nil_iff, or_false] at hop
  rcases hop with h | h | h | h | h | h | h | h | h <;> subst h <;> simp [step, hn]

end JP.Lemmas
