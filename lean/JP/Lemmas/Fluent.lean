/-
  Helper lemmas for C12 (Query iterator operations). Statements used by JP/Props/C12.lean.
-/
import JP.Fluent
namespace JP.Lemmas
open JP JP.Fluent

theorem next_spec {α : Type} (it : It α) :
    it.next.1 = it.drain.head? ∧ it.next.2.drain = it.drain.drop 1 := by
  sorry

theorem step_refines {α : Type} (it : It α) (op : Op) :
    (step it op).1 = (specStep it.drain op).1 ∧ (step it op).2.drain = (specStep it.drain op).2 := by
  sorry

theorem chain_refines_list {α : Type} (ops : List Op) (l : List α) :
    run ops (.src l) = runSpec ops l := by
  sorry

theorem chain_refines_list_from {α : Type} (ops : List Op) (it : It α) :
    run ops it = runSpec ops it.drain := by
  sorry

theorem limit_spec {α : Type} (it : It α) (n : Nat) :
    (step it (.limit n)).2.drain = it.drain.take n ∧ (step it (.head n)).2.drain = it.drain.take n ∧ (step it (.first n)).2.drain = it.drain.take n := by
  sorry

theorem drop_spec {α : Type} (it : It α) (n : Nat) :
    (step it (.drop n)).2.drain = it.drain.drop n ∧ (step it (.skip n)).2.drain = it.drain.drop n := by
  sorry

theorem tail_spec {α : Type} (it : It α) (n : Nat) :
    (step it (.tail n)).2.drain = it.drain.drop (it.drain.length - n) ∧ (step it (.last n)).2.drain = it.drain.drop (it.drain.length - n) := by
  sorry

theorem take_spec {α : Type} (it : It α) (n : Nat) :
    (step it (.take n)).1 = some (.taken (it.drain.take n)) ∧ (step it (.take n)).2.drain = it.drain.drop n := by
  sorry

theorem tee_spec {α : Type} (it : It α) (n : Nat) (hn : 0 < n) :
    (step it (.tee n)).1 = some (.children (List.replicate (n - 1) it.drain)) ∧ (step it (.tee n)).2.drain = it.drain := by
  sorry

theorem one_spec {α : Type} (it : It α) :
    (step it .firstOne).1 = some (.item it.drain.head?) ∧ (step it .one).1 = some (.item it.drain.head?) ∧ (step it .lastOne).1 = some (.item it.drain.getLast?) := by
  sorry

theorem negative_refused {α : Type} (it : It α) (n : Int) (hn : n < 0) :
    ∀ op ∈ [Op.limit n, .head n, .first n, .drop n, .skip n, .tail n, .last n, .take n, .tee n], step it op = (some .valueError, it) := by
  sorry

end JP.Lemmas
