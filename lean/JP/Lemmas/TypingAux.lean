/-
  Auxiliary lemmas for JP/Lemmas/Typing.lean (C07): unfoldings of the gate and of the RFC typing
  judgment, and the simultaneous induction gate = typing over the query AST.
-/
import JP.Typing
namespace JP.Lemmas
open JP JP.Typing

/-! ### RFC side unfoldings -/

theorem wtLogical_func (name : Str) (args : List Expr) : Rfc.wtLogical (.func name args) =
  if name = "match".toList ∨ name = "search".toList then
    (match args with | [a,b] => Rfc.wtComparable a && Rfc.wtComparable b | _ => false) else false := by
  rw [Rfc.wtLogical.eq_def]; rfl

theorem wtComparable_func (name : Str) (args : List Expr) : Rfc.wtComparable (.func name args) =
      if name = "length".toList then
        match args with
        | [a] => Rfc.wtComparable a
        | _ => false
      else if name = "count".toList ∨ name = "value".toList then
        match args with
        | [a] => Rfc.wtNodesArg a
        | _ => false
      else false := by
  rw [Rfc.wtComparable.eq_def]; rfl

theorem wtNodesArg_func (name : Str) (args : List Expr) : Rfc.wtNodesArg (.func name args) = false := by
  rw [Rfc.wtNodesArg.eq_def]

theorem wtLogical_length (args : List Expr) : Rfc.wtLogical (.func "length".toList args) = false := by
  rw [wtLogical_func, if_neg (by decide)]
theorem wtLogical_count (args : List Expr) : Rfc.wtLogical (.func "count".toList args) = false := by
  rw [wtLogical_func, if_neg (by decide)]
theorem wtLogical_value (args : List Expr) : Rfc.wtLogical (.func "value".toList args) = false := by
  rw [wtLogical_func, if_neg (by decide)]
theorem wtLogical_match (args : List Expr) : Rfc.wtLogical (.func "match".toList args) =
    (match args with | [a,b] => Rfc.wtComparable a && Rfc.wtComparable b | _ => false) := by
  rw [wtLogical_func, if_pos (by decide)]
theorem wtLogical_search (args : List Expr) : Rfc.wtLogical (.func "search".toList args) =
    (match args with | [a,b] => Rfc.wtComparable a && Rfc.wtComparable b | _ => false) := by
  rw [wtLogical_func, if_pos (by decide)]

theorem wtComparable_length (args : List Expr) : Rfc.wtComparable (.func "length".toList args) =
    (match args with | [a] => Rfc.wtComparable a | _ => false) := by
  rw [wtComparable_func, if_pos rfl]
theorem wtComparable_count (args : List Expr) : Rfc.wtComparable (.func "count".toList args) =
    (match args with | [a] => Rfc.wtNodesArg a | _ => false) := by
  rw [wtComparable_func, if_neg (by decide), if_pos (by decide)]
theorem wtComparable_value (args : List Expr) : Rfc.wtComparable (.func "value".toList args) =
    (match args with | [a] => Rfc.wtNodesArg a | _ => false) := by
  rw [wtComparable_func, if_neg (by decide), if_pos (by decide)]
theorem wtComparable_match (args : List Expr) : Rfc.wtComparable (.func "match".toList args) = false := by
  rw [wtComparable_func, if_neg (by decide), if_neg (by decide)]
theorem wtComparable_search (args : List Expr) : Rfc.wtComparable (.func "search".toList args) = false := by
  rw [wtComparable_func, if_neg (by decide), if_neg (by decide)]

theorem std_func_names {name : Str} {args : List Expr} (h : Rfc.stdExpr (.func name args) = true) :
  (name = "length".toList ∨ name = "count".toList ∨ name = "value".toList ∨ name = "match".toList ∨ name = "search".toList) ∧ Rfc.stdExprs args = true := by
  simp only [Rfc.stdExpr, Bool.and_eq_true, Bool.or_eq_true, decide_eq_true_eq] at h
  refine ⟨?_, h.2⟩
  rcases h.1 with (((h | h) | h) | h) | h <;> simp only [h, true_or, or_true]

/-! ### gate side unfoldings -/

theorem gate_func {tbl : FuncTable} {name : Str} {tys : List Ty} {r : Ty} (args : List Expr)
    (h : lookupFn tbl name = some (tys, r)) :
    gateExpr tbl (.func name args) = (gateExprs tbl args && argsOk tbl tys args) := by
  simp only [gateExpr, h]

theorem nonLogical_func {tbl : FuncTable} {name : Str} {tys : List Ty} {r : Ty} (args : List Expr)
    (h : lookupFn tbl name = some (tys, r)) :
    nonLogical tbl (.func name args) = (r == .value) := by
  cases r <;> simp [nonLogical, retType, isLiteralOrNil, h]

theorem nonComparable_func {tbl : FuncTable} {name : Str} {tys : List Ty} {r : Ty} (args : List Expr)
    (h : lookupFn tbl name = some (tys, r)) :
    nonComparable tbl (.func name args) = (r != .value) := by
  simp [nonComparable, isPath, h]

theorem argOk_value_func {tbl : FuncTable} {name : Str} {tys : List Ty} {r : Ty} (args : List Expr)
    (h : lookupFn tbl name = some (tys, r)) :
    argOk tbl .value (.func name args) = (r == .value) := by
  cases r <;> simp [argOk, isValueTypeExpr, isPath, retType, h]

theorem argOk_nodes_func {tbl : FuncTable} {name : Str} {tys : List Ty} {r : Ty} (args : List Expr)
    (h : lookupFn tbl name = some (tys, r)) :
    argOk tbl .nodes (.func name args) = (r == .nodes) := by
  cases r <;> simp [argOk, isPath, retType, h]

theorem unary_shape (tbl : FuncTable) (t : Ty) (args : List Expr) (P : Expr → Bool)
    (hP : ∀ a, args = [a] → (gateExpr tbl a && argOk tbl t a) = P a) :
    (gateExprs tbl args && argsOk tbl [t] args) = (match (generalizing := false) args with | [a] => P a | _ => false) := by
  match args, hP with
  | [], _ => simp [argsOk]
  | [a], hP => simp [gateExprs, argsOk, hP a rfl]
  | _ :: _ :: _, _ => simp [argsOk]

theorem binary_shape (tbl : FuncTable) (t1 t2 : Ty) (args : List Expr) (P Q : Expr → Bool)
    (hP : ∀ a b, args = [a, b] → (gateExpr tbl a && argOk tbl t1 a) = P a ∧ (gateExpr tbl b && argOk tbl t2 b) = Q b) :
    (gateExprs tbl args && argsOk tbl [t1, t2] args) = (match (generalizing := false) args with | [a, b] => P a && Q b | _ => false) := by
  match args, hP with
  | [], _ => simp [argsOk]
  | [_], _ => simp [argsOk]
  | [a, b], hP =>
    obtain ⟨h1, h2⟩ := hP a b rfl
    simp only [gateExprs, argsOk, Bool.and_true, ← h1, ← h2]
    cases gateExpr tbl a <;> cases gateExpr tbl b <;> cases argOk tbl t1 a <;> cases argOk tbl t2 b <;> rfl
  | _ :: _ :: _ :: _, _ => simp [argsOk]

theorem gateSegs_of_singular (tbl : FuncTable) : ∀ q : List Seg, Rfc.singularSegs q = true → gateSegs tbl q = true
  | [], _ => by simp [gateSegs]
  | .child [.name _] :: rest, h => by
    simp only [Rfc.singularSegs] at h
    simp [gateSegs, gateSels, gateSel, gateSegs_of_singular tbl rest h]
  | .child [.index _] :: rest, h => by
    simp only [Rfc.singularSegs] at h
    simp [gateSegs, gateSels, gateSel, gateSegs_of_singular tbl rest h]
  | .child [] :: _, h => by simp [Rfc.singularSegs] at h
  | .child [.slice _ _ _] :: _, h => by simp [Rfc.singularSegs] at h
  | .child [.wild] :: _, h => by simp [Rfc.singularSegs] at h
  | .child [.keys] :: _, h => by simp [Rfc.singularSegs] at h
  | .child [.filter _] :: _, h => by simp [Rfc.singularSegs] at h
  | .child (_ :: _ :: _) :: _, h => by simp [Rfc.singularSegs] at h
  | .desc :: _, h => by simp [Rfc.singularSegs] at h

theorem gate_and_singular (tbl : FuncTable) (q : List Seg) :
    (gateSegs tbl q && Rfc.singularSegs q) = Rfc.singularSegs q := by
  cases h : Rfc.singularSegs q with
  | false => simp
  | true => simp [gateSegs_of_singular tbl q h]


theorem nonLogical_infix (tbl : FuncTable) (l : Expr) (op : CmpOp) (r : Expr) :
    nonLogical tbl (.infix l op r) = false := by
  simp [nonLogical, retType, isLiteralOrNil]
theorem nonLogical_not (tbl : FuncTable) (e : Expr) : nonLogical tbl (.not e) = false := by
  simp [nonLogical, retType, isLiteralOrNil]
theorem nonLogical_self (tbl : FuncTable) (q : List Seg) : nonLogical tbl (.self q) = false := by
  simp [nonLogical, retType, isLiteralOrNil]
theorem nonLogical_root (tbl : FuncTable) (q : List Seg) (f : Bool) : nonLogical tbl (.root q f) = false := by
  simp [nonLogical, retType, isLiteralOrNil]

theorem infix_cmp_step (tbl : FuncTable) (l : Expr) (op : CmpOp) (r : Expr)
    (hop : isComparisonOp op = true) (hlog : isLogicalOp op = false) :
    (gateExpr tbl (.infix l op r) && !nonLogical tbl (.infix l op r)) =
      ((gateExpr tbl l && !nonComparable tbl l) && (gateExpr tbl r && !nonComparable tbl r)) := by
  simp only [gateExpr, nonLogical_infix, hop, hlog]
  cases gateExpr tbl l <;> cases gateExpr tbl r <;> cases nonComparable tbl l <;> cases nonComparable tbl r <;> rfl

theorem infix_log_step (tbl : FuncTable) (l : Expr) (op : CmpOp) (r : Expr)
    (hop : isComparisonOp op = false) (hlog : isLogicalOp op = true) :
    (gateExpr tbl (.infix l op r) && !nonLogical tbl (.infix l op r)) =
      ((gateExpr tbl l && !nonLogical tbl l) && (gateExpr tbl r && !nonLogical tbl r)) := by
  simp only [gateExpr, nonLogical_infix, hop, hlog]
  cases gateExpr tbl l <;> cases gateExpr tbl r <;> cases nonLogical tbl l <;> cases nonLogical tbl r <;> rfl

theorem wtLogical_infix (l : Expr) (op : CmpOp) (r : Expr) : Rfc.wtLogical (.infix l op r) =
      if op == .and || op == .or then Rfc.wtLogical l && Rfc.wtLogical r
      else if op == .eq || op == .ne || op == .lt || op == .le || op == .gt || op == .ge then
        Rfc.wtComparable l && Rfc.wtComparable r
      else false := by
  rw [Rfc.wtLogical.eq_def]

theorem std_infix_ops {l : Expr} {op : CmpOp} {r : Expr} (h : Rfc.stdExpr (.infix l op r) = true) :
    (isLogicalOp op = true ∧ isComparisonOp op = false ∧
        Rfc.wtLogical (.infix l op r) = (Rfc.wtLogical l && Rfc.wtLogical r)) ∨
    (isLogicalOp op = false ∧ isComparisonOp op = true ∧
        Rfc.wtLogical (.infix l op r) = (Rfc.wtComparable l && Rfc.wtComparable r)) := by
  rw [wtLogical_infix]
  simp only [Rfc.stdExpr, Bool.and_eq_true] at h
  have h0 := h.1.1
  cases op <;> first
    | (exact absurd h0 (by decide))
    | (left; exact ⟨rfl, rfl, rfl⟩)
    | (right; exact ⟨rfl, rfl, rfl⟩)

/-- for standard atoms, "comparable" and "value-typed argument" coincide -/
theorem not_nonComparable_eq_argOk_value (tbl : FuncTable) (ht : StdTable tbl) (a : Expr)
    (h1 : Rfc.stdExpr a = true) (hat : isAtom a = true) :
    (!nonComparable tbl a) = argOk tbl .value a := by
  cases a with
  | func name args =>
    obtain ⟨hn, _⟩ := std_func_names h1
    obtain ⟨t1, t2, t3, t4, t5⟩ := ht
    rcases hn with rfl | rfl | rfl | rfl | rfl
    · rw [nonComparable_func _ t1, argOk_value_func _ t1]; rfl
    · rw [nonComparable_func _ t2, argOk_value_func _ t2]; rfl
    · rw [nonComparable_func _ t3, argOk_value_func _ t3]; rfl
    · rw [nonComparable_func _ t4, argOk_value_func _ t4]; rfl
    · rw [nonComparable_func _ t5, argOk_value_func _ t5]; rfl
  | not e => simp [isAtom] at hat
  | «infix» l op r => simp [isAtom] at hat
  | _ => first | (simp [Rfc.stdExpr] at h1; done) | simp [nonComparable, argOk, isPath, pathSegs, isValueTypeExpr, retType]


theorem argOk_value_self (tbl : FuncTable) (q : List Seg) : argOk tbl .value (.self q) = Rfc.singularSegs q := by
  simp [argOk, isValueTypeExpr, isPath, pathSegs, retType]
theorem argOk_value_root (tbl : FuncTable) (q : List Seg) (f : Bool) : argOk tbl .value (.root q f) = Rfc.singularSegs q := by
  simp [argOk, isValueTypeExpr, isPath, pathSegs, retType]
theorem argOk_nodes_self (tbl : FuncTable) (q : List Seg) : argOk tbl .nodes (.self q) = true := by
  simp [argOk, isPath]
theorem argOk_nodes_root (tbl : FuncTable) (q : List Seg) (f : Bool) : argOk tbl .nodes (.root q f) = true := by
  simp [argOk, isPath]

mutual
theorem gL (tbl : FuncTable) (ht : StdTable tbl) (e : Expr) (h1 : Rfc.stdExpr e = true) (h2 : cmpAtomic e = true) (h3 : wfDeep e = true) :
    (gateExpr tbl e && !nonLogical tbl e) = Rfc.wtLogical e :=
  match e, h1, h2, h3 with
  | .nil, _, _, _ => by simp [nonLogical, isLiteralOrNil, Rfc.wtLogical]
  | .bool _, _, _, _ => by simp [nonLogical, isLiteralOrNil, Rfc.wtLogical]
  | .int _, _, _, _ => by simp [nonLogical, isLiteralOrNil, Rfc.wtLogical]
  | .flt _, _, _, _ => by simp [nonLogical, isLiteralOrNil, Rfc.wtLogical]
  | .str _, _, _, _ => by simp [nonLogical, isLiteralOrNil, Rfc.wtLogical]
  | .undefined, h1, _, _ => by simp [Rfc.stdExpr] at h1
  | .regex _ _, h1, _, _ => by simp [Rfc.stdExpr] at h1
  | .list _, h1, _, _ => by simp [Rfc.stdExpr] at h1
  | .ctx _, h1, _, _ => by simp [Rfc.stdExpr] at h1
  | .key, h1, _, _ => by simp [Rfc.stdExpr] at h1
  | .not e, h1, h2, h3 => by
    simp only [Rfc.stdExpr] at h1
    simp only [cmpAtomic] at h2
    simp only [wfDeep] at h3
    have ih := gL tbl ht e h1 h2 h3
    rw [nonLogical_not, Bool.not_false, Bool.and_true]
    simp only [gateExpr, Rfc.wtLogical]
    exact ih
  | .infix l op r, h1, h2, h3 => by
    have hops := std_infix_ops h1
    simp only [Rfc.stdExpr, Bool.and_eq_true] at h1
    simp only [cmpAtomic, Bool.and_eq_true, Bool.or_eq_true] at h2
    simp only [wfDeep, Bool.and_eq_true] at h3
    rcases hops with ⟨hlog, hcmp, hw⟩ | ⟨hlog, hcmp, hw⟩
    · rw [infix_log_step tbl l op r hcmp hlog, hw, gL tbl ht l h1.1.2 h2.1.1 h3.1, gL tbl ht r h1.2 h2.1.2 h3.2]
    · have hat : isAtom l = true ∧ isAtom r = true := by
        rcases h2.2 with h | h
        · rw [hlog] at h; exact absurd h (by decide)
        · exact h
      rw [infix_cmp_step tbl l op r hcmp hlog, hw,
        not_nonComparable_eq_argOk_value tbl ht l h1.1.2 hat.1,
        not_nonComparable_eq_argOk_value tbl ht r h1.2 hat.2,
        gV tbl ht l h1.1.2 h2.1.1 h3.1, gV tbl ht r h1.2 h2.1.2 h3.2]
  | .self q, h1, h2, h3 => by
    simp only [Rfc.stdExpr] at h1
    simp only [cmpAtomic] at h2
    simp only [wfDeep] at h3
    rw [nonLogical_self, Bool.not_false, Bool.and_true]
    simp only [gateExpr, Rfc.wtLogical]
    exact gSegs tbl ht q h1 h2 h3
  | .root q fake, h1, h2, h3 => by
    simp only [Rfc.stdExpr, Bool.and_eq_true, Bool.not_eq_true'] at h1
    simp only [cmpAtomic] at h2
    simp only [wfDeep] at h3
    rw [nonLogical_root, Bool.not_false, Bool.and_true]
    simp only [gateExpr, Rfc.wtLogical, h1.1, Bool.not_false, Bool.true_and]
    exact gSegs tbl ht q h1.2 h2 h3
  | .func name args, h1, h2, h3 => by
    obtain ⟨hn, hargs⟩ := std_func_names h1
    simp only [cmpAtomic] at h2
    simp only [wfDeep] at h3
    have ⟨t1, t2, t3, t4, t5⟩ := ht
    have key : ∀ a b, args = [a, b] →
        (gateExpr tbl a && argOk tbl .value a) = Rfc.wtComparable a ∧
        (gateExpr tbl b && argOk tbl .value b) = Rfc.wtComparable b := by
      intro a b hab
      subst hab
      simp only [Rfc.stdExprs, Bool.and_eq_true] at hargs
      simp only [cmpAtomicList, Bool.and_eq_true] at h2
      simp only [wfDeepList, Bool.and_eq_true] at h3
      exact ⟨gV tbl ht a hargs.1 h2.1 h3.1, gV tbl ht b hargs.2.1 h2.2.1 h3.2.1⟩
    rcases hn with rfl | rfl | rfl | rfl | rfl
    · rw [nonLogical_func _ t1, wtLogical_length]; simp
    · rw [nonLogical_func _ t2, wtLogical_count]; simp
    · rw [nonLogical_func _ t3, wtLogical_value]; simp
    · rw [nonLogical_func _ t4, wtLogical_match, gate_func _ t4,
        ← binary_shape tbl .value .value args Rfc.wtComparable Rfc.wtComparable key]
      simp
    · rw [nonLogical_func _ t5, wtLogical_search, gate_func _ t5,
        ← binary_shape tbl .value .value args Rfc.wtComparable Rfc.wtComparable key]
      simp
termination_by sizeOf e

theorem gV (tbl : FuncTable) (ht : StdTable tbl) (a : Expr) (h1 : Rfc.stdExpr a = true) (h2 : cmpAtomic a = true) (h3 : wfDeep a = true) :
    (gateExpr tbl a && argOk tbl .value a) = Rfc.wtComparable a :=
  match a, h1, h2, h3 with
  | .nil, _, _, _ => by simp [gateExpr, argOk, isValueTypeExpr, Rfc.wtComparable]
  | .bool _, _, _, _ => by simp [gateExpr, argOk, isValueTypeExpr, Rfc.wtComparable]
  | .int _, _, _, _ => by simp [gateExpr, argOk, isValueTypeExpr, Rfc.wtComparable]
  | .flt _, _, _, _ => by simp [gateExpr, argOk, isValueTypeExpr, Rfc.wtComparable]
  | .str _, _, _, _ => by simp [gateExpr, argOk, isValueTypeExpr, Rfc.wtComparable]
  | .undefined, h1, _, _ => by simp [Rfc.stdExpr] at h1
  | .regex _ _, h1, _, _ => by simp [Rfc.stdExpr] at h1
  | .list _, h1, _, _ => by simp [Rfc.stdExpr] at h1
  | .ctx _, h1, _, _ => by simp [Rfc.stdExpr] at h1
  | .key, h1, _, _ => by simp [Rfc.stdExpr] at h1
  | .not e, _, _, _ => by simp [argOk, isValueTypeExpr, isPath, retType, Rfc.wtComparable]
  | .infix l op r, _, _, _ => by simp [argOk, isValueTypeExpr, isPath, retType, Rfc.wtComparable]
  | .self q, _, _, _ => by
    rw [argOk_value_self]; simp only [gateExpr, Rfc.wtComparable]; exact gate_and_singular tbl q
  | .root q fake, h1, _, _ => by
    simp only [Rfc.stdExpr, Bool.and_eq_true, Bool.not_eq_true'] at h1
    rw [argOk_value_root]
    simp only [gateExpr, Rfc.wtComparable, h1.1, Bool.not_false, Bool.true_and]
    exact gate_and_singular tbl q
  | .func name args, h1, h2, h3 => by
    obtain ⟨hn, hargs⟩ := std_func_names h1
    simp only [cmpAtomic] at h2
    simp only [wfDeep] at h3
    have ⟨t1, t2, t3, t4, t5⟩ := ht
    have keyV : ∀ a, args = [a] → (gateExpr tbl a && argOk tbl .value a) = Rfc.wtComparable a := by
      intro a hab
      subst hab
      simp only [Rfc.stdExprs, Bool.and_eq_true] at hargs
      simp only [cmpAtomicList, Bool.and_eq_true] at h2
      simp only [wfDeepList, Bool.and_eq_true] at h3
      exact gV tbl ht a hargs.1 h2.1 h3.1
    have keyN : ∀ a, args = [a] → (gateExpr tbl a && argOk tbl .nodes a) = Rfc.wtNodesArg a := by
      intro a hab
      subst hab
      simp only [Rfc.stdExprs, Bool.and_eq_true] at hargs
      simp only [cmpAtomicList, Bool.and_eq_true] at h2
      simp only [wfDeepList, Bool.and_eq_true] at h3
      exact gN tbl ht a hargs.1 h2.1 h3.1
    rcases hn with rfl | rfl | rfl | rfl | rfl
    · rw [argOk_value_func _ t1, wtComparable_length, gate_func _ t1,
        ← unary_shape tbl .value args Rfc.wtComparable keyV]
      simp
    · rw [argOk_value_func _ t2, wtComparable_count, gate_func _ t2,
        ← unary_shape tbl .nodes args Rfc.wtNodesArg keyN]
      simp
    · rw [argOk_value_func _ t3, wtComparable_value, gate_func _ t3,
        ← unary_shape tbl .nodes args Rfc.wtNodesArg keyN]
      simp
    · rw [argOk_value_func _ t4, wtComparable_match]; simp
    · rw [argOk_value_func _ t5, wtComparable_search]; simp
termination_by sizeOf a

theorem gN (tbl : FuncTable) (ht : StdTable tbl) (a : Expr) (h1 : Rfc.stdExpr a = true) (h2 : cmpAtomic a = true) (h3 : wfDeep a = true) :
    (gateExpr tbl a && argOk tbl .nodes a) = Rfc.wtNodesArg a :=
  match a, h1, h2, h3 with
  | .nil, _, _, _ => by simp [argOk, isPath, retType, Rfc.wtNodesArg]
  | .bool _, _, _, _ => by simp [argOk, isPath, retType, Rfc.wtNodesArg]
  | .int _, _, _, _ => by simp [argOk, isPath, retType, Rfc.wtNodesArg]
  | .flt _, _, _, _ => by simp [argOk, isPath, retType, Rfc.wtNodesArg]
  | .str _, _, _, _ => by simp [argOk, isPath, retType, Rfc.wtNodesArg]
  | .undefined, h1, _, _ => by simp [Rfc.stdExpr] at h1
  | .regex _ _, h1, _, _ => by simp [Rfc.stdExpr] at h1
  | .list _, h1, _, _ => by simp [Rfc.stdExpr] at h1
  | .ctx _, h1, _, _ => by simp [Rfc.stdExpr] at h1
  | .key, h1, _, _ => by simp [Rfc.stdExpr] at h1
  | .not e, _, _, _ => by simp [argOk, isPath, retType, Rfc.wtNodesArg]
  | .infix l op r, _, _, _ => by simp [argOk, isPath, retType, Rfc.wtNodesArg]
  | .self q, h1, h2, h3 => by
    simp only [Rfc.stdExpr] at h1
    simp only [cmpAtomic] at h2
    simp only [wfDeep] at h3
    rw [argOk_nodes_self, Bool.and_true]
    simp only [gateExpr, Rfc.wtNodesArg]
    exact gSegs tbl ht q h1 h2 h3
  | .root q fake, h1, h2, h3 => by
    simp only [Rfc.stdExpr, Bool.and_eq_true, Bool.not_eq_true'] at h1
    simp only [cmpAtomic] at h2
    simp only [wfDeep] at h3
    rw [argOk_nodes_root, Bool.and_true]
    simp only [gateExpr, Rfc.wtNodesArg, h1.1, Bool.not_false, Bool.true_and]
    exact gSegs tbl ht q h1.2 h2 h3
  | .func name args, h1, _, _ => by
    obtain ⟨hn, _⟩ := std_func_names h1
    have ⟨t1, t2, t3, t4, t5⟩ := ht
    rw [wtNodesArg_func]
    rcases hn with rfl | rfl | rfl | rfl | rfl
    · rw [argOk_nodes_func _ t1]; simp
    · rw [argOk_nodes_func _ t2]; simp
    · rw [argOk_nodes_func _ t3]; simp
    · rw [argOk_nodes_func _ t4]; simp
    · rw [argOk_nodes_func _ t5]; simp
termination_by sizeOf a

theorem gSel (tbl : FuncTable) (ht : StdTable tbl) (s : Sel) (h1 : Rfc.stdSel s = true) (h2 : cmpAtomicSel s = true) (h3 : wfDeepSel s = true) :
    gateSel tbl s = Rfc.wtSel s :=
  match s, h1, h2, h3 with
  | .filter e, h1, h2, h3 => by
    simp only [Rfc.stdSel] at h1
    simp only [cmpAtomicSel] at h2
    simp only [wfDeepSel] at h3
    simp only [gateSel, Rfc.wtSel]
    exact gL tbl ht e h1 h2 h3
  | .keys, h1, _, _ => by simp [Rfc.stdSel] at h1
  | .name _, _, _, _ => by simp [gateSel, Rfc.wtSel]
  | .index _, _, _, _ => by simp [gateSel, Rfc.wtSel]
  | .slice _ _ _, _, _, _ => by simp [gateSel, Rfc.wtSel]
  | .wild, _, _, _ => by simp [gateSel, Rfc.wtSel]
termination_by sizeOf s

theorem gSels (tbl : FuncTable) (ht : StdTable tbl) (ss : List Sel) (h1 : Rfc.stdSels ss = true) (h2 : cmpAtomicSels ss = true) (h3 : wfDeepSels ss = true) :
    gateSels tbl ss = Rfc.wtSels ss :=
  match ss, h1, h2, h3 with
  | [], _, _, _ => by simp [gateSels, Rfc.wtSels]
  | s :: ss, h1, h2, h3 => by
    simp only [Rfc.stdSels, Bool.and_eq_true] at h1
    simp only [cmpAtomicSels, Bool.and_eq_true] at h2
    simp only [wfDeepSels, Bool.and_eq_true] at h3
    simp only [gateSels, Rfc.wtSels]
    rw [gSel tbl ht s h1.1 h2.1 h3.1, gSels tbl ht ss h1.2 h2.2 h3.2]
termination_by sizeOf ss

theorem gSegs (tbl : FuncTable) (ht : StdTable tbl) (segs : List Seg) (h1 : Rfc.stdSegs segs = true) (h2 : cmpAtomicSegs segs = true) (h3 : wfDeepSegs segs = true) :
    gateSegs tbl segs = Rfc.wtSegs segs :=
  match segs, h1, h2, h3 with
  | [], _, _, _ => by simp [gateSegs, Rfc.wtSegs]
  | .child sels :: rest, h1, h2, h3 => by
    simp only [Rfc.stdSegs, Bool.and_eq_true] at h1
    simp only [cmpAtomicSegs, Bool.and_eq_true] at h2
    simp only [wfDeepSegs, Bool.and_eq_true] at h3
    simp only [gateSegs, Rfc.wtSegs]
    rw [gSels tbl ht sels h1.1 h2.1 h3.1, gSegs tbl ht rest h1.2 h2.2 h3.2]
  | .desc :: .child sels :: rest, h1, h2, h3 => by
    simp only [Rfc.stdSegs, Bool.and_eq_true] at h1
    simp only [cmpAtomicSegs, Bool.and_eq_true] at h2
    simp only [wfDeepSegs, Bool.and_eq_true] at h3
    simp only [gateSegs, Rfc.wtSegs]
    rw [gSels tbl ht sels h1.1 h2.1 h3.1, gSegs tbl ht rest h1.2 h2.2 h3.2]
  | [.desc], _, _, h3 => by simp [wfDeepSegs] at h3
  | .desc :: .desc :: _, _, _, h3 => by simp [wfDeepSegs] at h3
termination_by sizeOf segs
end

end JP.Lemmas
