/-
  Alias spellings in the character-level lexer model: the alternative spellings of an operator or
  keyword are read as the same parser token.
-/
import JP.Lex
import JP.Lemmas.LexAliasAux
namespace JP.Lemmas
set_option linter.unusedSimpArgs false
open JP JP.Query JP.Surface JP.Lex JP.Lemmas.LexAlias

/-- the parser token(s) of the first lexeme of a text (default spellings) -/
def firstTok (uw : Char → Bool) (s : Str) : Option (Except CookErr (List CTok) × Str) :=
  match firstMatch (rules ⟨dflt, uw⟩) s with
  | some (ts, rest) => some (cook ts, rest)
  | none => none

/-- `and` (not continued by a word character) and `&&` are the same token -/
theorem alias_and (uw : Char → Bool) (rest : Str) (hb : atBoundary uw rest = true) :
    firstTok uw ("and".toList ++ rest) = some (.ok [.tok (.op .and)], rest) ∧
    firstTok uw ("&&".toList ++ rest) = some (.ok [.tok (.op .and)], rest) := by
  constructor
  · have hf : mFunc ('a' :: (['n', 'd'] ++ rest)) = none :=
      mFunc_keyword (uw := uw) 'a' ['n', 'd'] rest (by decide) hb (by decide)
    have : "and".toList ++ rest = 'a' :: (['n', 'd'] ++ rest) := rfl
    rw [this, firstTok, firstMatch_rules uw _ _ (by decide) hf]
    simp [tailRules, firstMatch, orElse, mWordCI, mLit, mWord, hb, cook, Except.map]
  · have hf : mFunc ('&' :: (['&'] ++ rest)) = none := mFunc_notLower _ _ (by decide)
    have : "&&".toList ++ rest = '&' :: (['&'] ++ rest) := rfl
    rw [this, firstTok, firstMatch_rules uw _ _ (by decide) hf]
    simp [tailRules, firstMatch, orElse, mWordCI, mLit, mWord, hb, cook, Except.map]

theorem alias_or (uw : Char → Bool) (rest : Str) (hb : atBoundary uw rest = true) :
    firstTok uw ("or".toList ++ rest) = some (.ok [.tok (.op .or)], rest) ∧
    firstTok uw ("||".toList ++ rest) = some (.ok [.tok (.op .or)], rest) := by
  constructor
  · have hf : mFunc ('o' :: (['r'] ++ rest)) = none :=
      mFunc_keyword (uw := uw) 'o' ['r'] rest (by decide) hb (by decide)
    have : "or".toList ++ rest = 'o' :: (['r'] ++ rest) := rfl
    rw [this, firstTok, firstMatch_rules uw _ _ (by decide) hf]
    simp [tailRules, firstMatch, orElse, mWordCI, mLit, mWord, hb, cook, Except.map]
  · have hf : mFunc ('|' :: (['|'] ++ rest)) = none := mFunc_notLower _ _ (by decide)
    have : "||".toList ++ rest = '|' :: (['|'] ++ rest) := rfl
    rw [this, firstTok, firstMatch_rules uw _ _ (by decide) hf]
    simp [tailRules, firstMatch, orElse, mWordCI, mLit, mWord, hb, cook, Except.map]

/-- `not` and `!` (not followed by `=`, which would make it `!=`) are the same token -/
theorem alias_not (uw : Char → Bool) (rest : Str) (hb : atBoundary uw rest = true) (hne : ∀ r, rest ≠ '=' :: r) :
    firstTok uw ("not".toList ++ rest) = some (.ok [.tok .not], rest) ∧
    firstTok uw ("!".toList ++ rest) = some (.ok [.tok .not], rest) := by
  constructor
  · have hf : mFunc ('n' :: (['o', 't'] ++ rest)) = none :=
      mFunc_keyword (uw := uw) 'n' ['o', 't'] rest (by decide) hb (by decide)
    have : "not".toList ++ rest = 'n' :: (['o', 't'] ++ rest) := rfl
    rw [this, firstTok, firstMatch_rules uw _ _ (by decide) hf]
    simp [tailRules, firstMatch, orElse, mWordCI, mLit, mWord, hb, cook, Except.map]
  · have hf : mFunc ('!' :: rest) = none := mFunc_notLower _ _ (by decide)
    have : "!".toList ++ rest = '!' :: rest := rfl
    rw [this, firstTok, firstMatch_rules uw _ _ (by decide) hf]
    cases rest with
    | nil => simp [tailRules, firstMatch, orElse, mWordCI, mLit, mWord, cook, Except.map]
    | cons d r =>
      have hd : ¬ '=' = d := fun h => hne r (by rw [h])
      simp [tailRules, firstMatch, orElse, mWordCI, mLit, mWord, cook, Except.map, hd]

/-- `nil`, `null`, `none` and their capitalised forms are the same token (when not written as a call) -/
theorem alias_nil (uw : Char → Bool) (rest : Str) (hb : atBoundary uw rest = true) (hnp : ∀ r, rest ≠ '(' :: r)
    (w : String) (hw : w ∈ ["nil", "Nil", "null", "Null", "none", "None"]) :
    firstTok uw (w.toList ++ rest) = some (.ok [.tok .nil], rest) := by
  simp only [List.mem_cons, List.not_mem_nil, or_false] at hw
  rcases hw with rfl | rfl | rfl | rfl | rfl | rfl
  · have hf : mFunc ('n' :: (['i', 'l'] ++ rest)) = none :=
      mFunc_noParen (uw := uw) 'n' ['i', 'l'] rest (by decide) hb hnp
    have : "nil".toList ++ rest = 'n' :: (['i', 'l'] ++ rest) := rfl
    rw [this, firstTok, firstMatch_rules uw _ _ (by decide) hf]
    simp [tailRules, firstMatch, orElse, mWordCI, mLit, mWord, hb, cook, Except.map]
  · have hf : mFunc ('N' :: (['i', 'l'] ++ rest)) = none := mFunc_notLower _ _ (by decide)
    have : "Nil".toList ++ rest = 'N' :: (['i', 'l'] ++ rest) := rfl
    rw [this, firstTok, firstMatch_rules uw _ _ (by decide) hf]
    simp [tailRules, firstMatch, orElse, mWordCI, mLit, mWord, hb, cook, Except.map]
  · have hf : mFunc ('n' :: (['u', 'l', 'l'] ++ rest)) = none :=
      mFunc_noParen (uw := uw) 'n' ['u', 'l', 'l'] rest (by decide) hb hnp
    have : "null".toList ++ rest = 'n' :: (['u', 'l', 'l'] ++ rest) := rfl
    rw [this, firstTok, firstMatch_rules uw _ _ (by decide) hf]
    simp [tailRules, firstMatch, orElse, mWordCI, mLit, mWord, hb, cook, Except.map]
  · have hf : mFunc ('N' :: (['u', 'l', 'l'] ++ rest)) = none := mFunc_notLower _ _ (by decide)
    have : "Null".toList ++ rest = 'N' :: (['u', 'l', 'l'] ++ rest) := rfl
    rw [this, firstTok, firstMatch_rules uw _ _ (by decide) hf]
    simp [tailRules, firstMatch, orElse, mWordCI, mLit, mWord, hb, cook, Except.map]
  · have hf : mFunc ('n' :: (['o', 'n', 'e'] ++ rest)) = none :=
      mFunc_noParen (uw := uw) 'n' ['o', 'n', 'e'] rest (by decide) hb hnp
    have : "none".toList ++ rest = 'n' :: (['o', 'n', 'e'] ++ rest) := rfl
    rw [this, firstTok, firstMatch_rules uw _ _ (by decide) hf]
    simp [tailRules, firstMatch, orElse, mWordCI, mLit, mWord, hb, cook, Except.map]
  · have hf : mFunc ('N' :: (['o', 'n', 'e'] ++ rest)) = none := mFunc_notLower _ _ (by decide)
    have : "None".toList ++ rest = 'N' :: (['o', 'n', 'e'] ++ rest) := rfl
    rw [this, firstTok, firstMatch_rules uw _ _ (by decide) hf]
    simp [tailRules, firstMatch, orElse, mWordCI, mLit, mWord, hb, cook, Except.map]

theorem alias_true (uw : Char → Bool) (rest : Str) (hb : atBoundary uw rest = true) (hnp : ∀ r, rest ≠ '(' :: r)
    (w : String) (hw : w ∈ ["true", "True"]) :
    firstTok uw (w.toList ++ rest) = some (.ok [.tok .true_], rest) := by
  simp only [List.mem_cons, List.not_mem_nil, or_false] at hw
  rcases hw with rfl | rfl
  · have hf : mFunc ('t' :: (['r', 'u', 'e'] ++ rest)) = none :=
      mFunc_noParen (uw := uw) 't' ['r', 'u', 'e'] rest (by decide) hb hnp
    have : "true".toList ++ rest = 't' :: (['r', 'u', 'e'] ++ rest) := rfl
    rw [this, firstTok, firstMatch_rules uw _ _ (by decide) hf]
    simp [tailRules, firstMatch, orElse, mWordCI, mLit, mWord, hb, cook, Except.map]
  · have hf : mFunc ('T' :: (['r', 'u', 'e'] ++ rest)) = none := mFunc_notLower _ _ (by decide)
    have : "True".toList ++ rest = 'T' :: (['r', 'u', 'e'] ++ rest) := rfl
    rw [this, firstTok, firstMatch_rules uw _ _ (by decide) hf]
    simp [tailRules, firstMatch, orElse, mWordCI, mLit, mWord, hb, cook, Except.map]

theorem alias_false (uw : Char → Bool) (rest : Str) (hb : atBoundary uw rest = true) (hnp : ∀ r, rest ≠ '(' :: r)
    (w : String) (hw : w ∈ ["false", "False"]) :
    firstTok uw (w.toList ++ rest) = some (.ok [.tok .false_], rest) := by
  simp only [List.mem_cons, List.not_mem_nil, or_false] at hw
  rcases hw with rfl | rfl
  · have hf : mFunc ('f' :: (['a', 'l', 's', 'e'] ++ rest)) = none :=
      mFunc_noParen (uw := uw) 'f' ['a', 'l', 's', 'e'] rest (by decide) hb hnp
    have : "false".toList ++ rest = 'f' :: (['a', 'l', 's', 'e'] ++ rest) := rfl
    rw [this, firstTok, firstMatch_rules uw _ _ (by decide) hf]
    simp [tailRules, firstMatch, orElse, mWordCI, mLit, mWord, hb, cook, Except.map]
  · have hf : mFunc ('F' :: (['a', 'l', 's', 'e'] ++ rest)) = none := mFunc_notLower _ _ (by decide)
    have : "False".toList ++ rest = 'F' :: (['a', 'l', 's', 'e'] ++ rest) := rfl
    rw [this, firstTok, firstMatch_rules uw _ _ (by decide) hf]
    simp [tailRules, firstMatch, orElse, mWordCI, mLit, mWord, hb, cook, Except.map]

theorem alias_undefined (uw : Char → Bool) (rest : Str) (hb : atBoundary uw rest = true) (hnp : ∀ r, rest ≠ '(' :: r)
    (w : String) (hw : w ∈ ["undefined", "missing"]) :
    firstTok uw (w.toList ++ rest) = some (.ok [.tok .undefined], rest) := by
  simp only [List.mem_cons, List.not_mem_nil, or_false] at hw
  rcases hw with rfl | rfl
  · have hf : mFunc ('u' :: (['n', 'd', 'e', 'f', 'i', 'n', 'e', 'd'] ++ rest)) = none :=
      mFunc_noParen (uw := uw) 'u' ['n', 'd', 'e', 'f', 'i', 'n', 'e', 'd'] rest (by decide) hb hnp
    have : "undefined".toList ++ rest = 'u' :: (['n', 'd', 'e', 'f', 'i', 'n', 'e', 'd'] ++ rest) := rfl
    rw [this, firstTok, firstMatch_rules uw _ _ (by decide) hf]
    simp [tailRules, firstMatch, orElse, mWordCI, mLit, mWord, hb, cook, Except.map]
  · have hf : mFunc ('m' :: (['i', 's', 's', 'i', 'n', 'g'] ++ rest)) = none :=
      mFunc_noParen (uw := uw) 'm' ['i', 's', 's', 'i', 'n', 'g'] rest (by decide) hb hnp
    have : "missing".toList ++ rest = 'm' :: (['i', 's', 's', 'i', 'n', 'g'] ++ rest) := rfl
    rw [this, firstTok, firstMatch_rules uw _ _ (by decide) hf]
    simp [tailRules, firstMatch, orElse, mWordCI, mLit, mWord, hb, cook, Except.map]

end JP.Lemmas
