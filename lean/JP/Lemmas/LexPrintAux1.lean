/-
  LexPrint helpers, part 1: the fuel-free lexing relation, cooking of token blocks, span lemmas,
  what may follow a printed token.
-/
import JP.Lemmas.LexStr
import JP.Lemmas.Decimal
namespace JP.Lemmas.LexPrint
open JP JP.Query JP.Surface JP.Lex

/-! ### span -/

theorem span_loop_eq (p : Char → Bool) (l acc : Str) :
    List.span.loop p l acc = (acc.reverse ++ l.takeWhile p, l.dropWhile p) := by
  induction l generalizing acc with
  | nil => simp [List.span.loop]
  | cons a l ih =>
    simp only [List.span.loop, List.takeWhile_cons, List.dropWhile_cons]
    cases h : p a
    · simp
    · simp [ih]

theorem span_eq (p : Char → Bool) (l : Str) : l.span p = (l.takeWhile p, l.dropWhile p) := by
  simp [List.span, span_loop_eq]

/-- the text `s` does not continue a run of `p`-characters -/
def stops (p : Char → Bool) : Str → Bool
  | [] => true
  | c :: _ => !p c

theorem span_stops (p : Char → Bool) (w rest : Str) (hw : w.all p = true) (hr : stops p rest = true) :
    (w ++ rest).span p = (w, rest) := by
  rw [span_eq]
  induction w with
  | nil =>
    cases rest with
    | nil => simp
    | cons c r => simp [stops] at hr; simp [hr]
  | cons a w ih =>
    simp only [List.all_cons, Bool.and_eq_true] at hw
    simp only [List.cons_append, List.takeWhile_cons, List.dropWhile_cons, hw.1, if_true]
    have := ih hw.2
    simp only [Prod.mk.injEq] at this ⊢
    exact ⟨by rw [this.1], this.2⟩

theorem dropWhile_stops (p : Char → Bool) (rest : Str) (hr : stops p rest = true) : rest.dropWhile p = rest := by
  cases rest with
  | nil => rfl
  | cons c r => simp [stops] at hr; simp [hr]

theorem skipWs_stops (rest : Str) (hr : stops isPyBlank rest = true) : skipWs rest = rest :=
  dropWhile_stops _ _ hr

theorem atBoundary_eq (uw : Char → Bool) (s : Str) : atBoundary uw s = stops (isWord uw) s := by
  cases s <;> rfl

/-! ### the rule list for the default spellings -/

def R (uw : Char → Bool) : List M :=
  [ mQuoted '"' .dq, mQuoted '\'' .sq, mRe, mSlice, mFunc, mDotProp, mFloat, mInt uw, mDDotProp,
    mLit .ddot ['.', '.'],
    orElse (mLit .and_ ['&', '&']) (mWord uw .and_ ['a', 'n', 'd']),
    orElse (mLit .or_ ['|', '|']) (mWord uw .or_ ['o', 'r']),
    mLit .root ['$'], mLit .fakeRoot ['^'], mLit .self ['@'], mLit .key ['#'],
    mLit .union ['|'], mLit .inter ['&'], mLit .fctx ['_'], mLit .keys ['~'],
    mLit .wild ['*'], mLit .filter ['?'],
    mWord uw .in_ ['i', 'n'],
    mWordCI uw .true_ 'T' 't' ['r', 'u', 'e'],
    mWordCI uw .false_ 'F' 'f' ['a', 'l', 's', 'e'],
    mWordCI uw .nil 'N' 'n' ['i', 'l'],
    mWordCI uw .nil 'N' 'n' ['u', 'l', 'l'],
    mWordCI uw .nil 'N' 'n' ['o', 'n', 'e'],
    mWord uw .contains ['c', 'o', 'n', 't', 'a', 'i', 'n', 's'],
    mWord uw .undefined ['u', 'n', 'd', 'e', 'f', 'i', 'n', 'e', 'd'],
    mWord uw .missing ['m', 'i', 's', 's', 'i', 'n', 'g'],
    mLit .lbracket ['['], mLit .rbracket [']'], mLit .comma [','],
    mLit .eq ['=', '='], mLit .ne ['!', '='], mLit .lg ['<', '>'], mLit .le ['<', '='], mLit .ge ['>', '='],
    mLit .re ['=', '~'], mLit .lt ['<'], mLit .gt ['>'],
    orElse (mWord uw .not_ ['n', 'o', 't']) (mLit .not_ ['!']),
    (fun s => (scanKey s).map fun (n, r) => ([⟨.bare, n⟩], r)),
    mLit .lparen ['('], mLit .rparen [')'],
    mSkip ]

theorem rules_dflt (uw : Char → Bool) : rules ⟨dflt, uw⟩ = R uw := rfl

/-! ### the fuel-free lexing relation -/

inductive Lexes (uw : Char → Bool) : Str → List RawTok → Prop
  | nil : Lexes uw [] []
  | step {s rest : Str} {ts more : List RawTok} (hf : firstMatch (R uw) s = some (ts, rest))
      (hlen : rest.length < s.length) (hm : Lexes uw rest more) : Lexes uw s (ts ++ more)

theorem lexAux_of_Lexes (uw : Char → Bool) {s : Str} {raw : List RawTok} (h : Lexes uw s raw) :
    ∀ n, s.length ≤ n → lexAux ⟨dflt, uw⟩ n s = .ok raw := by
  induction h with
  | nil => intro n _; cases n <;> rfl
  | @step s rest ts more hf hlen _ ih =>
    intro n hn
    cases s with
    | nil => simp at hlen
    | cons c t =>
      cases n with
      | zero => simp at hn
      | succ m =>
        have hm : rest.length ≤ m := by simp at hn hlen; omega
        simp only [lexAux, rules_dflt, hf, ih m hm]

/-- lexing and cooking `s` gives `cs` -/
def Tokz (uw : Char → Bool) (s : Str) (cs : List CTok) : Prop :=
  ∃ raw, Lexes uw s raw ∧ cook raw = .ok cs

theorem tokenize_of_Tokz {uw : Char → Bool} {s : Str} {cs : List CTok} (h : Tokz uw s cs) :
    tokenize ⟨dflt, uw⟩ s = .ok cs := by
  obtain ⟨raw, hl, hc⟩ := h
  simp only [tokenize, lexRaw, lexAux_of_Lexes uw hl _ (Nat.le_refl _), hc]

theorem Tokz.nil (uw : Char → Bool) : Tokz uw [] [] := ⟨[], Lexes.nil, rfl⟩

/-- the raw block `ts` is cooked to `cs`, whatever follows -/
def CookB (ts : List RawTok) (cs : List CTok) : Prop :=
  ∀ more, cook (ts ++ more) = (cook more).map (cs ++ ·)

theorem Tokz.step {uw : Char → Bool} {w rest : Str} {ts : List RawTok} {cs cs' : List CTok} (hw : w ≠ [])
    (hf : firstMatch (R uw) (w ++ rest) = some (ts, rest)) (hc : CookB ts cs) (ht : Tokz uw rest cs') :
    Tokz uw (w ++ rest) (cs ++ cs') := by
  obtain ⟨raw, hl, hk⟩ := ht
  refine ⟨ts ++ raw, Lexes.step hf ?_ hl, ?_⟩
  · cases w with
    | nil => exact absurd rfl hw
    | cons c t => simp; omega
  · rw [hc raw, hk]; rfl

/-- the text `w`, followed by a text satisfying `P`, is read as one block cooked to `cs` -/
def Emit (uw : Char → Bool) (P : Str → Bool) (w : Str) (cs : List CTok) : Prop :=
  w ≠ [] ∧ ∀ rest, P rest = true → ∃ ts, firstMatch (R uw) (w ++ rest) = some (ts, rest) ∧ CookB ts cs

theorem Emit.tokz {uw : Char → Bool} {P : Str → Bool} {w : Str} {cs : List CTok} (h : Emit uw P w cs)
    {rest : Str} {cs' : List CTok} (hp : P rest = true) (ht : Tokz uw rest cs') : Tokz uw (w ++ rest) (cs ++ cs') := by
  obtain ⟨ts, hf, hc⟩ := h.2 rest hp
  exact Tokz.step h.1 hf hc ht

/-! ### cooking blocks -/

theorem CookB.nil : CookB [] [] := by
  intro more
  show cook more = (cook more).map ([] ++ ·)
  cases cook more <;> simp [Except.map]

theorem cookB_one (t : RawTok) (c : CTok)
    (h : ∀ more, cook (t :: more) = (cook more).map (c :: ·)) : CookB [t] [c] := by
  intro more
  simpa using h more

end JP.Lemmas.LexPrint
