/-
  Normalized paths (RFC 9535 section 2.7) are uniquely readable: `normalizedPath` is injective (C03).
-/
import JP.Rfc9535
import JP.Lemmas.Decimal
import JP.Lemmas.PatchAuxDec
namespace JP.Lemmas
open JP

/-- the normal-single-quoted spelling of one character -/
def esc (c : Char) : Str :=
  if c = '\x08' then ['\\', 'b'] else if c = '\x0c' then ['\\', 'f']
  else if c = '\n' then ['\\', 'n'] else if c = '\r' then ['\\', 'r']
  else if c = '\t' then ['\\', 't'] else if c = '\'' then ['\\', '\'']
  else if c = '\\' then ['\\', '\\']
  else if c.toNat < 0x20 then
    ['\\', 'u', '0', '0', Rfc.hexLower (c.toNat / 16), Rfc.hexLower (c.toNat % 16)]
  else [c]

theorem normalName_cons_esc (c : Char) (cs : Str) :
    Rfc.normalName (c :: cs) = esc c ++ Rfc.normalName cs := rfl

/-- the character a two-character escape stands for -/
def unesc (x : Char) : Char :=
  if x = 'b' then '\x08' else if x = 'f' then '\x0c' else if x = 'n' then '\n'
  else if x = 'r' then '\r' else if x = 't' then '\t' else if x = '\'' then '\'' else '\\'

/-- The three shapes of `esc c`. -/
theorem esc_cases (c : Char) :
    (esc c = [c] ∧ c ≠ '\'' ∧ c ≠ '\\') ∨
    (∃ x, esc c = ['\\', x] ∧ x ≠ 'u' ∧ c = unesc x) ∨
    (c.toNat < 0x20 ∧
      esc c = ['\\', 'u', '0', '0', Rfc.hexLower (c.toNat / 16), Rfc.hexLower (c.toNat % 16)]) := by
  unfold esc
  by_cases h1 : c = '\x08'
  · subst h1; right; left; exact ⟨'b', by decide, by decide, by decide⟩
  by_cases h2 : c = '\x0c'
  · subst h2; right; left; exact ⟨'f', by decide, by decide, by decide⟩
  by_cases h3 : c = '\n'
  · subst h3; right; left; exact ⟨'n', by decide, by decide, by decide⟩
  by_cases h4 : c = '\r'
  · subst h4; right; left; exact ⟨'r', by decide, by decide, by decide⟩
  by_cases h5 : c = '\t'
  · subst h5; right; left; exact ⟨'t', by decide, by decide, by decide⟩
  by_cases h6 : c = '\''
  · subst h6; right; left; exact ⟨'\'', by decide, by decide, by decide⟩
  by_cases h7 : c = '\\'
  · subst h7; right; left; exact ⟨'\\', by decide, by decide, by decide⟩
  by_cases h8 : c.toNat < 0x20
  · right; right
    exact ⟨h8, by simp only [h1, h2, h3, h4, h5, h6, h7, h8, if_false, if_true]⟩
  · left
    exact ⟨by simp only [h1, h2, h3, h4, h5, h6, h7, h8, if_false], h6, h7⟩

theorem hexLower_inj : ∀ n < 16, ∀ m < 16, Rfc.hexLower n = Rfc.hexLower m → n = m := by decide

theorem char_eq_of_hex {c d : Char} (hc : c.toNat < 0x20) (hd : d.toNat < 0x20)
    (h1 : Rfc.hexLower (c.toNat / 16) = Rfc.hexLower (d.toNat / 16))
    (h2 : Rfc.hexLower (c.toNat % 16) = Rfc.hexLower (d.toNat % 16)) : c = d := by
  have e1 := hexLower_inj _ (by omega) _ (by omega) h1
  have e2 := hexLower_inj _ (by omega) _ (by omega) h2
  apply Char.ext
  apply UInt32.toNat_inj.1
  change c.toNat = d.toNat
  omega

/-- One character's spelling is never a closing quote and determines the character. -/
theorem esc_not_quote (c : Char) (u r : Str) : esc c ++ u ≠ '\'' :: r := by
  rcases esc_cases c with ⟨h, h1, _⟩ | ⟨x, h, _, _⟩ | ⟨_, h⟩ <;> rw [h] <;> intro e
  · simp only [List.cons_append, List.nil_append, List.cons.injEq] at e; exact h1 e.1
  · simp only [List.cons_append, List.cons.injEq] at e; exact absurd e.1 (by decide)
  · simp only [List.cons_append, List.cons.injEq] at e; exact absurd e.1 (by decide)

theorem esc_prefix_free {c d : Char} {u v : Str} (h : esc c ++ u = esc d ++ v) : c = d ∧ u = v := by
  rcases esc_cases c with ⟨hc, hc1, hc2⟩ | ⟨x, hc, hx, hcx⟩ | ⟨hc1, hc⟩ <;>
  rcases esc_cases d with ⟨hd, hd1, hd2⟩ | ⟨y, hd, hy, hdy⟩ | ⟨hd1, hd⟩ <;>
  rw [hc, hd] at h <;>
  simp only [List.cons_append, List.nil_append, List.cons.injEq] at h
  · exact ⟨h.1, h.2⟩
  · exact absurd h.1 hc2
  · exact absurd h.1 hc2
  · exact absurd h.1.symm hd2
  · obtain ⟨_, hxy, huv⟩ := h
    exact ⟨by rw [hcx, hdy, hxy], huv⟩
  · exact absurd h.2.1 hx
  · exact absurd h.1.symm hd2
  · exact absurd h.2.1.symm hy
  · obtain ⟨_, _, _, _, e1, e2, huv⟩ := h
    exact ⟨char_eq_of_hex hc1 hd1 e1 e2, huv⟩

/-- A normal name followed by its closing quote can be read back in only one way. -/
theorem normalName_unique (k : Str) : ∀ (k' : Str) (r r' : Str),
    Rfc.normalName k ++ '\'' :: r = Rfc.normalName k' ++ '\'' :: r' → k = k' ∧ r = r' := by
  induction k with
  | nil =>
    intro k' r r' h
    cases k' with
    | nil => simpa [Rfc.normalName] using h
    | cons d ds =>
      rw [normalName_cons_esc, List.append_assoc] at h
      exact absurd h.symm (esc_not_quote d _ _)
  | cons c cs ih =>
    intro k' r r' h
    cases k' with
    | nil =>
      rw [normalName_cons_esc, List.append_assoc] at h
      exact absurd h (esc_not_quote c _ _)
    | cons d ds =>
      rw [normalName_cons_esc, normalName_cons_esc, List.append_assoc, List.append_assoc] at h
      obtain ⟨hcd, hrest⟩ := esc_prefix_free h
      obtain ⟨h1, h2⟩ := ih ds r r' hrest
      exact ⟨by rw [hcd, h1], h2⟩

/-- Digit strings followed by `]` can be read back in only one way. -/
theorem digits_unique (a : Str) : ∀ (b x y : Str), (∀ c ∈ a, c.isDigit = true) →
    (∀ c ∈ b, c.isDigit = true) → a ++ ']' :: x = b ++ ']' :: y → a = b ∧ x = y := by
  have hnd : Char.isDigit ']' = false := by decide
  induction a with
  | nil =>
    intro b x y _ hb h
    cases b with
    | nil => simpa using h
    | cons d ds =>
      simp only [List.nil_append, List.cons_append, List.cons.injEq] at h
      have := hb d (by simp)
      rw [← h.1, hnd] at this; cases this
  | cons c cs ih =>
    intro b x y ha hb h
    cases b with
    | nil =>
      simp only [List.nil_append, List.cons_append, List.cons.injEq] at h
      have := ha c (by simp)
      rw [h.1, hnd] at this; cases this
    | cons d ds =>
      simp only [List.cons_append, List.cons.injEq] at h
      obtain ⟨h1, h2⟩ := ih ds x y (fun c hc => ha c (by simp [hc])) (fun c hc => hb c (by simp [hc])) h.2
      exact ⟨by rw [h.1, h1], h2⟩

theorem natStr_head_ne_quote (n : Nat) (r : Str) (x : Str) : natStr n ++ x ≠ '\'' :: r := by
  intro h
  cases hn : natStr n with
  | nil => exact pa_natStr_ne_nil n hn
  | cons d ds =>
    rw [hn] at h
    simp only [List.cons_append, List.cons.injEq] at h
    have := pa_natStr_all_digit n d (by rw [hn]; simp)
    rw [h.1] at this
    exact absurd this (by decide)

theorem normalStep_unique {s t : Rfc.LStep} {x y : Str}
    (h : Rfc.normalStep s ++ x = Rfc.normalStep t ++ y) : s = t ∧ x = y := by
  cases s with
  | name k =>
    cases t with
    | name k' =>
      simp only [Rfc.normalStep, List.cons_append, List.nil_append, List.append_assoc,
        List.cons.injEq, true_and] at h
      obtain ⟨h1, h2⟩ := normalName_unique k k' _ _ h
      simp only [List.cons.injEq, true_and] at h2
      exact ⟨by rw [h1], h2⟩
    | index m =>
      simp only [Rfc.normalStep, List.cons_append, List.nil_append, List.append_assoc,
        List.cons.injEq, true_and] at h
      exact absurd h.symm (natStr_head_ne_quote m _ _)
  | index n =>
    cases t with
    | name k' =>
      simp only [Rfc.normalStep, List.cons_append, List.nil_append, List.append_assoc,
        List.cons.injEq, true_and] at h
      exact absurd h (natStr_head_ne_quote n _ _)
    | index m =>
      simp only [Rfc.normalStep, List.cons_append, List.nil_append, List.append_assoc,
        List.cons.injEq, true_and] at h
      obtain ⟨h1, h2⟩ := digits_unique _ _ _ _ (pa_natStr_all_digit n) (pa_natStr_all_digit m) h
      exact ⟨by rw [pa_natStr_inj h1], h2⟩

theorem normalStep_ne_nil (s : Rfc.LStep) (x : Str) : Rfc.normalStep s ++ x ≠ [] := by
  cases s <;> simp [Rfc.normalStep]

theorem flatMap_normalStep_inj (a : List Rfc.LStep) : ∀ b : List Rfc.LStep,
    a.flatMap Rfc.normalStep = b.flatMap Rfc.normalStep → a = b := by
  induction a with
  | nil =>
    intro b h
    cases b with
    | nil => rfl
    | cons t b =>
      rw [List.flatMap_cons, List.flatMap_nil] at h
      exact absurd h.symm (normalStep_ne_nil t _)
  | cons s a ih =>
    intro b h
    cases b with
    | nil =>
      rw [List.flatMap_cons, List.flatMap_nil] at h
      exact absurd h (normalStep_ne_nil s _)
    | cons t b =>
      rw [List.flatMap_cons, List.flatMap_cons] at h
      obtain ⟨h1, h2⟩ := normalStep_unique h
      rw [h1, ih b h2]

theorem normalizedPath_inj {a b : List Rfc.LStep}
    (h : Rfc.normalizedPath a = Rfc.normalizedPath b) : a = b := by
  unfold Rfc.normalizedPath at h
  exact flatMap_normalStep_inj a b (List.cons.inj h).2

end JP.Lemmas
