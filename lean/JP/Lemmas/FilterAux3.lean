/-
  C02 core: the descendant segment for per-node refined selector lists, the filter selector, and
  the simultaneous induction over the query / filter-expression AST.
-/
import JP.Lemmas.FilterAux2
namespace JP.Lemmas
open JP JP.Query
set_option linter.unusedSimpArgs false
set_option linter.unusedSectionVars false

theorem filter_map_eq_filterMap {α β} (l : List α) (f : α → β) (p : β → Bool) :
    (l.map f).filter p = l.filterMap (fun x => if p (f x) then some (f x) else none) := by
  induction l with
  | nil => rfl
  | cons x xs ih =>
    simp only [List.map_cons, List.filter_cons, List.filterMap_cons, ih]
    cases p (f x) <;> simp

theorem filter_sel_step {env : Env} {renv : Rfc.REnv} (e : Expr)
    (ihL : ∀ v k, isTruthy (evalExpr env v k e) = Rfc.logical renv v e)
    (n : Node) (r : Rfc.RNode) (hr : Represents n r) :
    RepresentsAll (evalSel env n (.filter e)) (Rfc.evalSel renv r (.filter e)) := by
  have hv : n.val = r.val := hr.2.2
  simp only [evalSel, Rfc.evalSel, Rfc.children, hv]
  cases r.val <;> try exact trivial
  · rename_i xs
    simp only [filter_map_eq_filterMap]
    apply representsAll_filterMap
    intro x _
    rw [ihL]
    cases Rfc.logical renv x.2 e
    · left; simp
    · right
      have := represents_child hr (.index x.1) x.2
      refine ⟨_, _, if_pos rfl, if_pos rfl, ?_⟩
      simpa [partOfStep, bracket_natStr] using this
  · rename_i kvs
    simp only [filter_map_eq_filterMap]
    apply representsAll_filterMap
    intro x _
    rw [ihL]
    cases Rfc.logical renv x.2 e
    · left; simp
    · right
      have := represents_child hr (.name x.1) x.2
      refine ⟨_, _, if_pos rfl, if_pos rfl, ?_⟩
      simpa [partOfStep, bracket_canonicalString] using this


/-! ### descendant segment, for any selector list that is refined node by node -/

/-- the selector list `sels` applied to related nodes gives related node lists -/
def SelsOK (env : Env) (renv : Rfc.REnv) (sels : List Sel) : Prop :=
  ∀ n r, Represents n r → RepresentsAll (evalSels env n sels) (Rfc.evalSels renv r sels)

section DescG
variable (env : Env) (renv : Rfc.REnv) (sels : List Sel) (hs : SelsOK env renv sels)
include hs

theorem rfc_primitive_sels_nothing_g (loc : List Rfc.LStep) (v : J) (h : v.isContainer = false) :
    Rfc.evalSels renv ⟨loc, v⟩ sels = [] := by
  have hr : Represents ⟨loc.map partOfStep, Rfc.normalizedPath loc, v⟩ ⟨loc, v⟩ := ⟨rfl, rfl, rfl⟩
  have := hs _ _ hr
  rw [primitive_sels_nothing env _ sels h] at this
  exact representsAll_nil_left this

theorem descP_all_g (v : J) : DescP env renv sels v := by
  have prim : ∀ v : J, v.isContainer = false →
      DescP env renv sels v := by
    intro v hv loc
    have e : Rfc.descendantsOrSelf.go loc v = [⟨loc, v⟩] := by
      cases v <;> simp_all [Rfc.descendantsOrSelf.go, J.isContainer]
    simp [codeDesc, hv, e, rfc_primitive_sels_nothing_g env renv sels hs loc v hv]
  induction v using JP.Lemmas.J.induct with
  | hnull => exact prim _ rfl
  | hbool b => exact prim _ rfl
  | hint i => exact prim _ rfl
  | hflt m => exact prim _ rfl
  | hstr s => exact prim _ rfl
  | harr xs ih =>
    intro loc
    simp only [codeDesc, J.isContainer, if_true, expand.go, Rfc.descendantsOrSelf.go,
      List.flatMap_cons]
    exact representsAll_append (hs _ _ ⟨rfl, rfl, rfl⟩) (desc_elems env renv sels xs ih loc 0)
  | hobj kvs ih =>
    intro loc
    simp only [codeDesc, J.isContainer, if_true, expand.go, Rfc.descendantsOrSelf.go,
      List.flatMap_cons]
    exact representsAll_append (hs _ _ ⟨rfl, rfl, rfl⟩) (desc_members env renv sels kvs ih loc)

theorem desc_refines_g (n : Node) (r : Rfc.RNode) (hr : Represents n r) :
    RepresentsAll ((n :: expand n).flatMap (fun n => evalSels env n sels))
      ((Rfc.descendantsOrSelf r).flatMap (fun d => Rfc.evalSels renv d sels)) := by
  obtain ⟨parts, path, val⟩ := n
  obtain ⟨loc, rv⟩ := r
  obtain ⟨h1, h2, h3⟩ := hr
  simp only at h1 h2 h3
  subst h1 h2 h3
  by_cases hc : val.isContainer = true
  · have := descP_all_g env renv sels hs val loc
    simpa [codeDesc, hc, expand, Rfc.descendantsOrSelf] using this
  · have hc' : val.isContainer = false := by simpa using hc
    have e : Rfc.descendantsOrSelf.go loc val = [⟨loc, val⟩] := by
      cases val <;> simp_all [Rfc.descendantsOrSelf.go, J.isContainer]
    have e2 : expand.go (loc.map partOfStep) (Rfc.normalizedPath loc) val = [] := by
      cases val <;> simp_all [expand.go, J.isContainer]
    simp only [expand, Rfc.descendantsOrSelf, e, e2, List.flatMap_cons, List.flatMap_nil]
    exact representsAll_append (hs _ _ ⟨rfl, rfl, rfl⟩) trivial

end DescG

/-! ### segment steps -/

theorem segs_child_step {env : Env} {renv : Rfc.REnv} (sels : List Sel) (rest : List Seg)
    (h1 : SelsOK env renv sels) (h2 : SegsOK env renv rest) :
    SegsOK env renv (.child sels :: rest) := by
  intro ns rs hr
  simp only [evalSegs, Rfc.evalSegs]
  exact h2 _ _ (representsAll_flatMap hr h1)

theorem segs_desc_step {env : Env} {renv : Rfc.REnv} (sels : List Sel) (rest : List Seg)
    (h1 : SelsOK env renv sels) (h2 : SegsOK env renv rest) :
    SegsOK env renv (.desc :: .child sels :: rest) := by
  intro ns rs hr
  simp only [evalSegs, Rfc.evalSegs, List.flatMap_assoc]
  exact h2 _ _ (representsAll_flatMap hr (fun n r h => desc_refines_g env renv sels h1 n r h))

theorem sels_cons_step {env : Env} {renv : Rfc.REnv} (s : Sel) (ss : List Sel)
    (h1 : ∀ n r, Represents n r → RepresentsAll (evalSel env n s) (Rfc.evalSel renv r s))
    (h2 : SelsOK env renv ss) : SelsOK env renv (s :: ss) := by
  intro n r hr
  simp only [evalSels, Rfc.evalSels]
  exact representsAll_append (h1 n r hr) (h2 n r hr)

theorem sels_nil_step {env : Env} {renv : Rfc.REnv} : SelsOK env renv [] := by
  intro n r _; simp [evalSels, Rfc.evalSels]

theorem segs_nil_step {env : Env} {renv : Rfc.REnv} : SegsOK env renv [] := by
  intro ns rs hr; simpa [evalSegs, Rfc.evalSegs] using hr

/-! ### the simultaneous induction -/

theorem singular_wt : ∀ q : List Seg, Rfc.singularSegs q = true → plainSegs q = true ∧ Rfc.wellFormedSegs q = true
  | [], _ => by simp [plainSegs, Rfc.wellFormedSegs]
  | .child [.name k] :: rest, hs => by
    simp only [Rfc.singularSegs] at hs
    simpa [plainSegs, plainSels, plainSel, Rfc.wellFormedSegs] using singular_wt rest hs
  | .child [.index i] :: rest, hs => by
    simp only [Rfc.singularSegs] at hs
    simpa [plainSegs, plainSels, plainSel, Rfc.wellFormedSegs] using singular_wt rest hs
  | .desc :: _, hs => by simp [Rfc.singularSegs] at hs
  | .child [] :: _, hs => by simp [Rfc.singularSegs] at hs
  | .child (_ :: _ :: _) :: _, hs => by simp [Rfc.singularSegs] at hs
  | .child [.slice _ _ _] :: _, hs => by simp [Rfc.singularSegs] at hs
  | .child [.wild] :: _, hs => by simp [Rfc.singularSegs] at hs
  | .child [.keys] :: _, hs => by simp [Rfc.singularSegs] at hs
  | .child [.filter _] :: _, hs => by simp [Rfc.singularSegs] at hs

theorem singular_segsOK (env : Env) (renv : Rfc.REnv) (q : List Seg)
    (hs : Rfc.singularSegs q = true) : SegsOK env renv q := by
  intro ns rs hr
  obtain ⟨h1, h2⟩ := singular_wt q hs
  exact segs_refines_rfc env renv q ns rs h1 h2 hr

section Main
variable {env : Env} {renv : Rfc.REnv} (hag : EnvAgree env renv)
include hag

mutual
  theorem logical_main : ∀ (e : Expr) (cur : J) (key : Option Part), Rfc.wtLogical e = true →
      isTruthy (evalExpr env cur key e) = Rfc.logical renv cur e
    | .not e, cur, key, h => by
      simp only [Rfc.wtLogical] at h
      exact logical_not_step e cur key (logical_main e cur key h)
    | .infix l op r, cur, key, h => by
      by_cases h1 : op = .and
      · subst h1
        simp [Rfc.wtLogical] at h
        exact logical_and_step l r cur key (logical_main l cur key h.1) (logical_main r cur key h.2)
      · by_cases h2 : op = .or
        · subst h2
          simp [Rfc.wtLogical] at h
          exact logical_or_step l r cur key (logical_main l cur key h.1) (logical_main r cur key h.2)
        · have hl : (op == CmpOp.and || op == CmpOp.or) = false := by
            cases op <;> simp_all
          rw [Rfc.wtLogical.eq_def] at h
          simp only [hl] at h
          by_cases hop : isCmpOp op = true
          · have hop' := hop
            unfold isCmpOp at hop'
            simp only [hop', Bool.false_eq_true, if_false, if_true, Bool.and_eq_true] at h
            exact logical_cmp_step l r op hop cur key (value_main l cur key h.1)
              (value_main r cur key h.2)
          · unfold isCmpOp at hop
            simp [hop] at h
    | .self q, cur, key, h => by
      simp only [Rfc.wtLogical] at h
      exact logical_self_step hag q (segs_main q h) cur key
    | .root q fake, cur, key, h => by
      simp only [Rfc.wtLogical, Bool.and_eq_true, Bool.not_eq_true'] at h
      obtain ⟨rfl, h⟩ := h
      exact logical_root_step hag q (segs_main q h) cur key
    | .func name args, cur, key, h =>
      logical_func_step hag name args cur key h (fun a _ ha => value_main a cur key ha)
    | .nil, _, _, h => by simp [Rfc.wtLogical] at h
    | .undefined, _, _, h => by simp [Rfc.wtLogical] at h
    | .bool _, _, _, h => by simp [Rfc.wtLogical] at h
    | .int _, _, _, h => by simp [Rfc.wtLogical] at h
    | .flt _, _, _, h => by simp [Rfc.wtLogical] at h
    | .str _, _, _, h => by simp [Rfc.wtLogical] at h
    | .regex _ _, _, _, h => by simp [Rfc.wtLogical] at h
    | .list _, _, _, h => by simp [Rfc.wtLogical] at h
    | .ctx _, _, _, h => by simp [Rfc.wtLogical] at h
    | .key, _, _, h => by simp [Rfc.wtLogical] at h
  termination_by e => sizeOf e

  theorem value_main : ∀ (e : Expr) (cur : J) (key : Option Part), Rfc.wtComparable e = true →
      RepV (unwrapSingle (evalExpr env cur key e)) (Rfc.valueOf renv cur e)
    | .nil, _, _, _ => by simp [evalExpr, unwrapSingle, Rfc.valueOf, RepV]
    | .bool _, _, _, _ => by simp [evalExpr, unwrapSingle, Rfc.valueOf, RepV]
    | .int _, _, _, _ => by simp [evalExpr, unwrapSingle, Rfc.valueOf, RepV]
    | .flt _, _, _, _ => by simp [evalExpr, unwrapSingle, Rfc.valueOf, RepV]
    | .str _, _, _, _ => by simp [evalExpr, unwrapSingle, Rfc.valueOf, RepV]
    | .self q, cur, key, h => by
      simp only [Rfc.wtComparable] at h
      exact value_self_step hag q h (singular_segsOK env renv q h) cur key
    | .root q fake, cur, key, h => by
      simp only [Rfc.wtComparable, Bool.and_eq_true, Bool.not_eq_true'] at h
      obtain ⟨rfl, h⟩ := h
      exact value_root_step hag q h (singular_segsOK env renv q h) cur key
    | .func name args, cur, key, h =>
      value_func_step name args cur key h (fun a _ ha => value_main a cur key ha)
        (fun a _ ha => nodes_main a cur key ha)
    | .undefined, _, _, h => by simp [Rfc.wtComparable] at h
    | .regex _ _, _, _, h => by simp [Rfc.wtComparable] at h
    | .list _, _, _, h => by simp [Rfc.wtComparable] at h
    | .not _, _, _, h => by simp [Rfc.wtComparable] at h
    | .infix _ _ _, _, _, h => by simp [Rfc.wtComparable] at h
    | .ctx _, _, _, h => by simp [Rfc.wtComparable] at h
    | .key, _, _, h => by simp [Rfc.wtComparable] at h
  termination_by e => sizeOf e

  theorem nodes_main : ∀ (e : Expr) (cur : J) (key : Option Part), Rfc.wtNodesArg e = true →
      NodesOK env renv cur key e
    | .self q, cur, key, h => by
      simp only [Rfc.wtNodesArg] at h
      exact nodes_self_step hag q (segs_main q h) cur key
    | .root q fake, cur, key, h => by
      simp only [Rfc.wtNodesArg, Bool.and_eq_true, Bool.not_eq_true'] at h
      obtain ⟨rfl, h⟩ := h
      exact nodes_root_step hag q (segs_main q h) cur key
    | .nil, _, _, h => by simp [Rfc.wtNodesArg] at h
    | .undefined, _, _, h => by simp [Rfc.wtNodesArg] at h
    | .bool _, _, _, h => by simp [Rfc.wtNodesArg] at h
    | .int _, _, _, h => by simp [Rfc.wtNodesArg] at h
    | .flt _, _, _, h => by simp [Rfc.wtNodesArg] at h
    | .str _, _, _, h => by simp [Rfc.wtNodesArg] at h
    | .regex _ _, _, _, h => by simp [Rfc.wtNodesArg] at h
    | .list _, _, _, h => by simp [Rfc.wtNodesArg] at h
    | .not _, _, _, h => by simp [Rfc.wtNodesArg] at h
    | .infix _ _ _, _, _, h => by simp [Rfc.wtNodesArg] at h
    | .ctx _, _, _, h => by simp [Rfc.wtNodesArg] at h
    | .func _ _, _, _, h => by simp [Rfc.wtNodesArg] at h
    | .key, _, _, h => by simp [Rfc.wtNodesArg] at h
  termination_by e => sizeOf e

  theorem sel_main : ∀ (s : Sel), Rfc.wtSel s = true → ∀ n r, Represents n r →
      RepresentsAll (evalSel env n s) (Rfc.evalSel renv r s)
    | .filter e, h => by
      simp only [Rfc.wtSel] at h
      exact filter_sel_step e (fun v k => logical_main e v k h)
    | .keys, h => by simp [Rfc.wtSel] at h
    | .name k, _ => fun n r hr => sel_refines_rfc env renv n r _ rfl hr
    | .index i, _ => fun n r hr => sel_refines_rfc env renv n r _ rfl hr
    | .slice a b c, _ => fun n r hr => sel_refines_rfc env renv n r _ rfl hr
    | .wild, _ => fun n r hr => sel_refines_rfc env renv n r _ rfl hr
  termination_by s => sizeOf s

  theorem sels_main : ∀ (ss : List Sel), Rfc.wtSels ss = true → SelsOK env renv ss
    | [], _ => sels_nil_step
    | s :: ss, h => by
      simp only [Rfc.wtSels, Bool.and_eq_true] at h
      exact sels_cons_step s ss (sel_main s h.1) (sels_main ss h.2)
  termination_by ss => sizeOf ss

  theorem segs_main : ∀ (q : List Seg), Rfc.wtSegs q = true → SegsOK env renv q
    | [], _ => segs_nil_step
    | .child sels :: rest, h => by
      simp only [Rfc.wtSegs, Bool.and_eq_true] at h
      exact segs_child_step sels rest (sels_main sels h.1) (segs_main rest h.2)
    | .desc :: .child sels :: rest, h => by
      simp only [Rfc.wtSegs, Bool.and_eq_true] at h
      exact segs_desc_step sels rest (sels_main sels h.1) (segs_main rest h.2)
    | [.desc], h => by simp [Rfc.wtSegs] at h
    | .desc :: .desc :: _, h => by simp [Rfc.wtSegs] at h
  termination_by q => sizeOf q
end

end Main
end JP.Lemmas
