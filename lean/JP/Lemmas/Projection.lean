/-
  Helper lemmas for C19 (projection). Statements used by JP/Props/C19.lean.
-/
import JP.Projection
import JP.Lemmas.JInduct
namespace JP.Lemmas
open JP JP.Projection

/-! ## `fixJ`, `getT`/`setT` -/

theorem fixList_id (xs : List J) (h : ∀ x ∈ xs, fixJ x = x) : fixJ.fixList xs = xs := by
  induction xs with
  | nil => rfl
  | cons x xs ih =>
    rw [fixJ.fixList, h x (List.mem_cons_self), ih (fun y hy => h y (List.mem_cons_of_mem _ hy))]

theorem fixMembersJ_id (kvs : List (Str × J)) (h : ∀ kv ∈ kvs, fixJ kv.2 = kv.2) :
    fixJ.fixMembers kvs = kvs := by
  induction kvs with
  | nil => rfl
  | cons kv kvs ih =>
    obtain ⟨k, v⟩ := kv
    rw [fixJ.fixMembers, h (k, v) (List.mem_cons_self), ih (fun y hy => h y (List.mem_cons_of_mem _ hy))]

theorem fixJ_id (v : J) : fixJ v = v := by
  induction v using J.induct with
  | hnull => rfl
  | hbool => rfl
  | hint => rfl
  | hflt => rfl
  | hstr => rfl
  | harr xs ih =>
    rw [fixJ]; split
    · rfl
    · rw [fixList_id xs ih]
  | hobj kvs ih =>
    rw [fixJ]; split
    · rfl
    · rw [fixMembersJ_id kvs ih]

theorem getT_setT (kvs : List (Part × T)) (p q : Part) (t : T) :
    getT (setT kvs p t) q = if q = p then some t else getT kvs q := by
  induction kvs with
  | nil =>
    simp only [setT, getT]
    by_cases h : q = p
    · simp [h]
    · have : ¬ p = q := fun e => h e.symm
      simp [h, this]
  | cons kv kvs ih =>
    obtain ⟨r, u⟩ := kv
    simp only [setT]
    by_cases hrp : r = p
    · subst hrp
      simp only [if_true, getT]
      by_cases h : q = r
      · subst h; simp
      · have : ¬ r = q := fun e => h e.symm
        simp [h, this]
    · simp only [hrp, if_false, getT, ih]
      by_cases hrq : r = q
      · subst hrq; simp [hrp]
      · simp [hrq]

/-! ## `patch`, `patchAll` -/

theorem getT_setT_self (kvs : List (Part × T)) (p : Part) (t : T) :
    getT (setT kvs p t) p = some t := by rw [getT_setT]; simp

theorem getT_setT_ne (kvs : List (Part × T)) (p q : Part) (t : T) (h : q ≠ p) :
    getT (setT kvs p t) q = getT kvs q := by rw [getT_setT]; simp [h]

theorem getPath_nil_cons (q : Part) (qs : List Part) : getPath (.node []) (q :: qs) = none := by
  simp [getPath, getT]

theorem getPath_cons (kvs : List (Part × T)) (p : Part) (rest : List Part) :
    getPath (.node kvs) (p :: rest) = (getT kvs p).bind (getPath · rest) := by
  rw [getPath]

theorem getPath_leaf_cons (w : J) (p : Part) (rest : List Part) :
    getPath (.leaf w) (p :: rest) = none := by
  rw [getPath]

theorem getPath_append (t : T) (a b : List Part) :
    getPath t (a ++ b) = (getPath t a).bind (getPath · b) := by
  induction a generalizing t with
  | nil => simp [getPath]
  | cons p a ih =>
    cases t with
    | leaf w => simp [getPath_leaf_cons]
    | node kvs =>
      simp only [List.cons_append, getPath_cons]
      cases getT kvs p with
      | none => rfl
      | some t' => simp [ih]

theorem patch_get (ps : List Part) (kvs kvs' : List (Part × T)) (v : J) (h : patch ps kvs v = some kvs') :
    getPath (.node kvs') ps = some (.leaf v) := by
  induction ps, kvs, v using patch.induct generalizing kvs' with
  | case1 => simp [patch] at h
  | case2 p kvs v =>
    simp only [patch, Option.some.injEq] at h
    subst h
    simp [getT_setT_self, getPath]
  | case3 p q rest kvs v hg ih =>
    simp only [patch, hg, Option.map_eq_some_iff] at h
    obtain ⟨sub', hs, rfl⟩ := h
    rw [getPath_cons, getT_setT_self]
    exact ih sub' hs
  | case4 p q rest kvs v sub hg ih =>
    simp only [patch, hg, Option.map_eq_some_iff] at h
    obtain ⟨sub', hs, rfl⟩ := h
    rw [getPath_cons, getT_setT_self]
    exact ih sub' hs
  | case5 p q rest kvs v w hg =>
    simp [patch, hg] at h

/-- frame, both directions -/
theorem patch_frame_eq (ps qs : List Part) (kvs kvs' : List (Part × T)) (v : J)
    (h : patch ps kvs v = some kvs') (hd : ¬ ps <+: qs ∧ ¬ qs <+: ps) :
    getPath (.node kvs') qs = getPath (.node kvs) qs := by
  induction ps, kvs, v using patch.induct generalizing kvs' qs with
  | case1 => simp [patch] at h
  | case2 p kvs v =>
    simp only [patch, Option.some.injEq] at h
    subst h
    cases qs with
    | nil => exact absurd List.nil_prefix hd.2
    | cons q0 qs' =>
      have hne : q0 ≠ p := by
        intro e; subst e
        exact hd.1 (by simp [List.cons_prefix_cons])
      rw [getPath_cons, getPath_cons, getT_setT_ne _ _ _ _ hne]
  | case3 p q rest kvs v hg ih =>
    simp only [patch, hg, Option.map_eq_some_iff] at h
    obtain ⟨sub', hs, rfl⟩ := h
    cases qs with
    | nil => exact absurd List.nil_prefix hd.2
    | cons q0 qs' =>
      by_cases hne : q0 = p
      · subst hne
        rw [getPath_cons, getPath_cons, getT_setT_self, hg]
        simp only [List.cons_prefix_cons, true_and] at hd
        have := ih qs' sub' hs hd
        simp only [Option.bind_some, Option.bind_none]
        rw [this]
        cases qs' with
        | nil => exact absurd List.nil_prefix hd.2
        | cons a b => exact getPath_nil_cons a b
      · rw [getPath_cons, getPath_cons, getT_setT_ne _ _ _ _ hne]
  | case4 p q rest kvs v sub hg ih =>
    simp only [patch, hg, Option.map_eq_some_iff] at h
    obtain ⟨sub', hs, rfl⟩ := h
    cases qs with
    | nil => exact absurd List.nil_prefix hd.2
    | cons q0 qs' =>
      by_cases hne : q0 = p
      · subst hne
        rw [getPath_cons, getPath_cons, getT_setT_self, hg]
        simp only [List.cons_prefix_cons, true_and] at hd
        have := ih qs' sub' hs hd
        simp only [Option.bind_some]
        exact this
      · rw [getPath_cons, getPath_cons, getT_setT_ne _ _ _ _ hne]
  | case5 p q rest kvs v w hg =>
    simp [patch, hg] at h

theorem patch_frame (ps qs : List Part) (kvs kvs' : List (Part × T)) (v : J)
    (h : patch ps kvs v = some kvs') (hd : ¬ ps <+: qs ∧ ¬ qs <+: ps) (t : T) (hleaf : ∃ w, t = .leaf w)
    (hq : getPath (.node kvs) qs = some t) :
    getPath (.node kvs') qs = some t := by
  have _ := hleaf
  rw [patch_frame_eq ps qs kvs kvs' v h hd]; exact hq



theorem patch_leafpos (ps qs : List Part) (kvs kvs' : List (Part × T)) (v w : J)
    (h : patch ps kvs v = some kvs') (hq : getPath (.node kvs') qs = some (.leaf w)) :
    qs = ps ∨ getPath (.node kvs) qs = some (.leaf w) := by
  have hg := patch_get ps kvs kvs' v h
  by_cases h1 : ps <+: qs
  · obtain ⟨e, rfl⟩ := h1
    cases e with
    | nil => left; simp
    | cons a b =>
      rw [getPath_append, hg] at hq
      simp [getPath_leaf_cons] at hq
  · by_cases h2 : qs <+: ps
    · obtain ⟨e, rfl⟩ := h2
      cases e with
      | nil => left; simp
      | cons a b =>
        rw [getPath_append, hq] at hg
        simp [getPath_leaf_cons] at hg
    · right
      rw [← patch_frame_eq ps qs kvs kvs' v h ⟨h1, h2⟩]; exact hq

theorem patch_defined (ps : List Part) (kvs : List (Part × T)) (v : J) (hne : ps ≠ [])
    (hf : ∀ qs, qs <+: ps → qs ≠ ps → ∀ w, getPath (.node kvs) qs ≠ some (.leaf w)) :
    ∃ kvs', patch ps kvs v = some kvs' := by
  induction ps, kvs, v using patch.induct with
  | case1 => exact absurd rfl hne
  | case2 p kvs v => exact ⟨_, rfl⟩
  | case3 p q rest kvs v hg ih =>
    have : ∃ s, patch (q :: rest) [] v = some s := by
      apply ih (by simp)
      intro qs _ hne' w
      cases qs with
      | nil => simp [getPath]
      | cons a b => simp [getPath_nil_cons]
    obtain ⟨s, hs⟩ := this
    exact ⟨setT kvs p (.node s), by simp [patch, hg, hs]⟩
  | case4 p q rest kvs v sub hg ih =>
    have : ∃ s, patch (q :: rest) sub v = some s := by
      apply ih (by simp)
      intro qs hpre hne' w hq
      apply hf (p :: qs) (by simp [List.cons_prefix_cons, hpre]) (by simpa using hne') w
      rw [getPath_cons, hg]; exact hq
    obtain ⟨s, hs⟩ := this
    exact ⟨setT kvs p (.node s), by simp [patch, hg, hs]⟩
  | case5 p q rest kvs v w hg =>
    exfalso
    apply hf [p] (by simp [List.cons_prefix_cons]) (by simp) w
    simp [hg, getPath]

/-! ### invariants along `patchAll` -/

def LeafDisj (kvs : List (Part × T)) (sels : List (List Part × J)) : Prop :=
  ∀ qs w, getPath (.node kvs) qs = some (.leaf w) → ∀ s ∈ sels, ¬ qs <+: s.1 ∧ ¬ s.1 <+: qs

def Full (kvs : List (Part × T)) : Prop :=
  ∀ qs t, qs ≠ [] → getPath (.node kvs) qs = some t →
    ∃ e w, getPath (.node kvs) (qs ++ e) = some (.leaf w)

theorem leafDisj_nil (sels : List (List Part × J)) : LeafDisj [] sels := by
  intro qs w h
  cases qs with
  | nil => simp [getPath] at h
  | cons a b => simp [getPath_nil_cons] at h

theorem full_nil : Full [] := by
  intro qs t hne h
  cases qs with
  | nil => exact absurd rfl hne
  | cons a b => simp [getPath_nil_cons] at h

theorem disjoint_cons {ps : List Part} {v : J} {rest : List (List Part × J)}
    (hd : Disjoint (((ps, v) :: rest).map (·.1))) :
    (∀ s ∈ rest, ¬ ps <+: s.1 ∧ ¬ s.1 <+: ps) ∧ Disjoint (rest.map (·.1)) := by
  simp only [Disjoint, List.map_cons, List.pairwise_cons] at hd
  refine ⟨?_, hd.2⟩
  intro s hs
  exact hd.1 s.1 (List.mem_map_of_mem hs)

theorem leafDisj_step {ps : List Part} {v : J} {rest : List (List Part × J)} {kvs k1 : List (Part × T)}
    (hd : ∀ s ∈ rest, ¬ ps <+: s.1 ∧ ¬ s.1 <+: ps)
    (hl : LeafDisj kvs ((ps, v) :: rest)) (hp : patch ps kvs v = some k1) : LeafDisj k1 rest := by
  intro qs w hq s hs
  rcases patch_leafpos ps qs kvs k1 v w hp hq with rfl | hold
  · exact hd s hs
  · exact hl qs w hold s (List.mem_cons_of_mem _ hs)

theorem patchAll_frame (sels : List (List Part × J)) (kvs kvs' : List (Part × T)) (qs : List Part)
    (hd : ∀ s ∈ sels, ¬ s.1 <+: qs ∧ ¬ qs <+: s.1)
    (h : patchAll sels kvs = some kvs') :
    getPath (.node kvs') qs = getPath (.node kvs) qs := by
  induction sels generalizing kvs with
  | nil => simp [patchAll] at h; subst h; rfl
  | cons s rest ih =>
    obtain ⟨ps, v⟩ := s
    simp only [patchAll, Option.bind_eq_some_iff] at h
    obtain ⟨k1, hp, hr⟩ := h
    rw [ih k1 (fun s hs => hd s (List.mem_cons_of_mem _ hs)) hr]
    exact patch_frame_eq ps qs kvs k1 v hp (hd (ps, v) List.mem_cons_self)

theorem patchAll_present (sels : List (List Part × J)) (kvs : List (Part × T))
    (hd : Disjoint (sels.map (·.1))) (kvs' : List (Part × T)) (h : patchAll sels kvs = some kvs') :
    ∀ s ∈ sels, getPath (.node kvs') s.1 = some (.leaf s.2) := by
  induction sels generalizing kvs with
  | nil => intro s hs; cases hs
  | cons s0 rest ih =>
    obtain ⟨ps, v⟩ := s0
    simp only [patchAll, Option.bind_eq_some_iff] at h
    obtain ⟨k1, hp, hr⟩ := h
    obtain ⟨hd1, hd2⟩ := disjoint_cons hd
    intro s hs
    rcases List.mem_cons.1 hs with rfl | hs
    · rw [patchAll_frame rest k1 kvs' ps (fun s hs => ⟨(hd1 s hs).2, (hd1 s hs).1⟩) hr]
      exact patch_get ps kvs k1 v hp
    · exact ih k1 hd2 hr s hs

theorem patchAll_defined_gen (sels : List (List Part × J)) (kvs : List (Part × T))
    (hne : ∀ s ∈ sels, s.1 ≠ []) (hd : Disjoint (sels.map (·.1))) (hl : LeafDisj kvs sels) :
    ∃ kvs', patchAll sels kvs = some kvs' := by
  induction sels generalizing kvs with
  | nil => exact ⟨kvs, rfl⟩
  | cons s0 rest ih =>
    obtain ⟨ps, v⟩ := s0
    obtain ⟨hd1, hd2⟩ := disjoint_cons hd
    obtain ⟨k1, hp⟩ := patch_defined ps kvs v (hne (ps, v) List.mem_cons_self)
      (fun qs hpre _ w hq => (hl qs w hq (ps, v) List.mem_cons_self).1 hpre)
    obtain ⟨k2, h2⟩ := ih k1 (fun s hs => hne s (List.mem_cons_of_mem _ hs)) hd2
      (leafDisj_step hd1 hl hp)
    exact ⟨k2, by simp [patchAll, hp, h2]⟩

theorem patchAll_disjoint_defined (sels : List (List Part × J))
    (hne : ∀ s ∈ sels, s.1 ≠ []) (hd : Disjoint (sels.map (·.1))) :
    ∃ kvs', patchAll sels [] = some kvs' :=
  patchAll_defined_gen sels [] hne hd (leafDisj_nil sels)



theorem leaves_node (kvs : List (Part × T)) : leaves (.node kvs) = leaves.leavesL kvs := by
  rw [leaves]

theorem leavesL_append (a b : List (Part × T)) :
    leaves.leavesL (a ++ b) = leaves.leavesL a ++ leaves.leavesL b := by
  induction a with
  | nil => simp [leaves.leavesL]
  | cons kv a ih => obtain ⟨k, t⟩ := kv; simp [leaves.leavesL, ih]

theorem setT_absent (kvs : List (Part × T)) (p : Part) (t : T) (h : getT kvs p = none) :
    setT kvs p t = kvs ++ [(p, t)] := by
  induction kvs with
  | nil => rfl
  | cons kv kvs ih =>
    obtain ⟨q, u⟩ := kv
    simp only [getT] at h
    by_cases hq : q = p
    · simp [hq] at h
    · simp only [hq, if_false] at h
      simp [setT, hq, ih h]

theorem leavesL_setT_absent (kvs : List (Part × T)) (p : Part) (t : T) (h : getT kvs p = none) :
    leaves.leavesL (setT kvs p t) = leaves.leavesL kvs ++ leaves t := by
  rw [setT_absent kvs p t h, leavesL_append]; simp [leaves.leavesL]

theorem leavesL_setT_present (kvs : List (Part × T)) (p : Part) (t0 t : T) (v : J)
    (h : getT kvs p = some t0) (hp : (leaves t).Perm (leaves t0 ++ [v])) :
    (leaves.leavesL (setT kvs p t)).Perm (leaves.leavesL kvs ++ [v]) := by
  induction kvs with
  | nil => simp [getT] at h
  | cons kv kvs ih =>
    obtain ⟨q, u⟩ := kv
    simp only [getT] at h
    by_cases hq : q = p
    · simp only [hq, if_true, Option.some.injEq] at h
      subst h
      simp only [setT, hq, if_true, leaves.leavesL]
      -- leaves t ++ L ~ (leaves u ++ L) ++ [v]
      refine (List.Perm.append_right _ hp).trans ?_
      simp only [List.append_assoc]
      exact List.Perm.append_left _ List.perm_append_comm
    · simp only [hq, if_false] at h
      simp only [setT, hq, if_false, leaves.leavesL, List.append_assoc]
      exact List.Perm.append_left _ (ih h)

theorem patch_leaves_fresh (ps : List Part) (kvs kvs' : List (Part × T)) (v : J)
    (h : patch ps kvs v = some kvs')
    (hfresh : ∀ qs, qs <+: ps → ∀ w, getPath (.node kvs) qs ≠ some (.leaf w))
    (hnone : getPath (.node kvs) ps = none) :
    (leaves (.node kvs')).Perm (leaves (.node kvs) ++ [v]) := by
  induction ps, kvs, v using patch.induct generalizing kvs' with
  | case1 => simp [patch] at h
  | case2 p kvs v =>
    simp only [patch, Option.some.injEq] at h
    subst h
    have hg : getT kvs p = none := by
      cases hgp : getT kvs p with
      | none => rfl
      | some t => simp [hgp, getPath] at hnone
    rw [leaves_node, leaves_node, leavesL_setT_absent _ _ _ hg]
    simp [leaves]
  | case3 p q rest kvs v hg ih =>
    simp only [patch, hg, Option.map_eq_some_iff] at h
    obtain ⟨sub', hs, rfl⟩ := h
    have := ih sub' hs (by
      intro qs _ w
      cases qs with
      | nil => simp [getPath]
      | cons a b => simp [getPath_nil_cons]) (getPath_nil_cons q rest)
    rw [leaves_node, leaves_node, leavesL_setT_absent _ _ _ hg]
    refine List.Perm.append_left _ ?_
    simpa [leaves_node, leaves.leavesL] using this
  | case4 p q rest kvs v sub hg ih =>
    simp only [patch, hg, Option.map_eq_some_iff] at h
    obtain ⟨sub', hs, rfl⟩ := h
    have := ih sub' hs (by
      intro qs hpre w hq
      apply hfresh (p :: qs) (by simp [List.cons_prefix_cons, hpre]) w
      rw [getPath_cons, hg]; exact hq) (by
      rw [getPath_cons, hg] at hnone; exact hnone)
    rw [leaves_node, leaves_node]
    exact leavesL_setT_present kvs p (.node sub) (.node sub') v hg this
  | case5 p q rest kvs v w hg =>
    simp [patch, hg] at h

theorem incomparable_append {ps qs e : List Part} (h1 : ¬ ps <+: qs) (h2 : ¬ qs <+: ps) :
    ¬ ps <+: qs ++ e ∧ ¬ qs ++ e <+: ps := by
  constructor
  · intro h
    rcases List.prefix_or_prefix_of_prefix h (List.prefix_append qs e) with h | h
    · exact h1 h
    · exact h2 h
  · intro h
    exact h2 ((List.prefix_append qs e).trans h)

theorem full_step {ps : List Part} {v : J} {kvs k1 : List (Part × T)}
    (hf : Full kvs) (hp : patch ps kvs v = some k1) : Full k1 := by
  intro qs t hne hq
  have hg := patch_get ps kvs k1 v hp
  by_cases h2 : qs <+: ps
  · obtain ⟨e, rfl⟩ := h2
    exact ⟨e, v, hg⟩
  · by_cases h1 : ps <+: qs
    · obtain ⟨e, rfl⟩ := h1
      cases e with
      | nil => exact absurd (by simp) h2
      | cons a b =>
        rw [getPath_append, hg] at hq
        simp [getPath_leaf_cons] at hq
    · rw [patch_frame_eq ps qs kvs k1 v hp ⟨h1, h2⟩] at hq
      obtain ⟨e, w, he⟩ := hf qs t hne hq
      refine ⟨e, w, ?_⟩
      rw [patch_frame_eq ps (qs ++ e) kvs k1 v hp (incomparable_append h1 h2)]
      exact he

theorem patchAll_leaves_gen (sels : List (List Part × J)) (kvs : List (Part × T))
    (hne : ∀ s ∈ sels, s.1 ≠ []) (hd : Disjoint (sels.map (·.1))) (hl : LeafDisj kvs sels)
    (hf : Full kvs) (kvs' : List (Part × T)) (h : patchAll sels kvs = some kvs') :
    (leaves (.node kvs')).Perm (leaves (.node kvs) ++ sels.map (·.2)) := by
  induction sels generalizing kvs with
  | nil => simp [patchAll] at h; subst h; simp
  | cons s0 rest ih =>
    obtain ⟨ps, v⟩ := s0
    obtain ⟨hd1, hd2⟩ := disjoint_cons hd
    simp only [patchAll, Option.bind_eq_some_iff] at h
    obtain ⟨k1, hp, hr⟩ := h
    have hps : ps ≠ [] := hne (ps, v) List.mem_cons_self
    have hnone : getPath (.node kvs) ps = none := by
      cases hgp : getPath (.node kvs) ps with
      | none => rfl
      | some t =>
        obtain ⟨e, w, he⟩ := hf ps t hps hgp
        exact absurd (List.prefix_append ps e) (hl _ w he (ps, v) List.mem_cons_self).2
    have h1 := patch_leaves_fresh ps kvs k1 v hp
      (fun qs hpre w hq => (hl qs w hq (ps, v) List.mem_cons_self).1 hpre) hnone
    have h2 := ih k1 (fun s hs => hne s (List.mem_cons_of_mem _ hs)) hd2
      (leafDisj_step hd1 hl hp) (full_step hf hp) hr
    refine h2.trans ?_
    simp only [List.map_cons]
    have := List.Perm.append_right (List.map (·.2) rest) h1
    simpa [List.append_assoc] using this

theorem patchAll_leaves (sels : List (List Part × J))
    (hne : ∀ s ∈ sels, s.1 ≠ []) (hd : Disjoint (sels.map (·.1))) (kvs' : List (Part × T))
    (h : patchAll sels [] = some kvs') :
    (leaves (.node kvs')).Perm (sels.map (·.2)) := by
  have := patchAll_leaves_gen sels [] hne hd (leafDisj_nil sels) full_nil kvs' h
  simpa [leaves_node, leaves.leavesL] using this

/-! ## compaction -/

theorem fix_node_vals (i : Int) (t0 : T) (rest : List (Part × T)) :
    fix (.node ((.idx i, t0) :: rest)) = .arr (fix.fixVals ((.idx i, t0) :: rest)) := by
  rw [fix, fix.fixVals]

theorem fix_node_members (k : Str) (t0 : T) (rest : List (Part × T)) :
    fix (.node ((.key k, t0) :: rest)) = .obj (fix.fixMembers ((.key k, t0) :: rest)) := by
  rw [fix, fix.fixMembers]

theorem fixVals_getElem (kvs : List (Part × T)) (p : Part) (n : Nat) (t' : T)
    (hg : getT kvs p = some t') (hk : keyPos kvs p = some n) :
    (fix.fixVals kvs)[n]? = some (fix t') := by
  induction kvs generalizing n with
  | nil => simp [getT] at hg
  | cons kv kvs ih =>
    obtain ⟨q, u⟩ := kv
    simp only [getT, keyPos] at hg hk
    by_cases hq : q = p
    · simp only [hq, if_true, Option.some.injEq] at hg hk
      subst hg; subst hk
      simp [fix.fixVals]
    · simp only [hq, if_false, Option.map_eq_some_iff] at hg hk
      obtain ⟨m, hm, rfl⟩ := hk
      simp [fix.fixVals, ih m hg hm]

theorem fixMembers_dictGet (kvs : List (Part × T)) (b : Str) (t' : T)
    (hall : ∀ kv ∈ kvs, ∃ a, kv.1 = Part.key a)
    (hg : getT kvs (.key b) = some t') :
    dictGet (fix.fixMembers kvs) b = some (fix t') := by
  induction kvs with
  | nil => simp [getT] at hg
  | cons kv kvs ih =>
    obtain ⟨q, u⟩ := kv
    obtain ⟨a, ha⟩ := hall (q, u) List.mem_cons_self
    simp only at ha
    subst ha
    simp only [getT] at hg
    by_cases hq : Part.key a = Part.key b
    · simp only [hq, if_true, Option.some.injEq] at hg
      subst hg
      have : a = b := by injection hq
      simp [fix.fixMembers, dictGet, Pointer.partStr, this]
    · simp only [hq, if_false] at hg
      have : a ≠ b := fun e => hq (by rw [e])
      simp [fix.fixMembers, dictGet, Pointer.partStr, this,
        ih (fun kv hkv => hall kv (List.mem_cons_of_mem _ hkv)) hg]

theorem getT_mem (kvs : List (Part × T)) (p : Part) (t : T) (h : getT kvs p = some t) :
    (p, t) ∈ kvs := by
  induction kvs with
  | nil => simp [getT] at h
  | cons kv kvs ih =>
    obtain ⟨q, u⟩ := kv
    simp only [getT] at h
    by_cases hq : q = p
    · simp only [hq, if_true, Option.some.injEq] at h
      subst h; subst hq; exact List.mem_cons_self
    · simp only [hq, if_false] at h
      exact List.mem_cons_of_mem _ (ih h)

theorem homL_mem (kvs : List (Part × T)) (h : homogeneous.homL kvs = true) :
    ∀ kv ∈ kvs, homogeneous kv.2 = true := by
  induction kvs with
  | nil => intro kv hkv; cases hkv
  | cons kv kvs ih =>
    obtain ⟨q, u⟩ := kv
    simp only [homogeneous.homL, Bool.and_eq_true] at h
    intro kv hkv
    rcases List.mem_cons.1 hkv with rfl | hkv
    · exact h.1
    · exact ih h.2 kv hkv

theorem fix_lookup_rank (t : T) (ps rs : List Part) (u : T) (hh : homogeneous t = true)
    (hp : getPath t ps = some u) (hr : rankPath t ps = some rs) :
    lookupJ (fix t) rs = some (fix u) := by
  induction ps generalizing t rs u with
  | nil =>
    simp only [getPath, Option.some.injEq] at hp
    simp only [rankPath, Option.some.injEq] at hr
    subst hp; subst hr
    simp [lookupJ]
  | cons p rest ih =>
    cases t with
    | leaf w => simp [getPath] at hp
    | node kvs =>
      rw [getPath] at hp
      rw [rankPath] at hr
      cases hg : getT kvs p with
      | none => simp [hg] at hp
      | some t' =>
        cases hk : keyPos kvs p with
        | none => simp [hg, hk] at hr
        | some n =>
          simp only [hg, hk, Option.bind_some, Option.map_eq_some_iff] at hp hr
          obtain ⟨r, hr', rfl⟩ := hr
          rw [homogeneous, Bool.and_eq_true, Bool.or_eq_true] at hh
          obtain ⟨hkind, hL⟩ := hh
          have hmem := getT_mem kvs p t' hg
          have ht' : homogeneous t' = true := homL_mem kvs hL (p, t') hmem
          have IH := ih t' r u ht' hp hr'
          cases kvs with
          | nil => cases hmem
          | cons kv0 kr =>
            obtain ⟨p0, t0⟩ := kv0
            cases p0 with
            | idx i =>
              rw [fix_node_vals]
              simp only []
              rw [lookupJ]
              simp [fixVals_getElem _ p n t' hg hk, IH]
            | key k =>
              rw [fix_node_members]
              have hall : ∀ kv ∈ ((Part.key k, t0) :: kr), ∃ a, kv.1 = Part.key a := by
                rcases hkind with hk1 | hk1
                · simp at hk1
                · intro kv hkv
                  have := List.all_eq_true.1 hk1 kv hkv
                  cases hkv1 : kv.1 with
                  | idx j => simp [hkv1] at this
                  | key a => exact ⟨a, rfl⟩
              obtain ⟨b, hb⟩ := hall (p, t') hmem
              simp only at hb
              subst hb
              simp only []
              rw [Pointer.partStr, lookupJ]
              simp [fixMembers_dictGet _ b t' hall hg, IH]

/-! ## `select` -/

theorem flat_spec (mparts : List Part) (mval : J) (sels : List (List Part × J))
    (hc : mval.isContainer = true) (hne : sels ≠ []) :
    select .flat mparts mval sels = some (some (.arr (sels.map (·.2)))) := by
  cases sels with
  | nil => exact absurd rfl hne
  | cons s rest => simp [select, hc, truthyJ]

theorem empty_no_projection (style : Style) (mparts : List Part) (mval : J) :
    select style mparts mval [] = none := by
  cases style <;> simp [select, patchAllO, fix, truthyJ]

theorem noncontainer_no_projection (style : Style) (mparts : List Part) (mval : J) (sels : List (List Part × J))
    (hc : mval.isContainer = false) : select style mparts mval sels = none := by
  simp [select, hc]

theorem root_is_relative_from_root (mparts : List Part) (mval : J) (sels : List (List Part × J))
    (hc : mval.isContainer = true) :
    select .root mparts mval sels = select .relative [] mval (sels.map (fun s => (mparts ++ s.1, s.2))) := by
  simp only [select, hc]

end JP.Lemmas
