/-
  Helper lemmas for C19 (projection). Statements used by JP/Props/C19.lean.
-/
import JP.Projection
namespace JP.Lemmas
open JP JP.Projection

theorem fixJ_id (v : J) : fixJ v = v := by
  sorry

theorem getT_setT (kvs : List (Part × T)) (p q : Part) (t : T) :
    getT (setT kvs p t) q = if q = p then some t else getT kvs q := by
  sorry

theorem patch_get (ps : List Part) (kvs kvs' : List (Part × T)) (v : J) (h : patch ps kvs v = some kvs') :
    getPath (.node kvs') ps = some (.leaf v) := by
  sorry

theorem patch_frame (ps qs : List Part) (kvs kvs' : List (Part × T)) (v : J)
    (h : patch ps kvs v = some kvs') (hd : ¬ ps <+: qs ∧ ¬ qs <+: ps) (t : T) (hleaf : ∃ w, t = .leaf w)
    (hq : getPath (.node kvs) qs = some t) :
    getPath (.node kvs') qs = some t := by
  sorry

theorem patch_leaves_fresh (ps : List Part) (kvs kvs' : List (Part × T)) (v : J)
    (h : patch ps kvs v = some kvs')
    (hfresh : ∀ qs, qs <+: ps → ∀ w, getPath (.node kvs) qs ≠ some (.leaf w))
    (hnone : getPath (.node kvs) ps = none) :
    (leaves (.node kvs')).Perm (leaves (.node kvs) ++ [v]) := by
  sorry

theorem patchAll_present (sels : List (List Part × J)) (kvs : List (Part × T))
    (hd : Disjoint (sels.map (·.1))) (kvs' : List (Part × T)) (h : patchAll sels kvs = some kvs') :
    ∀ s ∈ sels, getPath (.node kvs') s.1 = some (.leaf s.2) := by
  sorry

theorem patchAll_disjoint_defined (sels : List (List Part × J))
    (hne : ∀ s ∈ sels, s.1 ≠ []) (hd : Disjoint (sels.map (·.1))) :
    ∃ kvs', patchAll sels [] = some kvs' := by
  sorry

theorem patchAll_leaves (sels : List (List Part × J))
    (hne : ∀ s ∈ sels, s.1 ≠ []) (hd : Disjoint (sels.map (·.1))) (kvs' : List (Part × T))
    (h : patchAll sels [] = some kvs') :
    (leaves (.node kvs')).Perm (sels.map (·.2)) := by
  sorry

theorem fix_lookup_rank (t : T) (ps rs : List Part) (u : T) (hh : homogeneous t = true)
    (hp : getPath t ps = some u) (hr : rankPath t ps = some rs) :
    lookupJ (fix t) rs = some (fix u) := by
  sorry

theorem flat_spec (mparts : List Part) (mval : J) (sels : List (List Part × J))
    (hc : mval.isContainer = true) (hne : sels ≠ []) :
    select .flat mparts mval sels = some (some (.arr (sels.map (·.2)))) := by
  sorry

theorem empty_no_projection (style : Style) (mparts : List Part) (mval : J) :
    select style mparts mval [] = none := by
  sorry

theorem noncontainer_no_projection (style : Style) (mparts : List Part) (mval : J) (sels : List (List Part × J))
    (hc : mval.isContainer = false) : select style mparts mval sels = none := by
  sorry

theorem root_is_relative_from_root (mparts : List Part) (mval : J) (sels : List (List Part × J))
    (hc : mval.isContainer = true) :
    select .root mparts mval sels = select .relative [] mval (sels.map (fun s => (mparts ++ s.1, s.2))) := by
  sorry

end JP.Lemmas
