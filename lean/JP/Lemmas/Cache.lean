/-
  Helper lemmas for C09 (purity, caching, interleaving). Statements used by JP/Props/C09.lean.
-/
import JP.Cache
namespace JP.Lemmas
open JP JP.Query JP.Cache

/-- the sub-expression at a position (positions as `evalInner` assigns them to children) -/
def subAt : Expr → Pos → Option Expr
  | e, [] => some e
  | .list items, i :: p => (items[i]?).bind (subAt · p)
  | .not e, 0 :: p => subAt e p
  | .infix l _ _, 0 :: p => subAt l p
  | .infix _ _ r, 1 :: p => subAt r p
  | .func _ args, i :: p => (args[i]?).bind (subAt · p)
  | _, _ => none

/-- Every filled cell holds the plain value of the (non-volatile) sub-expression at its position,
    whatever the candidate. -/
def CellsOK (env : Env) (E : Expr) (cs : Cells) : Prop :=
  ∀ p v, lookupCell cs p = some v →
    ∃ e, subAt E p = some e ∧ volatile e = false ∧ ∀ cur key, evalExpr env cur key e = v

theorem nonvolatile_ctx_independent (env : Env) (e : Expr) (h : volatile e = false)
    (c1 c2 : J) (k1 k2 : Option Part) :
    evalExpr env c1 k1 e = evalExpr env c2 k2 e := by
  sorry

theorem evalC_transparent (env : Env) (E e : Expr) (p : Pos) (cs : Cells) (cur : J) (key : Option Part)
    (hsub : subAt E p = some e) (hok : CellsOK env E cs) :
    (evalC env cur key e p cs).1 = evalExpr env cur key e ∧ CellsOK env E (evalC env cur key e p cs).2 := by
  sorry

theorem cache_transparent (env : Env) (e : Expr) (cands : List (J × Option Part)) :
    resolveCached env e cands = resolvePlain env e cands := by
  sorry

theorem interleave_independent {α : Type} (sched : List Nat) (gens : List (List α)) (i : Nat) :
    (((interleave sched gens).1.filter (fun t => t.1 == i)).map (·.2)) ++ ((interleave sched gens).2[i]?.getD [])
      = gens[i]?.getD [] := by
  sorry

theorem interleave_length {α : Type} (sched : List Nat) (gens : List (List α)) :
    (interleave sched gens).2.length = gens.length := by
  sorry

end JP.Lemmas
