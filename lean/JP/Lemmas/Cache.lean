/-
  Helper lemmas for C09 (purity, caching, interleaving). Statements used by JP/Props/C09.lean.
-/
import JP.Cache
namespace JP.Lemmas
open JP JP.Query JP.Cache

/-- the sub-expression at a position (positions as `evalInner` assigns them to children) -/
def subAt : Expr → Pos → Option Expr
  | e, [] => some e
  | .list items, i :: p => (items[i]?).bind (subAt · p)
  | .not e, 0 :: p => subAt e p
  | .infix l _ _, 0 :: p => subAt l p
  | .infix _ _ r, 1 :: p => subAt r p
  | .func _ args, i :: p => (args[i]?).bind (subAt · p)
  | _, _ => none

/-- Every filled cell holds the plain value of the (non-volatile) sub-expression at its position,
    whatever the candidate. -/
def CellsOK (env : Env) (E : Expr) (cs : Cells) : Prop :=
  ∀ p v, lookupCell cs p = some v →
    ∃ e, subAt E p = some e ∧ volatile e = false ∧ ∀ cur key, evalExpr env cur key e = v

/-! ### Soundness of the volatility analysis -/

mutual
theorem nv_expr (env : Env) (c1 c2 : J) (k1 k2 : Option Part) :
    (e : Expr) → volatile e = false → evalExpr env c1 k1 e = evalExpr env c2 k2 e
  | .nil, _ | .undefined, _ | .bool _, _ | .int _, _ | .flt _, _ | .str _, _ | .regex _ _, _ => by
    simp only [evalExpr]
  | .self _, h | .key, h => by simp [volatile] at h
  | .root _ _, _ | .ctx _, _ => by simp only [evalExpr]
  | .list items, h => by
    simp only [volatile] at h
    simp only [evalExpr]
    rw [nv_lits env c1 c2 k1 k2 items h]
  | .not e, h => by
    simp only [volatile] at h
    simp only [evalExpr]
    rw [nv_expr env c1 c2 k1 k2 e h]
  | .infix l op r, h => by
    simp only [volatile, Bool.or_eq_false_iff] at h
    simp only [evalExpr]
    rw [nv_expr env c1 c2 k1 k2 l h.1, nv_expr env c1 c2 k1 k2 r h.2]
  | .func name args, h => by
    simp only [volatile] at h
    simp only [evalExpr]
    rw [nv_args env c1 c2 k1 k2 args h]
theorem nv_lits (env : Env) (c1 c2 : J) (k1 k2 : Option Part) :
    (es : List Expr) → anyVolatile es = false → evalLits env c1 k1 es = evalLits env c2 k2 es
  | [], _ => by simp only [evalLits]
  | e :: es, h => by
    simp only [anyVolatile, Bool.or_eq_false_iff] at h
    simp only [evalLits]
    rw [nv_expr env c1 c2 k1 k2 e h.1, nv_lits env c1 c2 k1 k2 es h.2]
theorem nv_args (env : Env) (c1 c2 : J) (k1 k2 : Option Part) :
    (es : List Expr) → anyVolatile es = false → evalArgs env c1 k1 es = evalArgs env c2 k2 es
  | [], _ => by simp only [evalArgs]
  | e :: es, h => by
    simp only [anyVolatile, Bool.or_eq_false_iff] at h
    simp only [evalArgs]
    rw [nv_expr env c1 c2 k1 k2 e h.1, nv_args env c1 c2 k1 k2 es h.2]
end

theorem nonvolatile_ctx_independent (env : Env) (e : Expr) (h : volatile e = false)
    (c1 c2 : J) (k1 k2 : Option Part) :
    evalExpr env c1 k1 e = evalExpr env c2 k2 e :=
  nv_expr env c1 c2 k1 k2 e h

/-! ### `evalExpr` in terms of the combination functions of `JP.Cache` -/

theorem evalExpr_infix (env : Env) (cur : J) (key : Option Part) (l r : Expr) (op : CmpOp) :
    evalExpr env cur key (.infix l op r)
      = combineInfix env op (evalExpr env cur key l) (evalExpr env cur key r) := by
  simp only [evalExpr, combineInfix]
  rfl

theorem evalExpr_func (env : Env) (cur : J) (key : Option Part) (name : Str) (args : List Expr) :
    evalExpr env cur key (.func name args) = combineFunc env name (evalArgs env cur key args) := by
  simp only [evalExpr, combineFunc]

theorem evalLits_eq_map (env : Env) (cur : J) (key : Option Part) (es : List Expr) :
    evalLits env cur key es = (evalArgs env cur key es).map litOf := by
  induction es with
  | nil => simp only [evalLits, evalArgs, List.map_nil]
  | cons e es ih =>
    simp only [evalLits, evalArgs, List.map_cons, ih]
    congr 1

theorem evalExpr_list (env : Env) (cur : J) (key : Option Part) (items : List Expr) :
    evalExpr env cur key (.list items) = .val (.arr ((evalArgs env cur key items).map litOf)) := by
  simp only [evalExpr, evalLits_eq_map]

theorem evalExpr_not (env : Env) (cur : J) (key : Option Part) (e : Expr) :
    evalExpr env cur key (.not e) = .val (.bool (!isTruthy (evalExpr env cur key e))) := by
  simp only [evalExpr]

/-! ### Positions -/

theorem subAt_nil (E : Expr) : subAt E [] = some E := by
  cases E <;> simp only [subAt]

theorem subAt_append (E e : Expr) (p q : Pos) (h : subAt E p = some e) :
    subAt E (p ++ q) = subAt e q := by
  induction p generalizing E with
  | nil =>
    rw [subAt_nil] at h
    cases h; rfl
  | cons i p ih =>
    cases E with
    | list items =>
      simp only [List.cons_append, subAt] at h ⊢
      cases hi : items[i]? with
      | none => rw [hi] at h; cases h
      | some x =>
        rw [hi] at h
        simp only [Option.bind_some] at h ⊢
        exact ih x h
    | func name args =>
      simp only [List.cons_append, subAt] at h ⊢
      cases hi : args[i]? with
      | none => rw [hi] at h; cases h
      | some x =>
        rw [hi] at h
        simp only [Option.bind_some] at h ⊢
        exact ih x h
    | not e' =>
      cases i with
      | zero => simp only [List.cons_append, subAt] at h ⊢; exact ih e' h
      | succ n => simp only [subAt] at h; cases h
    | «infix» l op r =>
      match i with
      | 0 => simp only [List.cons_append, subAt] at h ⊢; exact ih l h
      | 1 => simp only [List.cons_append, subAt] at h ⊢; exact ih r h
      | n + 2 => simp only [subAt] at h; cases h
    | _ => simp only [subAt] at h; cases h

theorem subAt_snoc_not {E e : Expr} {p : Pos} (h : subAt E p = some (.not e)) :
    subAt E (p ++ [0]) = some e := by
  rw [subAt_append E _ p [0] h]; simp only [subAt]
theorem subAt_snoc_infix_l {E l r : Expr} {op : CmpOp} {p : Pos} (h : subAt E p = some (.infix l op r)) :
    subAt E (p ++ [0]) = some l := by
  rw [subAt_append E _ p [0] h]; simp only [subAt]
theorem subAt_snoc_infix_r {E l r : Expr} {op : CmpOp} {p : Pos} (h : subAt E p = some (.infix l op r)) :
    subAt E (p ++ [1]) = some r := by
  rw [subAt_append E _ p [1] h]; simp only [subAt]
theorem subAt_snoc_list {E : Expr} {items : List Expr} {p : Pos} (h : subAt E p = some (.list items))
    (i : Nat) (hi : i < items.length) : subAt E (p ++ [i]) = some items[i] := by
  rw [subAt_append E _ p [i] h]; simp only [subAt, List.getElem?_eq_getElem hi, Option.bind_some]
theorem subAt_snoc_func {E : Expr} {name : Str} {args : List Expr} {p : Pos} (h : subAt E p = some (.func name args))
    (i : Nat) (hi : i < args.length) : subAt E (p ++ [i]) = some args[i] := by
  rw [subAt_append E _ p [i] h]; simp only [subAt, List.getElem?_eq_getElem hi, Option.bind_some]

/-! ### The cache invariant -/

theorem cached_nonvolatile {e : Expr} (h : cached e = true) : volatile e = false := by
  simp only [cached, Bool.and_eq_true, Bool.not_eq_true'] at h
  exact h.1

theorem cellsOK_nil (env : Env) (E : Expr) : CellsOK env E [] := by
  intro p v h
  simp only [lookupCell] at h
  cases h

/-- `evalC` is transparent at `e` as soon as `evalInner` is. -/
theorem evalC_of_inner (env : Env) (E e : Expr) (p : Pos) (cs : Cells) (cur : J) (key : Option Part)
    (hsub : subAt E p = some e) (hok : CellsOK env E cs)
    (hI : (evalInner env cur key e p cs).1 = evalExpr env cur key e ∧
          CellsOK env E (evalInner env cur key e p cs).2) :
    (evalC env cur key e p cs).1 = evalExpr env cur key e ∧ CellsOK env E (evalC env cur key e p cs).2 := by
  rw [evalC]
  by_cases hc : cached e = true
  · rw [if_pos hc]
    cases hl : lookupCell cs p with
    | some v =>
      simp only []
      obtain ⟨e', he', _, hv⟩ := hok p v hl
      rw [hsub] at he'
      cases he'
      exact ⟨(hv cur key).symm, hok⟩
    | none =>
      simp only []
      refine ⟨hI.1, ?_⟩
      intro q w hq
      simp only [lookupCell] at hq
      by_cases hpq : p = q
      · rw [if_pos hpq] at hq
        cases hq
        subst hpq
        refine ⟨e, hsub, cached_nonvolatile hc, ?_⟩
        intro cur' key'
        rw [hI.1]
        exact nonvolatile_ctx_independent env e (cached_nonvolatile hc) cur' cur key' key
      · rw [if_neg hpq] at hq
        exact hI.2 q w hq
  · rw [if_neg hc]
    exact hI

mutual
theorem evalInner_ok (env : Env) (E : Expr) (cur : J) (key : Option Part) :
    (e : Expr) → (p : Pos) → (cs : Cells) → subAt E p = some e → CellsOK env E cs →
    (evalInner env cur key e p cs).1 = evalExpr env cur key e ∧
      CellsOK env E (evalInner env cur key e p cs).2
  | .list items, p, cs, hsub, hok => by
    have h := evalCList_ok env E cur key items p 0 cs
      (fun j hj => by rw [Nat.zero_add]; exact subAt_snoc_list hsub j hj) hok
    rw [evalInner, evalExpr_list]
    simp only []
    rw [h.1]
    exact ⟨rfl, h.2⟩
  | .func name args, p, cs, hsub, hok => by
    have h := evalCList_ok env E cur key args p 0 cs
      (fun j hj => by rw [Nat.zero_add]; exact subAt_snoc_func hsub j hj) hok
    rw [evalInner, evalExpr_func]
    simp only []
    rw [h.1]
    exact ⟨rfl, h.2⟩
  | .not e, p, cs, hsub, hok => by
    have hs := subAt_snoc_not hsub
    have h := evalC_of_inner env E e (p ++ [0]) cs cur key hs hok
      (evalInner_ok env E cur key e (p ++ [0]) cs hs hok)
    rw [evalInner, evalExpr_not]
    simp only []
    rw [h.1]
    exact ⟨rfl, h.2⟩
  | .infix l op r, p, cs, hsub, hok => by
    have hsl := subAt_snoc_infix_l hsub
    have hsr := subAt_snoc_infix_r hsub
    have h1 := evalC_of_inner env E l (p ++ [0]) cs cur key hsl hok
      (evalInner_ok env E cur key l (p ++ [0]) cs hsl hok)
    have h2 := evalC_of_inner env E r (p ++ [1]) _ cur key hsr h1.2
      (evalInner_ok env E cur key r (p ++ [1]) _ hsr h1.2)
    rw [evalInner, evalExpr_infix]
    simp only []
    rw [h2.1, h1.1]
    exact ⟨rfl, h2.2⟩
  | .nil, _, _, _, hok | .undefined, _, _, _, hok | .bool _, _, _, _, hok | .int _, _, _, _, hok
  | .flt _, _, _, _, hok | .str _, _, _, _, hok | .regex _ _, _, _, _, hok | .self _, _, _, _, hok
  | .root _ _, _, _, _, hok | .ctx _, _, _, _, hok | .key, _, _, _, hok => by
    rw [evalInner] <;> first | exact ⟨rfl, hok⟩ | (intros; simp at *)
theorem evalCList_ok (env : Env) (E : Expr) (cur : J) (key : Option Part) :
    (es : List Expr) → (p : Pos) → (i : Nat) → (cs : Cells) →
    (∀ j (hj : j < es.length), subAt E (p ++ [i + j]) = some es[j]) → CellsOK env E cs →
    (evalCList env cur key es p i cs).1 = evalArgs env cur key es ∧
      CellsOK env E (evalCList env cur key es p i cs).2
  | [], _, _, _, _, hok => by
    rw [evalCList, evalArgs]; exact ⟨rfl, hok⟩
  | e :: es, p, i, cs, hsub, hok => by
    have hs : subAt E (p ++ [i]) = some e := hsub 0 (Nat.zero_lt_succ _)
    have h1 := evalC_of_inner env E e (p ++ [i]) cs cur key hs hok
      (evalInner_ok env E cur key e (p ++ [i]) cs hs hok)
    have h2 := evalCList_ok env E cur key es p (i + 1) _
      (fun j hj => by
        have := hsub (j + 1) (Nat.succ_lt_succ hj)
        rw [Nat.add_assoc, Nat.add_comm 1 j]; exact this) h1.2
    rw [evalCList, evalArgs]
    simp only []
    rw [h2.1, h1.1]
    exact ⟨rfl, h2.2⟩
end

theorem evalC_transparent (env : Env) (E e : Expr) (p : Pos) (cs : Cells) (cur : J) (key : Option Part)
    (hsub : subAt E p = some e) (hok : CellsOK env E cs) :
    (evalC env cur key e p cs).1 = evalExpr env cur key e ∧ CellsOK env E (evalC env cur key e p cs).2 :=
  evalC_of_inner env E e p cs cur key hsub hok (evalInner_ok env E cur key e p cs hsub hok)

/-- caching on = caching off, from any consistent cell state -/
theorem resolveCachedFrom_eq (env : Env) (e : Expr) (cands : List (J × Option Part)) (cs : Cells)
    (hok : CellsOK env e cs) : resolveCachedFrom env e cands cs = resolvePlain env e cands := by
  induction cands generalizing cs with
  | nil => simp only [resolveCachedFrom, resolvePlain, List.map_nil]
  | cons c rest ih =>
    obtain ⟨cur, key⟩ := c
    have h := evalC_transparent env e e [] cs cur key (subAt_nil e) hok
    simp only [resolveCachedFrom, resolvePlain, List.map_cons]
    rw [h.1, ih _ h.2]
    rfl

theorem cache_transparent (env : Env) (e : Expr) (cands : List (J × Option Part)) :
    resolveCached env e cands = resolvePlain env e cands :=
  resolveCachedFrom_eq env e cands [] (cellsOK_nil env e)

/-! ### Interleaving -/

theorem interleave_independent {α : Type} (sched : List Nat) (gens : List (List α)) (i : Nat) :
    (((interleave sched gens).1.filter (fun t => t.1 == i)).map (·.2)) ++ ((interleave sched gens).2[i]?.getD [])
      = gens[i]?.getD [] := by
  induction sched generalizing gens with
  | nil => simp [interleave]
  | cons j sched ih =>
    rw [interleave]
    split
    · rename_i x rest h
      simp only []
      have hj : j < gens.length := by
        rcases Nat.lt_or_ge j gens.length with h' | h'
        · exact h'
        · rw [List.getElem?_eq_none h'] at h; cases h
      have ih' := ih (gens.set j rest)
      by_cases hji : j = i
      · subst hji
        rw [List.filter_cons]
        simp only [beq_self_eq_true, if_true, List.map_cons, List.cons_append]
        rw [ih', List.getElem?_set_self hj, h]; rfl
      · rw [List.filter_cons]
        have : ((j == i) = false) := by simpa using hji
        simp only [this]
        rw [if_neg (by simp)]
        rw [ih', List.getElem?_set_ne hji]
    · exact ih gens

theorem interleave_length {α : Type} (sched : List Nat) (gens : List (List α)) :
    (interleave sched gens).2.length = gens.length := by
  induction sched generalizing gens with
  | nil => simp [interleave]
  | cons j sched ih =>
    rw [interleave]
    split
    · rename_i x rest h
      simp only []
      rw [ih]; simp
    · exact ih gens

end JP.Lemmas
