/-
  The lexer reads the serializer's text back as the serializer's tokens.
-/
import JP.Lemmas.LexStr
import JP.Lemmas.LexPrintAux6
namespace JP.Lemmas
open JP JP.Query JP.Surface JP.Lex

/-! ### Printed text lexes to the printed tokens -/

theorem plainToks_map (ts : List Tok) : plainToks (ts.map CTok.tok) = some ts := by
  induction ts with
  | nil => rfl
  | cons t ts ih => simp [plainToks, ih]

namespace LexPrint

/-- a printed path is read as its tokens, in front of whatever may follow an expression -/
theorem ce_path (uw : Char → Bool) (p : Path) (h : printableSegs p.segs = true) :
    CE uw (pstrPath dflt p) (ptoksPath p) := by
  have hs := lexSegs uw p.segs h
  obtain ⟨segs, fake⟩ := p
  cases fake
  · have e1 : pstrPath dflt ⟨segs, false⟩ = '$' :: pstrSegs dflt segs := by
      simp only [pstrPath, dflt, List.cons_append, List.nil_append, Bool.false_eq_true, if_false]
    rw [e1]; simp only [ptoksPath, Bool.false_eq_true, if_false]
    exact CE.query (emit_root uw) (by decide) hs
  · have e1 : pstrPath dflt ⟨segs, true⟩ = '^' :: pstrSegs dflt segs := by
      simp only [pstrPath, dflt, List.cons_append, List.nil_append, if_true]
    rw [e1]; simp only [ptoksPath, if_true]
    exact CE.query (emit_fakeRoot uw) (by decide) hs

/-- the ` | p` / ` & p` tail of a compound query -/
theorem tokz_tail (uw : Char → Bool) (l : List (Bool × Path)) (hl : ∀ x ∈ l, printableSegs x.2.segs = true) :
    Tokz uw (l.map fun (u, p) => ' ' :: (if u then dflt.union else dflt.inter) ++ ' ' :: pstrPath dflt p).flatten
        (l.map fun (u, p) => (if u then CTok.union else CTok.inter) :: (ptoksPath p).map CTok.tok).flatten ∧
      safe (l.map fun (u, p) => ' ' :: (if u then dflt.union else dflt.inter) ++ ' ' :: pstrPath dflt p).flatten = true := by
  induction l with
  | nil => exact ⟨Tokz.nil uw, rfl⟩
  | cons x l ih =>
    obtain ⟨u, p⟩ := x
    obtain ⟨ht, hs⟩ := ih (fun y hy => hl y (by simp [hy]))
    have hp := ce_path uw p (hl (u, p) (by simp))
    have a1 := hp.2 _ _ hs ht
    have a2 := Tokz.blank (nb_of_eh (eh_append hp.1 _)) a1
    simp only [List.map_cons, List.flatten_cons]
    cases u
    · have a3 := Tokz.char (emit_inter uw) (rfl : sp (' ' :: _) = true) a2
      have hn : nb ('&' :: ' ' :: (pstrPath dflt p ++
          (l.map fun (u, p) => ' ' :: (if u then dflt.union else dflt.inter) ++ ' ' :: pstrPath dflt p).flatten)) = true := by
        simp [nb, isPyBlank]
      have a4 := Tokz.blank hn a3
      refine ⟨?_, ?_⟩
      · simpa [dflt, List.append_assoc] using a4
      · simpa [dflt, List.append_assoc] using safe_blank hn
    · have a3 := Tokz.char (emit_union uw) (rfl : sp (' ' :: _) = true) a2
      have hn : nb ('|' :: ' ' :: (pstrPath dflt p ++
          (l.map fun (u, p) => ' ' :: (if u then dflt.union else dflt.inter) ++ ' ' :: pstrPath dflt p).flatten)) = true := by
        simp [nb, isPyBlank]
      have a4 := Tokz.blank hn a3
      refine ⟨?_, ?_⟩
      · simpa [dflt, List.append_assoc] using a4
      · simpa [dflt, List.append_assoc] using safe_blank hn

end LexPrint

open LexPrint in
/-- **the lexer reads the serializer's text back as the serializer's tokens** (default spellings) -/
theorem tokenize_pstrPath (uw : Char → Bool) (p : Path) (h : printableSegs p.segs = true) :
    tokenize ⟨dflt, uw⟩ (pstrPath dflt p) = .ok ((ptoksPath p).map CTok.tok) := by
  have := (ce_path uw p h).2 [] [] rfl (Tokz.nil uw)
  simp only [List.append_nil] at this
  exact tokenize_of_Tokz this

open LexPrint in
theorem tokenize_pstrCompound (uw : Char → Bool) (c : Compound) (h0 : printableSegs c.first.segs = true)
    (hr : ∀ x ∈ c.rest, printableSegs x.2.segs = true) :
    tokenize ⟨dflt, uw⟩ (pstrCompound dflt c) = .ok (ptoksCompound c) := by
  obtain ⟨ht, hs⟩ := tokz_tail uw c.rest hr
  exact tokenize_of_Tokz ((ce_path uw c.first h0).2 _ _ hs ht)

/-- compiling the printed text gives the (normalised) query back -/
theorem compileText_pstrPath (pr : Prec) (hpr : precOK pr = true) (uw : Char → Bool) (p : Path)
    (hp : parsedSegs p.segs = true) (h : printableSegs p.segs = true) :
    compileText pr ⟨dflt, uw⟩ (pstrPath dflt p) = some ⟨normSegs p.segs, p.fake⟩ := by
  unfold compileText
  rw [tokenize_pstrPath uw p h]
  simp only [plainToks_map]
  rw [parse_ptoks pr hpr p hp]

end JP.Lemmas
