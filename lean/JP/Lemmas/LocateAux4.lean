/-
  Patch operations addressed by a location (C20): `test`, `replace`, `remove`.
-/
import JP.Lemmas.LocateAux3
namespace JP.Lemmas
open JP JP.Pointer JP.Patch

theorem writeBack_locParts (loc : List Rfc.LStep) (doc new d : J)
    (h : setAt doc loc new = some d) : writeBack doc (locParts loc) new = .ok d := by
  induction loc generalizing doc d with
  | nil => simp only [setAt_nil, Option.some.injEq] at h; subst h; rfl
  | cons s a ih =>
    rcases setAt_cons_some h with ⟨kvs, k, c, c', rfl, rfl, hd, hs, rfl⟩ |
      ⟨xs, n, c, c', rfl, rfl, hd, hs, rfl⟩
    · simp [locParts_cons, partOfStep, writeBack, slotOf, partStr, dictHas, hd, ih c c' hs,
        pa_bind_ok, pa_pure]
    · have hl : n < xs.length := by
        rcases Nat.lt_or_ge n xs.length with hl | hl
        · exact hl
        · rw [List.getElem?_eq_none hl] at hd; cases hd
      obtain rfl : c = xs[n] := by
        rw [List.getElem?_eq_getElem hl] at hd; exact (Option.some.inj hd).symm
      simp [locParts_cons, partOfStep, writeBack, slotOf, pa_pyIndexPos_nat, hl, ih _ c' hs,
        pa_bind_ok, pa_pure]

theorem locParts_snoc (init : List Rfc.LStep) (s : Rfc.LStep) :
    locParts (init ++ [s]) = locParts init ++ [partOfStep s] := by
  simp [locParts]

theorem target_loc_obj (doc : J) (init : List Rfc.LStep) (kvs : List (Str × J)) (k : Str) (v : J)
    (h1 : locValue doc init = some (.obj kvs)) (hd : dictGet kvs k = some v) :
    target doc (locParts (init ++ [.name k])) = .ok (some (.obj kvs), .key k, some v) := by
  have hr := pointer_of_location_aux doc _ init h1
  have := pa_target_obj doc (locParts init) (.key k) kvs hr (by
    simp only [partStr, hd]
    exact getitem_obj_of_get (p := .key k) hd)
  rw [locParts_snoc, partOfStep, this]
  simp only [partStr, hd]

theorem target_loc_arr (doc : J) (init : List Rfc.LStep) (xs : List J) (n : Nat) (v : J)
    (h1 : locValue doc init = some (.arr xs)) (hd : xs[n]? = some v) :
    target doc (locParts (init ++ [.index n])) = .ok (some (.arr xs), .idx n, some v) := by
  have hr := pointer_of_location_aux doc _ init h1
  rw [locParts_snoc, partOfStep, pa_target_arr_idx doc (locParts init) xs n hr, hd]

theorem dropLast_locParts_snoc (init : List Rfc.LStep) (s : Rfc.LStep) :
    (locParts (init ++ [s])).dropLast = locParts init := by
  rw [locParts_snoc, List.dropLast_concat]

/-- the value of a one-step location -/
theorem locValue_single_cases {p v : J} {s : Rfc.LStep} (h : locValue p [s] = some v) :
    (∃ kvs k, p = .obj kvs ∧ s = .name k ∧ dictGet kvs k = some v) ∨
    (∃ xs n, p = .arr xs ∧ s = .index n ∧ xs[n]? = some v) := by
  rcases locValue_cons_some h with ⟨kvs, k, c, rfl, rfl, hd, hc⟩ | ⟨xs, n, c, rfl, rfl, hd, hc⟩
  · simp only [locValue_nil, Option.some.injEq] at hc; subst hc; exact Or.inl ⟨kvs, k, rfl, rfl, hd⟩
  · simp only [locValue_nil, Option.some.injEq] at hc; subst hc; exact Or.inr ⟨xs, n, rfl, rfl, hd⟩

theorem apply_single_ok {doc d : J} {op : Op} (h : applyOp doc op = .ok d) :
    Patch.apply [op] doc = .ok d := by
  rw [pa_apply_single, h]; rfl

/-! ## test -/

theorem edit_test_aux (doc v : J) (loc : List Rfc.LStep) (hwf : doc.wf = true)
    (h : locValue doc loc = some v) :
    Patch.apply [.test (locParts loc) v] doc = .ok doc := by
  apply apply_single_ok
  have hv : v.eqv v = true := eqv_refl v (locValue_wf h hwf)
  rcases pa_snoc_cases loc with rfl | ⟨init, s, rfl⟩
  · simp only [locValue_nil, Option.some.injEq] at h; subst h
    simp [applyOp, applyTest, locParts, pa_target_nil, pa_bind_ok, hv, pa_pure]
  · obtain ⟨p, h1, _, h2⟩ := parent_location_aux doc v init s h
    rcases locValue_single_cases h2 with ⟨kvs, k, rfl, rfl, hd⟩ | ⟨xs, n, rfl, rfl, hd⟩
    · simp [applyOp, applyTest, target_loc_obj doc init kvs k v h1 hd, pa_bind_ok, hv, pa_pure]
    · simp [applyOp, applyTest, target_loc_arr doc init xs n v h1 hd, pa_bind_ok, hv, pa_pure]

/-! ## replace -/

theorem edit_replace_aux (doc v w : J) (loc : List Rfc.LStep) (h : locValue doc loc = some v) :
    ∃ d, setAt doc loc w = some d ∧ Patch.apply [.replace (locParts loc) w] doc = .ok d := by
  obtain ⟨d, hd⟩ := setAt_of_locValue h w
  refine ⟨d, hd, apply_single_ok ?_⟩
  rcases pa_snoc_cases loc with rfl | ⟨init, s, rfl⟩
  · simp only [setAt_nil, Option.some.injEq] at hd; subst hd
    simp [applyOp, applyReplace, locParts, pa_target_nil, pa_bind_ok, pa_pure]
  · obtain ⟨p, h1, _, h2⟩ := parent_location_aux doc v init s h
    rw [setAt_append, h1] at hd
    simp only [Option.bind_some] at hd
    rcases locValue_single_cases h2 with ⟨kvs, k, rfl, rfl, hg⟩ | ⟨xs, n, rfl, rfl, hg⟩
    · simp only [setAt_obj_name, hg, Option.bind_some, setAt_nil, Option.map_some] at hd
      have hw := writeBack_locParts init doc _ d hd
      simp [applyOp, applyReplace, target_loc_obj doc init kvs k v h1 hg, pa_bind_ok,
        dropLast_locParts_snoc, partStr, hw]
    · have hl : n < xs.length := by
        rcases Nat.lt_or_ge n xs.length with hl | hl
        · exact hl
        · rw [List.getElem?_eq_none hl] at hg; cases hg
      simp only [setAt_arr_index, hg, Option.bind_some, setAt_nil, Option.map_some] at hd
      have hw := writeBack_locParts init doc _ d hd
      simp [applyOp, applyReplace, target_loc_arr doc init xs n v h1 hg, pa_bind_ok,
        dropLast_locParts_snoc, pa_setArr_nat xs n w hl, hw]

/-! ## remove -/

theorem edit_remove_aux (doc v : J) (loc : List Rfc.LStep) (hne : loc ≠ [])
    (h : locValue doc loc = some v) :
    ∃ d, eraseAt doc loc = some d ∧ Patch.apply [.remove (locParts loc)] doc = .ok d := by
  rcases pa_snoc_cases loc with rfl | ⟨init, s, rfl⟩
  · exact absurd rfl hne
  · obtain ⟨p, h1, _, h2⟩ := parent_location_aux doc v init s h
    rw [eraseAt_append doc init (by simp), h1]
    simp only [Option.bind_some]
    rcases locValue_single_cases h2 with ⟨kvs, k, rfl, rfl, hg⟩ | ⟨xs, n, rfl, rfl, hg⟩
    · have hh : dictHas kvs k = true := by simp [dictHas, hg]
      obtain ⟨d, hd⟩ := setAt_of_locValue h1 (.obj (dictErase kvs k))
      refine ⟨d, by simp only [eraseAt_obj_single, hh, if_true, Option.bind_some, hd],
        apply_single_ok ?_⟩
      have hw := writeBack_locParts init doc _ d hd
      simp [applyOp, applyRemove, target_loc_obj doc init kvs k v h1 hg, pa_bind_ok,
        dropLast_locParts_snoc, partStr, hw]
    · have hl : n < xs.length := by
        rcases Nat.lt_or_ge n xs.length with hl | hl
        · exact hl
        · rw [List.getElem?_eq_none hl] at hg; cases hg
      obtain ⟨d, hd⟩ := setAt_of_locValue h1 (.arr (xs.eraseIdx n))
      refine ⟨d, by simp only [eraseAt_arr_single, hl, if_true, Option.bind_some, hd],
        apply_single_ok ?_⟩
      have hw := writeBack_locParts init doc _ d hd
      simp [applyOp, applyRemove, target_loc_arr doc init xs n v h1 hg, pa_bind_ok,
        dropLast_locParts_snoc, pa_delArr_nat xs n hl, hw]

end JP.Lemmas
