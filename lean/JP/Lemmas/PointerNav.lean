/-
  Helper lemmas for C14 (pointer text / tokens / navigation). Statements used by JP/Props/C14.lean.
-/
import JP.Lemmas.Pointer
namespace JP.Lemmas
open JP JP.Pointer

/-! ## Auxiliary facts -/

theorem except_map_ok {ε α β} (f : α → β) (x : α) :
    (Except.ok x : Except ε α).map f = .ok (f x) := rfl

/-- Every RFC 6901 reference token (raw, still escaped) is the escaped form of some text. -/
theorem exists_escapeTok_of_rfcTokenOk (raw : Str) (h : rfcTokenOk raw = true) :
    ∃ t, escapeTok t = raw := by
  fun_induction rfcTokenOk raw
  case case1 => exact ⟨[], rfl⟩
  case case2 rest ih =>
    obtain ⟨t, rfl⟩ := ih h
    exact ⟨'~' :: t, by rw [escapeTok_cons]; rfl⟩
  case case3 rest ih =>
    obtain ⟨t, rfl⟩ := ih h
    exact ⟨'/' :: t, by rw [escapeTok_cons]; rfl⟩
  case case4 => cases h
  case case5 => cases h
  case case6 c rest _ _ h1 h2 ih =>
    obtain ⟨t, rfl⟩ := ih h
    refine ⟨c :: t, ?_⟩
    rw [escapeTok_cons, if_neg (fun e => h1 e), if_neg (fun e => h2 e)]
    rfl

/-- Escaping inverts unescaping on well-formed raw reference tokens. -/
theorem escapeTok_unescapeTok {raw : Str} (h : rfcTokenOk raw = true) :
    escapeTok (unescapeTok raw) = raw := by
  obtain ⟨t, rfl⟩ := exists_escapeTok_of_rfcTokenOk raw h
  rw [unescapeTok_escapeTok]

/-- Escaping introduces no backslash. -/
theorem escapeTok_no_backslash {t : Str} (h : '\\' ∉ t) : '\\' ∉ escapeTok t := by
  induction t with
  | nil => simp
  | cons c t ih =>
    have hc : '\\' ≠ c := fun e => h (List.mem_cons.mpr (Or.inl e))
    have ht := ih (fun e => h (by simp [e]))
    rw [escapeTok_cons]
    by_cases h1 : c = '~'
    · simp [h1, ht]
    · by_cases h2 : c = '/'
      · simp [h2, ht]
      · simp [h1, h2, ht, hc]

theorem contains_false_iff {s : Str} {c : Char} : s.contains c = false ↔ c ∉ s := by
  simp

theorem spellTokens_no_backslash {ts : List Str} (hb : ∀ t ∈ ts, t.contains '\\' = false) :
    (spellTokens ts).contains '\\' = false := by
  rw [contains_false_iff]
  unfold spellTokens
  intro hm
  obtain ⟨t, ht, hmem⟩ := List.mem_flatMap.mp hm
  rcases List.mem_cons.mp hmem with e | e
  · exact absurd e (by decide)
  · exact escapeTok_no_backslash (contains_false_iff.mp (hb t ht)) e

/-- `_parse` on an RFC 6901 pointer string whose integer-like tokens are within the limits. -/
theorem parse_of_rfcParse (dec : EscDec) (ue : Bool) (s : Str) (ts : List Str)
    (hs : rfcParse s = some ts) (hr : ∀ t ∈ ts, TokInRange t)
    (hb : ue = true → s.contains '\\' = false) :
    parse dec ue s = .ok (ts.map tokPart) := by
  unfold rfcParse at hs
  split at hs
  · cases hs; exact parse_nil dec ue
  · rename_i cs
    simp only at hs
    split at hs
    · cases hs
      rw [parse_slash dec ue cs hb]
      rw [mapM_ok _ (fun e => tokPart (unescapeTok e))]
      · simp only [List.map_map]; rfl
      · intro e he
        apply indexOf_of_inRange
        exact hr _ (List.mem_map.mpr ⟨e, he, rfl⟩)
    · cases hs
  · cases hs

theorem tokens_map_tokPart (ts : List Str) : tokens (ts.map tokPart) = ts := by
  unfold tokens
  rw [List.map_map]
  conv => rhs; rw [← List.map_id ts]
  apply List.map_congr_left
  intro t _
  simp [partStr_tokPart]

theorem tokens_map_key (ts : List Str) : tokens (ts.map Part.key) = ts := by
  unfold tokens
  rw [List.map_map]
  conv => rhs; rw [← List.map_id ts]
  apply List.map_congr_left
  intro t _
  rfl

theorem encode_cons (p : Part) (ps : List Part) :
    encode (p :: ps) = '/' :: joinWith '/' ((p :: ps).map (fun p => escapeTok (partStr p))) := rfl

theorem encode_of_ne_nil {ps : List Part} (h : ps ≠ []) :
    encode ps = '/' :: joinWith '/' (ps.map (fun p => escapeTok (partStr p))) := by
  cases ps with
  | nil => exact absurd rfl h
  | cons p ps => rfl

theorem joinWith_cons_cons (sep : Char) (p q : Str) (ps : List Str) :
    joinWith sep (p :: q :: ps) = p ++ sep :: joinWith sep (q :: ps) := rfl

/-- `"/" + "/".join(escaped tokens)` is the RFC 6901 spelling. -/
theorem slash_joinWith_eq_spellTokens (t : Str) (ts : List Str) :
    '/' :: joinWith '/' ((t :: ts).map escapeTok) = spellTokens (t :: ts) := by
  induction ts generalizing t with
  | nil => simp [spellTokens, joinWith]
  | cons u us ih =>
    have := ih u
    simp only [List.map_cons] at this ⊢
    rw [joinWith_cons_cons, this]
    simp [spellTokens]

theorem encode_map_key (ts : List Str) : encode (ts.map Part.key) = spellTokens ts := by
  cases ts with
  | nil => rfl
  | cons t ts =>
    rw [List.map_cons, encode_cons, ← slash_joinWith_eq_spellTokens]
    simp only [List.map_cons, List.map_map]
    rfl

theorem fromParts_map_key (dec : EscDec) (ue : Bool) (ts : List Str)
    (hb : ue = true → ∀ t ∈ ts, t.contains '\\' = false) :
    fromParts dec ue (ts.map Part.key) = .ok (ts.map Part.key) := by
  unfold fromParts
  rw [mapM_ok _ (fun p => Part.key (partStr p))]
  · simp only [List.map_map]
    congr 1
  · intro p hp
    obtain ⟨t, ht, rfl⟩ := List.mem_map.mp hp
    cases ue with
    | false => rfl
    | true =>
      simp only [partStr, if_true]
      rw [unicodeEscape_of_no_backslash dec (hb rfl t ht)]
      rfl

/-! ## Statements used by JP/Props/C14.lean -/

theorem print_parse (dec : EscDec) (ue : Bool) (s : Str) (ts : List Str)
    (hs : rfcParse s = some ts) (hr : ∀ t ∈ ts, TokInRange t)
    (hb : ue = true → s.contains '\\' = false) :
    (parse dec ue s).map encode = .ok s := by
  rw [parse_of_rfcParse dec ue s ts hs hr hb, except_map_ok]
  congr 1
  unfold rfcParse at hs
  split at hs
  · cases hs; rfl
  · rename_i cs
    simp only at hs
    split at hs
    · rename_i hall
      cases hs
      rw [splitOn_cons_sep, List.tail_cons] at hall ⊢
      have hne : ((splitOn '/' cs).map unescapeTok).map tokPart ≠ [] := by
        simp [splitOn_ne_nil]
      rw [encode_of_ne_nil hne]
      congr 1
      have hmap : (((splitOn '/' cs).map unescapeTok).map tokPart).map
          (fun p => escapeTok (partStr p)) = splitOn '/' cs := by
        rw [List.map_map, List.map_map]
        conv => rhs; rw [← List.map_id (splitOn '/' cs)]
        apply List.map_congr_left
        intro raw hraw
        simp only [Function.comp, partStr_tokPart, id]
        exact escapeTok_unescapeTok (List.all_eq_true.mp hall raw hraw)
      rw [hmap, joinWith_splitOn]
    · cases hs
  · cases hs

theorem tokens_parse (dec : EscDec) (ue : Bool) (s : Str) (ts : List Str)
    (hs : rfcParse s = some ts) (hr : ∀ t ∈ ts, TokInRange t)
    (hb : ue = true → s.contains '\\' = false) :
    (parse dec ue s).map tokens = .ok ts := by
  rw [parse_of_rfcParse dec ue s ts hs hr hb, except_map_ok, tokens_map_tokPart]

theorem print_fromParts (dec : EscDec) (ue : Bool) (ts : List Str)
    (hb : ue = true → ∀ t ∈ ts, t.contains '\\' = false) :
    (fromParts dec ue (ts.map Part.key)).map encode = .ok (spellTokens ts) ∧
    (fromParts dec ue (ts.map Part.key)).map tokens = .ok ts := by
  rw [fromParts_map_key dec ue ts hb, except_map_ok, except_map_ok, encode_map_key,
    tokens_map_key]
  exact ⟨rfl, rfl⟩

theorem eq_iff_tokens (p q : List Part) : Pointer.eq p q = true ↔ tokens p = tokens q := by
  unfold Pointer.eq
  exact beq_iff_eq

theorem parse_spell_eq_fromParts (dec : EscDec) (ue : Bool) (ts : List Str)
    (hr : ∀ t ∈ ts, TokInRange t) (hb : ∀ t ∈ ts, t.contains '\\' = false) :
    ∃ p q, parse dec ue (spellTokens ts) = .ok p ∧ fromParts dec ue (ts.map Part.key) = .ok q ∧
      Pointer.eq p q = true := by
  refine ⟨ts.map tokPart, ts.map Part.key,
    parse_spellTokens dec ue ts hr (fun _ => spellTokens_no_backslash hb),
    fromParts_map_key dec ue ts (fun _ => hb), ?_⟩
  rw [eq_iff_tokens, tokens_map_tokPart, tokens_map_key]

/-- `p / escape(t)` appends the part `_index` makes of `t`. -/
theorem truediv_escapeTok (dec : EscDec) (p : List Part) (t : Str) (hr : TokInRange t)
    (hb : t.contains '\\' = false) (hl : lstrip (escapeTok t) = escapeTok t) :
    truediv dec p (escapeTok t) = .ok (p ++ [tokPart t]) := by
  have hb' : (escapeTok t).contains '\\' = false :=
    contains_false_iff.mpr (escapeTok_no_backslash (contains_false_iff.mp hb))
  unfold truediv
  rw [hl, unicodeEscape_of_no_backslash dec hb']
  change (pure (escapeTok t) >>= _) = _
  simp only [pure_bind]
  split
  · rename_i rest heq
    exact absurd (by rw [heq]; simp) (escapeTok_no_slash t)
  · rw [splitOn_of_not_mem (escapeTok_no_slash t)]
    rw [mapM_ok _ (fun e => tokPart (unescapeTok e))]
    · simp only [List.map_cons, List.map_nil, unescapeTok_escapeTok]
      rfl
    · intro e he
      simp only [List.mem_singleton] at he
      subst he
      rw [unescapeTok_escapeTok]
      exact indexOf_of_inRange hr

theorem tokens_append (p q : List Part) : tokens (p ++ q) = tokens p ++ tokens q := by
  simp [tokens]

theorem tokens_truediv (dec : EscDec) (p : List Part) (t : Str) (hr : TokInRange t)
    (hb : t.contains '\\' = false) (hl : lstrip (escapeTok t) = escapeTok t) :
    (truediv dec p (escapeTok t)).map tokens = .ok (tokens p ++ [t]) := by
  rw [truediv_escapeTok dec p t hr hb hl, except_map_ok, tokens_append]
  simp [tokens, partStr_tokPart]

theorem join_parent_relative (dec : EscDec) (p q : List Part) (t : Str) (hr : TokInRange t)
    (hb : t.contains '\\' = false) (hl : lstrip (escapeTok t) = escapeTok t)
    (hq : truediv dec p (escapeTok t) = .ok q) :
    Pointer.eq (parent q) p = true ∧ isRelativeTo q p = true := by
  rw [truediv_escapeTok dec p t hr hb hl] at hq
  cases hq
  constructor
  · rw [eq_iff_tokens]
    simp [parent]
  · simp [isRelativeTo, tokens]

theorem join_resolve (dec : EscDec) (doc : J) (p q : List Part) (t : Str) (hr : TokInRange t)
    (hb : t.contains '\\' = false) (hl : lstrip (escapeTok t) = escapeTok t)
    (hq : truediv dec p (escapeTok t) = .ok q) :
    resolveParts doc q = (resolveParts doc p).bind (fun v => getitem v (tokPart t)) := by
  rw [truediv_escapeTok dec p t hr hb hl] at hq
  cases hq
  unfold resolveParts
  rw [List.foldlM_append]
  cases List.foldlM getitem doc p with
  | error e => rfl
  | ok v =>
    change List.foldlM getitem v [tokPart t] = getitem v (tokPart t)
    simp [List.foldlM_cons, List.foldlM_nil]

theorem join_eq_fold (dec : EscDec) (p : List Part) (t : Str) (more : List Str) :
    join dec p [t] = truediv dec p t ∧
    join dec p (t :: more) = (truediv dec p t).bind (fun q => join dec q more) := by
  constructor
  · unfold join
    simp [List.foldlM_cons, List.foldlM_nil]
  · unfold join
    rw [List.foldlM_cons]
    rfl

theorem parent_spec (p : List Part) : parent [] = [] ∧ tokens (parent p) = (tokens p).dropLast := by
  refine ⟨rfl, ?_⟩
  simp [parent, tokens, List.map_dropLast]

theorem join_slash_replaces (dec : EscDec) (p : List Part) (rest : Str)
    (hb : rest.contains '\\' = false) :
    truediv dec p ('/' :: rest) = parse dec false ('/' :: rest) := by
  have hb' : ('/' :: rest).contains '\\' = false := by
    rw [contains_false_iff] at hb ⊢
    intro hm
    rcases List.mem_cons.mp hm with e | e
    · exact absurd e (by decide)
    · exact hb e
  unfold truediv
  rw [lstrip_slash, unicodeEscape_of_no_backslash dec hb']
  rfl

/-! ### `is_relative_to` as an order on token sequences -/

theorem relative_iff_proper_extension (self other : List Part) :
    isRelativeTo self other = true ↔ ∃ rest, rest ≠ [] ∧ tokens self = tokens other ++ rest := by
  constructor
  · intro h
    simp only [isRelativeTo, Bool.and_eq_true, decide_eq_true_eq, beq_iff_eq] at h
    obtain ⟨hl, ht⟩ := h
    refine ⟨(tokens self).drop other.length, ?_, ?_⟩
    · intro hn
      have := congrArg List.length hn
      simp [tokens] at this
      omega
    · rw [← ht, List.take_append_drop]
  · rintro ⟨rest, hne, ht⟩
    have hlen : self.length = other.length + rest.length := by
      have := congrArg List.length ht
      simpa [tokens] using this
    have hpos : 0 < rest.length := List.length_pos_iff.mpr hne
    simp only [isRelativeTo, Bool.and_eq_true, decide_eq_true_eq, beq_iff_eq]
    refine ⟨by omega, ?_⟩
    rw [ht]
    have : other.length = (tokens other).length := by simp [tokens]
    rw [this, List.take_left]

theorem relative_irrefl (p : List Part) : isRelativeTo p p = false := by
  simp [isRelativeTo]

theorem relative_trans (a b c : List Part) (h1 : isRelativeTo a b = true)
    (h2 : isRelativeTo b c = true) : isRelativeTo a c = true := by
  rw [relative_iff_proper_extension] at *
  obtain ⟨r1, n1, e1⟩ := h1
  obtain ⟨r2, n2, e2⟩ := h2
  refine ⟨r2 ++ r1, by simp [n1], ?_⟩
  rw [e1, e2, List.append_assoc]

theorem relative_asymm (a b : List Part) (h : isRelativeTo a b = true) :
    isRelativeTo b a = false := by
  simp only [isRelativeTo, Bool.and_eq_true, decide_eq_true_eq] at h
  simp only [isRelativeTo, Bool.and_eq_false_iff, decide_eq_false_iff_not]
  left; omega

end JP.Lemmas
