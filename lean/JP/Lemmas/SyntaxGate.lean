/-
  The syntactic refusals of `parse_selector_list`: empty list, trailing comma, leading zeros.
-/
import JP.Lex
set_option linter.unusedSimpArgs false
namespace JP.Lemmas
open JP JP.Query JP.Surface JP.Lex

/-- the parser model fails (never succeeds) on a bracket list that starts with `]` -/
theorem parseSelList_empty (pr : Prec) (fuel : Nat) (rest : List Tok) :
    ∀ r, parseSelList pr fuel (.rbracket :: rest) ≠ .ok r := by
  intro r
  cases fuel with
  | zero => simp [parseSelList]
  | succ n =>
    cases n with
    | zero => simp [parseSelList, parseSelItem, bind, Except.bind]
    | succ m => simp [parseSelList, parseSelItem, bind, Except.bind]

theorem parsePath_empty_list (pr : Prec) (fuel : Nat) (rest : List Tok) :
    ∀ r, parsePath pr fuel (.lbracket :: .rbracket :: rest) ≠ .ok r := by
  intro r h
  cases fuel with
  | zero => simp [parsePath] at h
  | succ n =>
    simp only [parsePath, bind, Except.bind] at h
    split at h
    · cases h
    · rename_i v hv
      exact parseSelList_empty pr n rest v hv

/-- a selector followed by `, ]` is refused -/
theorem parseSelList_trailing_comma (pr : Prec) (fuel : Nat) (toks rest : List Tok) (s : Sel)
    (h : parseSelItem pr fuel toks = .ok (s, .comma :: .rbracket :: rest)) :
    parseSelList pr (fuel + 1) toks = .error .syntax := by
  simp [parseSelList, h, bind, Except.bind]

/-! ### leading zeros -/

/-- the test of `parse_selector_list` on the text of an INT token -/
def indexTextRefused (v : Str) : Bool :=
  (decide (v.length > 1) && v.head? == some '0') || (v.take 2 == ['-', '0'])

/-- RFC 9535 `int = "0" / (["-"] DIGIT1 *DIGIT)` -/
def rfcInt (v : Str) : Bool :=
  v == ['0'] ||
  match v with
  | '-' :: d :: ds => d.isDigit && d != '0' && ds.all Char.isDigit
  | d :: ds => d.isDigit && d != '0' && ds.all Char.isDigit
  | [] => false

/-- the shape the lexer's INT rule gives a token without exponent: `-?[0-9]+` -/
def intShape (v : Str) : Bool :=
  match v with
  | '-' :: ds => !ds.isEmpty && ds.all Char.isDigit
  | ds => !ds.isEmpty && ds.all Char.isDigit

theorem leading_zero_gate (v : Str) (h : intShape v = true) : indexTextRefused v = !rfcInt v := by
  match v, h with
  | [], h => simp [intShape] at h
  | ['-'], h => simp [intShape] at h
  | '-' :: d :: ds, h =>
    simp only [intShape, List.isEmpty_cons, Bool.not_false, Bool.true_and, List.all_cons, Bool.and_eq_true] at h
    by_cases hd : d = '0'
    · subst hd; simp [indexTextRefused, rfcInt]
    · have h0 : (d == '0') = false := by simpa using hd
      have h1 : (d != '0') = true := by simpa using hd
      simp [indexTextRefused, rfcInt, h0, h1, h.1, h.2]
  | [d], h =>
    have hne : d ≠ '-' := by
      intro hd; subst hd; simp [intShape] at h
    by_cases hd : d = '0'
    · subst hd; simp [indexTextRefused, rfcInt]
    · have : (d :: ([] : Str)) ≠ ['0'] := by simpa using hd
      simp only [intShape] at h
      split at h
      · rename_i heq; cases heq; exact absurd rfl hne
      · simp only [List.isEmpty_cons, Bool.not_false, Bool.true_and, List.all_cons, List.all_nil, Bool.and_true] at h
        have h0 : (d == '0') = false := by simpa using hd
        have h1 : (d != '0') = true := by simpa using hd
        simp [indexTextRefused, rfcInt, h0, h1, hd, h]
  | d :: e :: ds, h =>
    by_cases hm : d = '-'
    · subst hm
      simp only [intShape, List.isEmpty_cons, Bool.not_false, Bool.true_and, List.all_cons, Bool.and_eq_true] at h
      by_cases he : e = '0'
      · subst he; simp [indexTextRefused, rfcInt]
      · have h0 : (e == '0') = false := by simpa using he
        have h1 : (e != '0') = true := by simpa using he
        simp [indexTextRefused, rfcInt, h0, h1, h.1, h.2]
    · simp only [intShape] at h
      split at h
      · rename_i heq; cases heq; exact absurd rfl hm
      · simp only [List.isEmpty_cons, Bool.not_false, Bool.true_and, List.all_cons, Bool.and_eq_true] at h
        by_cases hd : d = '0'
        · subst hd; simp [indexTextRefused, rfcInt]
        · have h0 : (d == '0') = false := by simpa using hd
          have h1 : (d != '0') = true := by simpa using hd
          have h2 : (d == '-') = false := by simpa using hm
          simp [indexTextRefused, rfcInt, h0, h1, h2, hm, h.1, h.2.1, h.2.2]

end JP.Lemmas
