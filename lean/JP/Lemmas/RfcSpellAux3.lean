/-
  RfcSpell helpers, part 3: the lexer along the derivation of a spelling.
-/
import JP.Lemmas.RfcSpellAux2
set_option linter.unusedSimpArgs false
namespace JP.Lemmas.RfcSpell
open JP JP.Query JP.Surface JP.Lex JP.RfcSpell JP.Lemmas.LexPrint

/-! ### selectors -/

theorem plainSel_of_spell {s : Sel} {w : Str} (h : SelSpell s w) : plainSel s = true := by
  cases h <;> rfl

theorem sels_facts {sels : List Sel} {w : Str} (h : SelsSpell sels w) :
    sels ≠ [] ∧ ∀ s ∈ sels, plainSel s = true := by
  induction h with
  | one s w h => exact ⟨by simp, by intro x hx; simp at hx; subst hx; exact plainSel_of_spell h⟩
  | cons s w h ss ws s1 s2 h1 h2 rest ih =>
    refine ⟨by simp, ?_⟩
    intro x hx
    simp only [List.mem_cons] at hx
    rcases hx with rfl | hx
    · exact plainSel_of_spell h
    · exact ih.2 x hx

theorem lex_sel (uw : Char → Bool) {s : Sel} {w : Str} (h : SelSpell s w) :
    ∀ (pre bl r : Str) (cs : List CTok), isS pre = true → isS bl = true → endc r = true → Tokz uw r cs →
      Tokz uw (pre ++ (w ++ (bl ++ r))) (.tok (selTok s) :: cs) := by
  intro pre bl r cs hpre hbl hr ht
  cases h with
  | nameSQ s w h =>
    have z := tokz_sq uw s w h (tokz_skip hbl (endc_fs hr) ht)
    have z' := tokz_skip hpre (rfl : fs ('\'' :: _) = true) z
    simpa [selTok, List.append_assoc] using z'
  | nameDQ s w h =>
    have z := tokz_dq uw s w h (tokz_skip hbl (endc_fs hr) ht)
    have z' := tokz_skip hpre (rfl : fs ('"' :: _) = true) z
    simpa [selTok, List.append_assoc] using z'
  | index i =>
    exact tokz_skip hpre (fs_intText (intText_intStr i) _) (tokz_int uw i hbl hr ht)
  | wild =>
    have z := Tokz.char (emit_wild uw) (rfl : anyS _ = true) (tokz_skip hbl (endc_fs hr) ht)
    exact tokz_skip hpre (rfl : fs ('*' :: _) = true) z
  | slice2 a b s1 s2 s3 h1 h2 h3 ha hb =>
    have z := tokz_slice2 uw a b pre s1 s2 (s3 ++ bl) r hpre h1 h2 (isS_append h3 hbl) hr ht
    simpa [selTok, List.append_assoc] using z
  | slice3 a b c s1 s2 s3 s4 h1 h2 h3 h4 ha hb hc =>
    have z := tokz_slice3 uw a b c pre s1 s2 s3 s4 bl r hpre h1 h2 h3 h4 hbl hr ht
    simpa [selTok, List.append_assoc] using z

theorem lex_sels (uw : Char → Bool) {sels : List Sel} {w : Str} (h : SelsSpell sels w) :
    ∀ (pre bl r : Str) (cs : List CTok), isS pre = true → isS bl = true → endc r = true → Tokz uw r cs →
      Tokz uw (pre ++ (w ++ (bl ++ r))) ((selsToks sels).map CTok.tok ++ cs) := by
  induction h with
  | one s w h =>
    intro pre bl r cs hpre hbl hr ht
    exact lex_sel uw h pre bl r cs hpre hbl hr ht
  | cons s w h ss ws s1 s2 h1 h2 rest ih =>
    intro pre bl r cs hpre hbl hr ht
    have z1 := ih s2 bl r cs h2 hbl hr ht
    have z2 := Tokz.char (emit_comma uw) (rfl : anyS _ = true) z1
    have z3 := lex_sel uw h pre s1 _ _ hpre h1 (rfl : endc (',' :: _) = true) z2
    have e : selsToks (s :: ss) = selTok s :: .comma :: selsToks ss := by
      cases rest <;> rfl
    rw [e]
    simpa [List.append_assoc] using z3

/-! ### dots -/

theorem cook_prop {v : Str} : CookB [⟨.prop, v⟩] [.tok (.prop v)] :=
  cookB_one _ _ (by intro more; simp [cook])

theorem cook_ddot_bare {v n : Str} : CookB [⟨.ddot, v⟩, ⟨.bare, n⟩] [.tok .ddot, .tok (.bare n)] := by
  intro more; simp [cook]
  cases cook more <;> rfl

theorem fm_dot_wild (uw : Char → Bool) (rest : Str) :
    firstMatch (R uw) ('.' :: '*' :: rest) = some ([], '*' :: rest) := by
  lexsimp

/-- what a segment list (and the trailing blanks) may start with -/
def segStart : Str → Bool
  | [] => true
  | c :: _ => isB c || c == '.' || c == '['

theorem segStart_keyCont {rest : Str} (h : segStart rest = true) : ∀ d r, rest = d :: r → keyCont d = false := by
  intro d r e
  subst e
  simp only [segStart, Bool.or_eq_true, beq_iff_eq] at h
  rcases h with (h | rfl) | rfl
  · rcases isB_cases h with rfl | rfl | rfl | rfl <;> decide
  · decide
  · decide

theorem shorthand_shape {n : Str} (h : isShorthand n = true) :
    ∃ c cs, n = c :: cs ∧ keyStart c = true ∧ cs.all keyCont = true := by
  cases n with
  | nil => simp [isShorthand] at h
  | cons c cs =>
    simp only [isShorthand, Bool.and_eq_true] at h
    refine ⟨c, cs, rfl, ?_, ?_⟩
    · have := h.1
      simp only [nameFirst, Bool.or_eq_true] at this
      simp only [keyStart, Bool.or_eq_true]
      rcases this with (h | h) | h
      · exact .inl (.inr h)
      · exact .inr h
      · exact .inl (.inl h)
    · have := h.2
      simp only [List.all_eq_true] at this ⊢
      intro x hx
      have hx' := this x hx
      simp only [nameChar, nameFirst, Bool.or_eq_true] at hx'
      simp only [keyCont, keyStart, Bool.or_eq_true]
      rcases hx' with ((h | h) | h) | h
      · exact .inl (.inl (.inl (.inr h)))
      · exact .inl (.inl (.inr h))
      · exact .inl (.inl (.inl (.inl h)))
      · exact .inl (.inr h)

theorem fm_dot_name (uw : Char → Bool) (c : Char) (cs rest : Str) (hc : keyStart c = true)
    (hcs : cs.all keyCont = true) (hrest : ∀ d r, rest = d :: r → keyCont d = false) :
    firstMatch (R uw) ('.' :: c :: (cs ++ rest)) = some ([⟨.prop, c :: cs⟩], rest) := by
  have := dot_shorthand_lexes ⟨dflt, uw⟩ c cs rest hc hcs hrest
  simpa [rules_dflt] using this

theorem mFloat_dot (s : Str) : mFloat ('.' :: s) = none := by
  simp [mFloat, optSign, span_eq]

theorem mInt_dot (uw : Char → Bool) (s : Str) : mInt uw ('.' :: s) = none := by
  simp [mInt, optSign, span_eq]

theorem fm_ddot_name (uw : Char → Bool) (c : Char) (cs rest : Str) (hc : keyStart c = true)
    (hcs : cs.all keyCont = true) (hrest : ∀ d r, rest = d :: r → keyCont d = false) :
    firstMatch (R uw) ('.' :: '.' :: c :: (cs ++ rest)) =
      some ([⟨.ddot, ['.', '.']⟩, ⟨.bare, c :: cs⟩], rest) := by
  have h4 : mSlice ('.' :: '.' :: c :: (cs ++ rest)) = none := LexStr.mSlice_dot _
  have h6 : mDotProp ('.' :: '.' :: c :: (cs ++ rest)) = none := by
    simp [mDotProp, scanKey, show keyStart '.' = false by decide]
  have h9 : mDDotProp ('.' :: '.' :: c :: (cs ++ rest)) = some ([⟨.ddot, ['.', '.']⟩, ⟨.bare, c :: cs⟩], rest) := by
    simp [mDDotProp, scanKey, hc, LexStr.span_keyCont cs rest hcs hrest]
  simp only [R, firstMatch, mQuoted_ne _ _ (show '.' ≠ '"' by decide), mQuoted_ne _ _ (show '.' ≠ '\'' by decide),
    mRe_ne _ (show '.' ≠ '/' by decide), h4, mFunc_not_lower _ (show Char.isLower '.' = false by decide), h6,
    mFloat_dot, mInt_dot, h9]

theorem segStart_blanks {s0 rest : Str} (h0 : isS s0 = true) (h : segStart rest = true) :
    segStart (s0 ++ rest) = true := by
  cases s0 with
  | nil => exact h
  | cons c t => simp [segStart, (isS_cons.mp h0).1]

/-! ### segments -/

theorem lex_segs (uw : Char → Bool) {segs : List Seg} {w : Str} (h : SegsSpell segs w) :
    ∀ tr, isS tr = true →
      ∃ T, SegsToks segs T ∧ Tokz uw (w ++ tr) (T.map CTok.tok) ∧ segStart (w ++ tr) = true := by
  induction h with
  | nil =>
    intro tr htr
    refine ⟨[], .nil, ?_, ?_⟩
    · have := tokz_skip (uw := uw) htr (rfl : fs [] = true) (Tokz.nil uw)
      simpa using this
    · have := segStart_blanks htr (rfl : segStart [] = true)
      simpa using this
  | bracket sels w s0 s1 s2 h h0 h1 h2 segs ws rest ih =>
    intro tr htr
    obtain ⟨T, hT, hz, _⟩ := ih tr htr
    obtain ⟨hne, hp⟩ := sels_facts h
    refine ⟨_, .bracket sels hne hp segs T hT, ?_, ?_⟩
    · have z1 := Tokz.char (emit_rbracket uw) (rfl : anyS _ = true) hz
      have z2 := lex_sels uw h s1 s2 _ _ h1 h2 (rfl : endc (']' :: _) = true) z1
      have z3 := Tokz.char (emit_lbracket uw) (rfl : anyS _ = true) z2
      have z4 := tokz_skip h0 (rfl : fs ('[' :: _) = true) z3
      simpa [List.append_assoc] using z4
    · have := segStart_blanks h0 (rfl : segStart ('[' :: (s1 ++ (w ++ (s2 ++ ']' :: (ws ++ tr))))) = true)
      simpa [List.append_assoc] using this
  | dot g w s0 h hnb h0 segs ws rest ih =>
    intro tr htr
    obtain ⟨T, hT, hz, hst⟩ := ih tr htr
    have hseg : ∀ t : Str, segStart (s0 ++ '.' :: t) = true := fun t => segStart_blanks h0 rfl
    cases h with
    | bracket sels w s1 s2 h h1 h2 => exact absurd rfl (hnb sels rfl)
    | wild =>
      refine ⟨_, .wild segs T hT, ?_, ?_⟩
      · have z1 := Tokz.char (emit_wild uw) (rfl : anyS _ = true) hz
        have z2 := tokz_step (fm_dot_wild uw _) CookB.nil z1
        have z3 := tokz_skip h0 (rfl : fs ('.' :: _) = true) z2
        simpa [List.append_assoc] using z3
      · simpa [List.append_assoc] using hseg ('*' :: (ws ++ tr))
    | name n hn =>
      obtain ⟨c, cs, rfl, hc, hcs⟩ := shorthand_shape hn
      refine ⟨_, .prop (c :: cs) segs T hT, ?_, ?_⟩
      · have z2 := tokz_step (fm_dot_name uw c cs _ hc hcs (segStart_keyCont hst)) cook_prop hz
        have z3 := tokz_skip h0 (rfl : fs ('.' :: _) = true) z2
        simpa [List.append_assoc] using z3
      · simpa [List.append_assoc] using hseg (c :: (cs ++ (ws ++ tr)))
  | ddot g w s0 h h0 segs ws rest ih =>
    intro tr htr
    obtain ⟨T, hT, hz, hst⟩ := ih tr htr
    have hseg : ∀ t : Str, segStart (s0 ++ '.' :: t) = true := fun t => segStart_blanks h0 rfl
    cases h with
    | bracket sels w s1 s2 h h1 h2 =>
      obtain ⟨hne, hp⟩ := sels_facts h
      refine ⟨_, .ddot _ _ (.bracket sels hne hp segs T hT), ?_, ?_⟩
      · have z1 := Tokz.char (emit_rbracket uw) (rfl : anyS _ = true) hz
        have z2 := lex_sels uw h s1 s2 _ _ h1 h2 (rfl : endc (']' :: _) = true) z1
        have z3 := Tokz.char (emit_lbracket uw) (rfl : anyS _ = true) z2
        have z4 := Tokz.one (emit_ddot uw) (rfl : stops keyStart ('[' :: _) = true) z3
        have z5 := tokz_skip h0 (rfl : fs ('.' :: _) = true) z4
        simpa [List.append_assoc] using z5
      · simpa [List.append_assoc] using hseg ('.' :: '[' :: (s1 ++ (w ++ (s2 ++ ']' :: (ws ++ tr)))))
    | wild =>
      refine ⟨_, .ddot _ _ (.wild segs T hT), ?_, ?_⟩
      · have z1 := Tokz.char (emit_wild uw) (rfl : anyS _ = true) hz
        have z4 := Tokz.one (emit_ddot uw) (rfl : stops keyStart ('*' :: _) = true) z1
        have z5 := tokz_skip h0 (rfl : fs ('.' :: _) = true) z4
        simpa [List.append_assoc] using z5
      · simpa [List.append_assoc] using hseg ('.' :: '*' :: (ws ++ tr))
    | name n hn =>
      obtain ⟨c, cs, rfl, hc, hcs⟩ := shorthand_shape hn
      refine ⟨_, .ddot _ _ (.bare (c :: cs) segs T hT), ?_, ?_⟩
      · have z2 := tokz_step (fm_ddot_name uw c cs _ hc hcs (segStart_keyCont hst)) cook_ddot_bare hz
        have z3 := tokz_skip h0 (rfl : fs ('.' :: _) = true) z2
        simpa [List.append_assoc] using z3
      · simpa [List.append_assoc] using hseg ('.' :: c :: (cs ++ (ws ++ tr)))

/-- the lexer and the literal decoding on a spelling of a query -/
theorem tokenize_spell (uw : Char → Bool) {segs : List Seg} {text : Str} (h : QuerySpell segs text) :
    ∃ T, SegsToks segs T ∧ tokenize ⟨dflt, uw⟩ text = .ok ((Tok.root :: T).map CTok.tok) := by
  obtain ⟨w, s, hw, hs, rfl⟩ := h
  obtain ⟨T, hT, hz, _⟩ := lex_segs uw hw s hs
  refine ⟨T, hT, tokenize_of_Tokz ?_⟩
  have := Tokz.char (emit_root uw) (rfl : anyS _ = true) hz
  simpa [List.append_assoc] using this

end JP.Lemmas.RfcSpell
