/-
  Definitions that relate the code-shaped evaluator (JP.Query) to the RFC interpreter (JP.Rfc):
  the abstraction from matches to RFC nodes, and the syntactic fragments theorems talk about.
-/
import JP.Query
import JP.Rfc9535
namespace JP.Lemmas
open JP JP.Query

/-- The parts the implementation records for an RFC location. -/
def partOfStep : Rfc.LStep → Part
  | .name k => .key k
  | .index n => .idx n

/-- A match (parts, path string, value) represents the RFC node at location `loc`. -/
def Represents (n : Node) (r : Rfc.RNode) : Prop :=
  n.parts = r.loc.map partOfStep ∧ n.path = Rfc.normalizedPath r.loc ∧ n.val = r.val

/-- Pointwise `Represents` on node lists (same length, same order, duplicates included). -/
def RepresentsAll : List Node → List Rfc.RNode → Prop
  | [], [] => True
  | n :: ns, r :: rs => Represents n r ∧ RepresentsAll ns rs
  | _, _ => False

mutual
  /-- no filter selector and no keys selector anywhere -/
  def plainSel : Sel → Bool
    | .filter _ => false
    | .keys => false
    | _ => true
  def plainSels : List Sel → Bool
    | [] => true
    | s :: ss => plainSel s && plainSels ss
  def plainSegs : List Seg → Bool
    | [] => true
    | .child sels :: rest => plainSels sels && plainSegs rest
    | .desc :: rest => plainSegs rest
end

/-- The code's slice: CPython `slice.indices(len)` followed by `range`. -/
def codeSlice (start stop step : Option Int) (len : Nat) : List Int :=
  let st := step.getD 1
  if st = 0 then []
  else
    let (s, e) := sliceIndices start stop st len
    pyRange s e st

/-- A filter value `v` (as the code computes it, after single-node unwrapping) represents the RFC
    `ValueType` value `o`: Nothing is an empty node list or `UNDEFINED`; a value is itself. -/
def RepV (v : V) (o : Option J) : Prop :=
  match o with
  | none => v = .nodes [] ∨ v = .undef
  | some j => v = .val j

/-- the six RFC comparison operators -/
def isCmpOp (op : CmpOp) : Bool :=
  op == .eq || op == .ne || op == .lt || op == .le || op == .gt || op == .ge

/-- `InfixExpression.evaluate`'s unwrapping of a one-element node list (non-logical operators). -/
def unwrapSingle : V → V
  | .nodes [n] => .val n.val
  | v => v

/-- The two evaluators look at the same document with the same regex engine, and the code's root
    identifier is `$`. -/
def EnvAgree (env : Env) (renv : Rfc.REnv) : Prop :=
  env.root = renv.root ∧ env.rx = renv.rx ∧ env.rootTok = ['$']

end JP.Lemmas
