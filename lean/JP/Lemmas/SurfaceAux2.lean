/-
  C10 helpers, part 2: the predicates "this token list parses to that expression" and their combinators.
-/
import JP.Lemmas.SurfaceAux1
namespace JP.Lemmas
open JP JP.Query JP.Surface

/-- `T` is a complete prefix item: `parsePrefix` consumes exactly `T` and yields `ne` -/
def PfxOK (pr : Prec) (T : List Tok) (ne : Expr) : Prop :=
  ∀ fuel rest, follow rest = true → 4 * T.length ≤ fuel → parsePrefix pr fuel (T ++ rest) = .ok (ne, rest)

/-- `T` is an expression printed at binding level `L`: in any context `prec ≤ L`, followed by `rest` whose
    first token (if an operator) binds less tightly than `L`, `parseExpr` reads exactly `T` and is then in
    the Pratt loop with `left = ne` (continuation-passing form, so that the loop may go on). -/
def ExprOK (pr : Prec) (L : Nat) (T : List Tok) (ne : Expr) : Prop :=
  ∀ fuel prec rest n (K : P (Expr × List Tok)), follow rest = true → prec ≤ L → stopAt pr L rest →
    (∀ f', n ≤ f' → parseLoop pr f' prec ne rest = K) → 4 * T.length + 1 + n ≤ fuel →
    parseExpr pr fuel prec (T ++ rest) = K

theorem ExprOK.ok {pr : Prec} {L : Nat} {T : List Tok} {ne : Expr} (h : ExprOK pr L T ne)
    (fuel prec : Nat) (rest : List Tok) (hf : follow rest = true) (hp : prec ≤ L) (hs : stopAt pr L rest)
    (hs' : stopAt pr prec rest) (hfuel : 4 * T.length + 2 ≤ fuel) :
    parseExpr pr fuel prec (T ++ rest) = .ok (ne, rest) := by
  refine h fuel prec rest 1 _ hf hp hs ?_ (by omega)
  intro f' hf'
  obtain ⟨f, rfl⟩ : ∃ f, f' = f + 1 := ⟨f' - 1, by omega⟩
  exact loop_stop pr f prec ne rest hs'

theorem ExprOK.mono {pr : Prec} {L L' : Nat} {T : List Tok} {ne : Expr} (h : ExprOK pr L T ne) (hl : L' ≤ L) :
    ExprOK pr L' T ne := by
  intro fuel prec rest n K hf hp hs hK hfuel
  exact h fuel prec rest n K hf (by omega) (stopAt_mono hs hl) hK hfuel

theorem ExprOK.of_pfx {pr : Prec} {T : List Tok} {ne : Expr} (h : PfxOK pr T ne) (L : Nat) :
    ExprOK pr L T ne := by
  intro fuel prec rest n K hf _ _ hK hfuel
  obtain ⟨f, rfl⟩ : ∃ f, fuel = f + 1 := ⟨fuel - 1, by omega⟩
  rw [expr_of_prefix pr f prec _ rest ne (h f rest hf (by omega))]
  exact hK f (by omega)

theorem PfxOK.congr {pr : Prec} {T T' : List Tok} {ne : Expr} (h : PfxOK pr T ne) (e : T' = T) :
    PfxOK pr T' ne := e ▸ h
theorem ExprOK.congr {pr : Prec} {L : Nat} {T T' : List Tok} {ne : Expr} (h : ExprOK pr L T ne) (e : T' = T) :
    ExprOK pr L T' ne := e ▸ h

theorem PfxOK.paren {pr : Prec} {L : Nat} {T : List Tok} {ne : Expr} (h : ExprOK pr L T ne)
    (hl : pr.lowest ≤ L) : PfxOK pr ([.lparen] ++ T ++ [.rparen]) ne := by
  intro fuel rest hf hfuel
  simp only [List.length_append, List.length_cons, List.length_nil] at hfuel
  obtain ⟨f, rfl⟩ : ∃ f, fuel = f + 1 := ⟨fuel - 1, by omega⟩
  have e : [Tok.lparen] ++ T ++ [Tok.rparen] ++ rest = .lparen :: (T ++ (.rparen :: rest)) := by
    simp only [List.append_assoc, List.cons_append, List.nil_append]
  rw [e]
  apply prefix_paren
  exact h.ok f pr.lowest (.rparen :: rest) rfl hl trivial trivial (by omega)

theorem PfxOK.not {pr : Prec} (hp : PrecFacts pr) {T : List Tok} {ne : Expr} (h : PfxOK pr T ne) :
    PfxOK pr (.not :: T) (.not ne) := by
  intro fuel rest hf hfuel
  simp only [List.length_cons] at hfuel
  obtain ⟨f, rfl⟩ : ∃ f, fuel = f + 1 := ⟨fuel - 1, by omega⟩
  rw [List.cons_append]
  apply prefix_not
  exact (ExprOK.of_pfx h pr.prefix_).ok f pr.prefix_ rest hf (Nat.le_refl _) (stopAt_prefix hp rest)
    (stopAt_prefix hp rest) (by omega)

/-- a binary node printed without parentheses -/
theorem ExprOK.bin {pr : Prec} {L Ll Lr : Nat} {Tl Tr : List Tok} {nl nr : Expr} {o : CmpOp}
    (hl : ExprOK pr Ll Tl nl) (hr : ExprOK pr Lr Tr nr)
    (h1 : L ≤ Ll) (h2 : pr.ofOp o < Ll) (h3 : L ≤ pr.ofOp o) (h4 : pr.ofOp o ≤ Lr) :
    ExprOK pr L (Tl ++ [.op o] ++ Tr) (.infix nl o nr) := by
  intro fuel prec rest n K hf hp hs hK hfuel
  simp only [List.length_append, List.length_cons, List.length_nil] at hfuel
  have e : Tl ++ [Tok.op o] ++ Tr ++ rest = Tl ++ (.op o :: (Tr ++ rest)) := by
    simp only [List.append_assoc, List.cons_append, List.nil_append]
  rw [e]
  refine hl fuel prec (.op o :: (Tr ++ rest)) (4 * Tr.length + 3 + n) K rfl (Nat.le_trans hp h1) (stopAt_op h2) ?_ (by omega)
  intro f' hf'
  obtain ⟨f, rfl⟩ : ∃ f, f' = f + 1 := ⟨f' - 1, by omega⟩
  rw [loop_op pr f prec nl nr o (Tr ++ rest) rest (by omega)
    (hr.ok f (pr.ofOp o) rest hf h4 (stopAt_mono hs (by omega)) (stopAt_mono hs h3) (by omega))]
  exact hK f (by omega)

end JP.Lemmas
