/-
  C10 helpers, part 3: shapes of the printed forms; the per-constructor round-trip steps for expressions.
-/
import JP.Lemmas.SurfaceAux2
namespace JP.Lemmas
open JP JP.Query JP.Surface

def isCmp : Expr → Bool
  | .infix _ op _ => !isLogical op
  | _ => false

def lvlP (pr : Prec) (parent : Nat) : Nat :=
  if 4 ≤ parent then pr.ofOp .and + 1 else if 3 ≤ parent then pr.ofOp .and else pr.ofOp .or

/-! ### shapes of the printed forms -/

theorem ptoksE_cmp (l r : Expr) (op : CmpOp) (h : isLogical op = false) :
    ptoksE (.infix l op r) = ptoksOperand l ++ [.op op] ++ ptoksOperand r := by
  simp only [ptoksE, h, Bool.false_eq_true, if_false]

theorem ptoksE_logical (l r : Expr) (op : CmpOp) (h : isLogical op = true) :
    ptoksE (.infix l op r) = [.lparen] ++ (ptoksE l ++ [.op op] ++ ptoksE r) ++ [.rparen] := by
  simp only [ptoksE, h, if_true, List.append_assoc]

theorem ptoksCanon_cmp (p : Nat) (l r : Expr) (op : CmpOp) (h : isLogical op = false) :
    ptoksCanon p (.infix l op r) = ptoksE (.infix l op r) := by
  cases op <;> first | (simp [isLogical] at h; done) | simp only [ptoksCanon]

theorem ptoksCanon_and (p : Nat) (l r : Expr) :
    ptoksCanon p (.infix l .and r) =
      if 4 ≤ p then [.lparen] ++ (ptoksCanon 4 l ++ [.op .and] ++ ptoksCanon 4 r) ++ [.rparen]
      else ptoksCanon 4 l ++ [.op .and] ++ ptoksCanon 4 r := by
  simp only [ptoksCanon, ge_iff_le]

theorem ptoksCanon_or (p : Nat) (l r : Expr) :
    ptoksCanon p (.infix l .or r) =
      if 3 ≤ p then [.lparen] ++ (ptoksCanon 3 l ++ [.op .or] ++ ptoksCanon 3 r) ++ [.rparen]
      else ptoksCanon 3 l ++ [.op .or] ++ ptoksCanon 3 r := by
  simp only [ptoksCanon, ge_iff_le]

theorem ptoksOperand_eq (e : Expr) :
    ptoksOperand e = if isCmp e then [.lparen] ++ ptoksE e ++ [.rparen] else ptoksE e := by
  cases e <;> simp only [ptoksOperand, isCmp, Bool.false_eq_true, if_false]
  case «infix» l op r =>
    by_cases h : isLogical op = true <;> simp [h]

theorem ptoksE_not (e : Expr) :
    ptoksE (.not e) = .not :: (if isCmp e then [.lparen] ++ ptoksE e ++ [.rparen] else ptoksE e) := by
  cases e <;> simp only [ptoksE, isCmp, Bool.false_eq_true, if_false]
  case «infix» l op r =>
    by_cases h : isLogical op = true <;> simp [h]

theorem ptoksCanon_not (p : Nat) (e : Expr) :
    ptoksCanon p (.not e) =
      if 7 < p then [.lparen] ++ (.not :: (if isCmp e then [.lparen] ++ ptoksCanon 7 e ++ [.rparen] else ptoksCanon 7 e)) ++ [.rparen]
      else .not :: (if isCmp e then [.lparen] ++ ptoksCanon 7 e ++ [.rparen] else ptoksCanon 7 e) := by
  cases e <;> simp only [ptoksCanon, isCmp, Bool.false_eq_true, if_false, gt_iff_lt]
  case «infix» l op r =>
    by_cases h : isLogical op = true <;> simp [h]


theorem lvlP_le (pr : Prec) (hp : PrecFacts pr) (p : Nat) : lvlP pr p ≤ pr.ofOp .and + 1 := by
  have := hp.or_and
  unfold lvlP; split
  · omega
  · split <;> omega

theorem lvlP_ge4 (pr : Prec) (p : Nat) (h : 4 ≤ p) : lvlP pr p = pr.ofOp .and + 1 := by
  unfold lvlP; rw [if_pos h]

theorem lvlP_lt4 (pr : Prec) (hp : PrecFacts pr) (p : Nat) (h : ¬ 4 ≤ p) : lvlP pr p ≤ pr.ofOp .and := by
  have := hp.or_and
  unfold lvlP; rw [if_neg h]; split <;> omega

theorem lvlP_lt3 (pr : Prec) (p : Nat) (h : ¬ 3 ≤ p) : lvlP pr p = pr.ofOp .or := by
  unfold lvlP; rw [if_neg (by omega), if_neg h]

/-- everything the round trip needs of one expression: its three printed forms parse back -/
def AllOK (pr : Prec) (e : Expr) : Prop :=
  (isCmp e = false → PfxOK pr (ptoksE e) (normE e)) ∧
  ExprOK pr (pr.ofOp .and + 1) (ptoksE e) (normE e) ∧
  (∀ parent, 4 ≤ parent → isCmp e = false → PfxOK pr (ptoksCanon parent e) (normE e)) ∧
  (∀ parent, ExprOK pr (lvlP pr parent) (ptoksCanon parent e) (normE e))

theorem AllOK.of_atom {pr : Prec} {e : Expr} (hE : PfxOK pr (ptoksE e) (normE e))
    (hc : ∀ p, ptoksCanon p e = ptoksE e) : AllOK pr e :=
  ⟨fun _ => hE, ExprOK.of_pfx hE _, fun p _ _ => (hc p) ▸ hE, fun p => (hc p) ▸ ExprOK.of_pfx hE _⟩

theorem pfx_tok (pr : Prec) (t : Tok) (e : Expr)
    (h : ∀ f rest, parsePrefix pr (f + 1) (t :: rest) = .ok (e, rest)) : PfxOK pr [t] e := by
  intro fuel rest _ hfuel
  simp only [List.length_cons, List.length_nil] at hfuel
  obtain ⟨f, rfl⟩ : ∃ f, fuel = f + 1 := ⟨fuel - 1, by omega⟩
  exact h f rest

theorem AllOK.nil (pr : Prec) : AllOK pr .nil := by
  refine AllOK.of_atom ?_ (fun p => by simp only [ptoksCanon])
  simp only [ptoksE, normE]
  exact pfx_tok pr _ _ (fun f rest => by simp only [parsePrefix]; rfl)
theorem AllOK.undefined (pr : Prec) : AllOK pr .undefined := by
  refine AllOK.of_atom ?_ (fun p => by simp only [ptoksCanon])
  simp only [ptoksE, normE]
  exact pfx_tok pr _ _ (fun f rest => by simp only [parsePrefix]; rfl)
theorem AllOK.bool (pr : Prec) (b : Bool) : AllOK pr (.bool b) := by
  refine AllOK.of_atom ?_ (fun p => by simp only [ptoksCanon])
  simp only [ptoksE, normE]
  cases b
  · exact pfx_tok pr _ _ (fun f rest => by simp only [Bool.false_eq_true, if_false, parsePrefix]; rfl)
  · exact pfx_tok pr _ _ (fun f rest => by simp only [if_true, parsePrefix]; rfl)
theorem AllOK.int (pr : Prec) (i : Int) : AllOK pr (.int i) := by
  refine AllOK.of_atom ?_ (fun p => by simp only [ptoksCanon])
  simp only [ptoksE, normE]
  exact pfx_tok pr _ _ (fun f rest => by simp only [parsePrefix]; rfl)
theorem AllOK.flt (pr : Prec) (i : Int) : AllOK pr (.flt i) := by
  refine AllOK.of_atom ?_ (fun p => by simp only [ptoksCanon])
  simp only [ptoksE, normE]
  exact pfx_tok pr _ _ (fun f rest => by simp only [parsePrefix]; rfl)
theorem AllOK.str (pr : Prec) (s : Str) : AllOK pr (.str s) := by
  refine AllOK.of_atom ?_ (fun p => by simp only [ptoksCanon])
  simp only [ptoksE, normE]
  exact pfx_tok pr _ _ (fun f rest => by simp only [parsePrefix]; rfl)
theorem AllOK.regex (pr : Prec) (s t : Str) : AllOK pr (.regex s t) := by
  refine AllOK.of_atom ?_ (fun p => by simp only [ptoksCanon])
  simp only [ptoksE, normE]
  exact pfx_tok pr _ _ (fun f rest => by simp only [parsePrefix]; rfl)
theorem AllOK.key (pr : Prec) : AllOK pr .key := by
  refine AllOK.of_atom ?_ (fun p => by simp only [ptoksCanon])
  simp only [ptoksE, normE]
  exact pfx_tok pr _ _ (fun f rest => by simp only [parsePrefix]; rfl)

theorem AllOK.operand {pr : Prec} (hp : PrecFacts pr) {e : Expr} (h : AllOK pr e) :
    PfxOK pr (ptoksOperand e) (normE e) := by
  rw [ptoksOperand_eq]
  by_cases hc : isCmp e = true
  · rw [if_pos hc]
    have := hp.lo_op .and
    exact PfxOK.paren h.2.1 (by omega)
  · rw [if_neg hc]
    exact h.1 (by simpa using hc)

theorem AllOK.not {pr : Prec} (hp : PrecFacts pr) {e : Expr} (h : AllOK pr e) : AllOK pr (.not e) := by
  have hlo := hp.lo_op .and
  have hn : normE (.not e) = .not (normE e) := by simp only [normE]
  have hE : PfxOK pr (ptoksE (.not e)) (normE (.not e)) := by
    rw [ptoksE_not, hn]
    by_cases hc : isCmp e = true
    · rw [if_pos hc]; exact PfxOK.not hp (PfxOK.paren h.2.1 (by omega))
    · rw [if_neg hc]; exact PfxOK.not hp (h.1 (by simpa using hc))
  have hC : ∀ p, PfxOK pr (ptoksCanon p (.not e)) (normE (.not e)) := by
    intro p
    rw [ptoksCanon_not, hn]
    have inner : PfxOK pr (.not :: (if isCmp e then [.lparen] ++ ptoksCanon 7 e ++ [.rparen] else ptoksCanon 7 e))
        (.not (normE e)) := by
      by_cases hc : isCmp e = true
      · rw [if_pos hc]
        refine PfxOK.not hp (PfxOK.paren (h.2.2.2 7) ?_)
        rw [lvlP_ge4 pr 7 (by omega)]; omega
      · rw [if_neg hc]; exact PfxOK.not hp (h.2.2.1 7 (by omega) (by simpa using hc))
    by_cases h7 : 7 < p
    · rw [if_pos h7]; exact PfxOK.paren (ExprOK.of_pfx inner pr.lowest) (Nat.le_refl _)
    · rw [if_neg h7]; exact inner
  exact ⟨fun _ => hE, ExprOK.of_pfx hE _, fun p _ _ => hC p, fun p => ExprOK.of_pfx (hC p) _⟩

theorem AllOK.cmp {pr : Prec} (hp : PrecFacts pr) {l r : Expr} {op : CmpOp} (ho : isLogical op = false)
    (hl : AllOK pr l) (hr : AllOK pr r) : AllOK pr (.infix l op r) := by
  have hn : normE (.infix l op r) = .infix (normE l) op (normE r) := by simp only [normE]
  have hc : isCmp (.infix l op r) = true := by simp only [isCmp, ho, Bool.not_false]
  have h1 := hp.and_cmp op ho
  have h2 := hp.op_pre op
  have hX : ExprOK pr (pr.ofOp .and + 1) (ptoksE (.infix l op r)) (normE (.infix l op r)) := by
    rw [ptoksE_cmp l r op ho, hn]
    exact ExprOK.bin (ExprOK.of_pfx (hl.operand hp) pr.prefix_) (ExprOK.of_pfx (hr.operand hp) pr.prefix_)
      (by omega) h2 (by omega) (by omega)
  refine ⟨fun h => (by rw [hc] at h; cases h), hX, fun p _ h => (by rw [hc] at h; cases h), fun p => ?_⟩
  rw [ptoksCanon_cmp p l r op ho]
  exact hX.mono (lvlP_le pr hp p)

/-- `str(l op r)` for a logical operator: always parenthesised -/
theorem pfx_logicalE {pr : Prec} (hp : PrecFacts pr) {l r : Expr} {op : CmpOp} (ho : isLogical op = true)
    (hl : AllOK pr l) (hr : AllOK pr r) : PfxOK pr (ptoksE (.infix l op r)) (normE (.infix l op r)) := by
  have hn : normE (.infix l op r) = .infix (normE l) op (normE r) := by simp only [normE]
  have h1 := hp.logical_le_and op ho
  have h2 := hp.lo_op op
  rw [ptoksE_logical l r op ho, hn]
  refine PfxOK.paren (L := pr.lowest) ?_ (Nat.le_refl _)
  exact ExprOK.bin hl.2.1 hr.2.1 (by omega) (by omega) h2 (by omega)

theorem AllOK.and {pr : Prec} (hp : PrecFacts pr) {l r : Expr}
    (hl : AllOK pr l) (hr : AllOK pr r) : AllOK pr (.infix l .and r) := by
  have hn : normE (.infix l .and r) = .infix (normE l) .and (normE r) := by simp only [normE]
  have hE := pfx_logicalE hp (op := .and) rfl hl hr
  have h1 := hp.lo_or
  have h2 := hp.or_and
  have inner : ExprOK pr (pr.ofOp .and) (ptoksCanon 4 l ++ [.op .and] ++ ptoksCanon 4 r)
      (.infix (normE l) .and (normE r)) := by
    have a := hl.2.2.2 4
    have b := hr.2.2.2 4
    rw [lvlP_ge4 pr 4 (Nat.le_refl _)] at a b
    exact ExprOK.bin a b (by omega) (by omega) (by omega) (by omega)
  have hC : ∀ p, 4 ≤ p → PfxOK pr (ptoksCanon p (.infix l .and r)) (normE (.infix l .and r)) := by
    intro p h4
    rw [ptoksCanon_and, if_pos h4, hn]
    exact PfxOK.paren inner (by omega)
  refine ⟨fun _ => hE, ExprOK.of_pfx hE _, fun p h4 _ => hC p h4, fun p => ?_⟩
  by_cases h4 : 4 ≤ p
  · exact ExprOK.of_pfx (hC p h4) _
  · rw [ptoksCanon_and, if_neg h4, hn]
    exact inner.mono (lvlP_lt4 pr hp p h4)

theorem AllOK.or {pr : Prec} (hp : PrecFacts pr) {l r : Expr}
    (hl : AllOK pr l) (hr : AllOK pr r) : AllOK pr (.infix l .or r) := by
  have hn : normE (.infix l .or r) = .infix (normE l) .or (normE r) := by simp only [normE]
  have hE := pfx_logicalE hp (op := .or) rfl hl hr
  have h1 := hp.lo_or
  have h2 := hp.or_and
  have inner : ExprOK pr (pr.ofOp .or) (ptoksCanon 3 l ++ [.op .or] ++ ptoksCanon 3 r)
      (.infix (normE l) .or (normE r)) := by
    have a := hl.2.2.2 3
    have b := hr.2.2.2 3
    have e3 : lvlP pr 3 = pr.ofOp .and := by unfold lvlP; rw [if_neg (by omega), if_pos (by omega)]
    rw [e3] at a b
    exact ExprOK.bin a b (by omega) (by omega) (by omega) (by omega)
  have hC : ∀ p, 3 ≤ p → PfxOK pr (ptoksCanon p (.infix l .or r)) (normE (.infix l .or r)) := by
    intro p h3
    rw [ptoksCanon_or, if_pos h3, hn]
    exact PfxOK.paren inner (by omega)
  refine ⟨fun _ => hE, ExprOK.of_pfx hE _, fun p h4 _ => hC p (by omega), fun p => ?_⟩
  by_cases h3 : 3 ≤ p
  · exact ExprOK.of_pfx (hC p h3) _
  · rw [ptoksCanon_or, if_neg h3, hn, lvlP_lt3 pr p h3]
    exact inner

theorem AllOK.infix {pr : Prec} (hp : PrecFacts pr) {l r : Expr} (op : CmpOp)
    (hl : AllOK pr l) (hr : AllOK pr r) : AllOK pr (.infix l op r) := by
  cases op
  case and => exact AllOK.and hp hl hr
  case or => exact AllOK.or hp hl hr
  all_goals exact AllOK.cmp hp rfl hl hr

end JP.Lemmas
