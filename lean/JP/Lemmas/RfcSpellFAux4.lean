/-
  RfcSpellF helpers, part 4: RFC 9535 number literals — their shape, and the lexer on them.
-/
import JP.Lemmas.RfcSpellFAux3
set_option linter.unusedSimpArgs false
namespace JP.Lemmas.RfcSpellF
open JP JP.Query JP.Surface JP.Lex JP.RfcSpell JP.RfcSpellF JP.Lemmas.LexPrint JP.Lemmas.RfcSpell

/-! ### exponents -/

/-- `("e" / "E") ["+" / "-"] 1*DIGIT` -/
inductive ExpText : Str → Prop
  | mk (e : Char) (sg ds : Str) (he : e = 'e' ∨ e = 'E') (hsg : sg = [] ∨ sg = ['+'] ∨ sg = ['-'])
      (hne : ds ≠ []) (hds : ds.all Char.isDigit = true) : ExpText (e :: (sg ++ ds))

theorem digit_ne {c : Char} (h : c.isDigit = true) : c ≠ '+' ∧ c ≠ '-' ∧ c ≠ 'e' ∧ c ≠ 'E' ∧ c ≠ '.' := by
  have hb := digit_toNat_bounds h
  refine ⟨toNat_ne ?_, toNat_ne ?_, toNat_ne ?_, toNat_ne ?_, toNat_ne ?_⟩ <;> (simp; omega)

theorem optExp_expText {ex : Str} (h : ExpText ex) (rest : Str) (hr : stops Char.isDigit rest = true) :
    optExp (ex ++ rest) = (ex, rest) := by
  cases h with
  | mk e sg ds he hsg hne hds =>
    obtain ⟨d0, ds', rfl⟩ : ∃ d0 ds', ds = d0 :: ds' := by
      cases ds with
      | nil => exact absurd rfl hne
      | cons a b => exact ⟨a, b, rfl⟩
    have hd0 : d0.isDigit = true := by simp only [List.all_cons, Bool.and_eq_true] at hds; exact hds.1
    obtain ⟨n1, n2, _, _, _⟩ := digit_ne hd0
    have hsp : (d0 :: (ds' ++ rest)).span Char.isDigit = (d0 :: ds', rest) := span_stops _ _ _ hds hr
    rcases hsg with rfl | rfl | rfl <;> rcases he with rfl | rfl <;>
      simp [optExp, hsp, n1, n2]

theorem optExp_none {rest : Str} (h : ∀ c t, rest = c :: t → c ≠ 'e' ∧ c ≠ 'E') : optExp rest = ([], rest) := by
  cases rest with
  | nil => rfl
  | cons c t =>
    obtain ⟨h1, h2⟩ := h c t rfl
    simp [optExp, h1, h2]

theorem all_of_takeWhile_eq {p : Char → Bool} {l : Str} (h : l.takeWhile p = l) : l.all p = true := by
  rw [← h]; exact List.all_takeWhile

theorem expText_of_optExp {r : Str} (h : ((optExp r).1 == r) = true) (hne : r ≠ []) : ExpText r := by
  cases r with
  | nil => exact absurd rfl hne
  | cons e cs =>
    unfold optExp at h
    by_cases he : (e == 'e' || e == 'E') = true
    · have he' : e = 'e' ∨ e = 'E' := by simpa using he
      simp only [he, if_true] at h
      cases cs with
      | nil => simp at h
      | cons sg ds =>
        by_cases hs : (sg == '+' || sg == '-') = true
        · have hs' : sg = '+' ∨ sg = '-' := by simpa using hs
          simp only [hs, if_true, span_eq] at h
          by_cases hd : (ds.takeWhile Char.isDigit).isEmpty = true
          · simp [hd] at h
          · simp only [hd, Bool.false_eq_true, if_false, beq_iff_eq, List.cons.injEq, true_and] at h
            have hall := all_of_takeWhile_eq h
            have hne' : ds ≠ [] := by
              rintro rfl
              simp at hd
            rcases hs' with rfl | rfl
            · exact ExpText.mk e ['+'] ds he' (.inr (.inl rfl)) hne' hall
            · exact ExpText.mk e ['-'] ds he' (.inr (.inr rfl)) hne' hall
        · simp only [hs, Bool.false_eq_true, if_false, span_eq] at h
          by_cases hd : ((sg :: ds).takeWhile Char.isDigit).isEmpty = true
          · simp [hd] at h
          · simp only [hd, Bool.false_eq_true, if_false, beq_iff_eq, List.cons.injEq, true_and] at h
            have hall := all_of_takeWhile_eq h
            exact ExpText.mk e [] (sg :: ds) he' (.inl rfl) (by simp) hall
    · simp only [he, Bool.false_eq_true, if_false] at h
      simp at h

/-! ### the shape of a number literal -/

theorem rfcNumber_shape {w : Str} (h : isRfcNumber w = true) :
    ∃ iw fr ex, w = iw ++ (fr ++ ex) ∧ IntText iw ∧
      (fr = [] ∨ ∃ f, fr = '.' :: f ∧ f ≠ [] ∧ f.all Char.isDigit = true) ∧ (ex = [] ∨ ExpText ex) := by
  obtain ⟨sg, r0, hs, hw, hsg⟩ : ∃ sg r0, optSign w = (sg, r0) ∧ w = sg ++ r0 ∧ (sg = [] ∨ sg = ['-']) := by
    unfold optSign
    split
    · exact ⟨_, _, rfl, rfl, .inr rfl⟩
    · exact ⟨_, _, rfl, rfl, .inl rfl⟩
  have hsplit : r0.takeWhile Char.isDigit ++ r0.dropWhile Char.isDigit = r0 := List.takeWhile_append_dropWhile
  have hdig : (r0.takeWhile Char.isDigit).all Char.isDigit = true := List.all_takeWhile
  unfold isRfcNumber at h
  simp only [hs, span_eq] at h
  generalize r0.takeWhile Char.isDigit = d at h hsplit hdig
  generalize r0.dropWhile Char.isDigit = r1 at h hsplit
  have hint : (!d.isEmpty && (d == ['0'] || d.head? != some '0') && (sg.isEmpty || sg == ['-'])) = true →
      IntText (sg ++ d) := by
    intro hi
    simp only [Bool.and_eq_true, Bool.not_eq_true'] at hi
    cases d with
    | nil => simp at hi
    | cons c ds =>
      simp only [List.all_cons, Bool.and_eq_true] at hdig
      rcases hsg with rfl | rfl
      · exact .pos c ds hdig.1 hdig.2
      · exact .neg c ds hdig.1 hdig.2
  subst hw
  rw [← hsplit]
  split at h
  · -- no fraction, no exponent
    exact ⟨sg ++ d, [], [], by simp, hint h, .inl rfl, .inl rfl⟩
  · -- a fraction
    rename_i r2
    simp only [span_eq, Bool.and_eq_true, Bool.not_eq_true', Bool.or_eq_true] at h
    obtain ⟨⟨hi, hf⟩, hx⟩ := h
    have hfd : (r2.takeWhile Char.isDigit).all Char.isDigit = true := List.all_takeWhile
    have hr2 : r2.takeWhile Char.isDigit ++ r2.dropWhile Char.isDigit = r2 := List.takeWhile_append_dropWhile
    refine ⟨sg ++ d, '.' :: r2.takeWhile Char.isDigit, r2.dropWhile Char.isDigit, ?_, hint (by simpa using hi),
      .inr ⟨_, rfl, ?_, hfd⟩, ?_⟩
    · simp [hr2]
    · intro e; rw [e] at hf; simp at hf
    · rcases hx with hx | hx
      · left; simpa using hx
      · right
        exact expText_of_optExp hx.1 (by intro e; rw [e] at hx; simp at hx)
  · -- an exponent only
    rename_i hn1 hn2
    rw [Bool.and_eq_true] at h
    have hne : r1 ≠ [] := fun e => hn1 e
    exact ⟨sg ++ d, [], r1, by simp, hint h.1, .inl rfl, .inr (expText_of_optExp h.2 hne)⟩

end JP.Lemmas.RfcSpellF
