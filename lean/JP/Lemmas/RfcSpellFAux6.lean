/-
  RfcSpellF helpers, part 6: one step of the grammar at a time — what each production contributes to the
  token list, to the parser and to the lexer (expressions).
-/
import JP.Lemmas.RfcSpellFAux5
set_option linter.unusedSimpArgs false
namespace JP.Lemmas.RfcSpellF
open JP JP.Query JP.Surface JP.Lex JP.RfcSpell JP.RfcSpellF JP.Lemmas.LexPrint JP.Lemmas.RfcSpell

/-- the text `w`, in front of blanks and a delimiter, is read as the tokens `T` -/
def LexOK (uw : Char → Bool) (w : Str) (T : List Tok) : Prop :=
  ∀ rest cs, Fol rest → Tokz uw rest cs → Tokz uw (w ++ rest) (T.map CTok.tok ++ cs)

/-- an expression of binding level `L`: tokens, parser, first character, lexer -/
def EX (pr : Prec) (uw : Char → Bool) (L : Nat) (e : Expr) (w : Str) : Prop :=
  ∃ T, ExprOK pr L T e ∧ Hd w T ∧ LexOK uw w T

/-- a prefix item -/
def PX (pr : Prec) (uw : Char → Bool) (e : Expr) (w : Str) : Prop :=
  ∃ T, PfxOK pr T e ∧ Hd w T ∧ LexOK uw w T

theorem PX.ex {pr : Prec} {uw : Char → Bool} {e : Expr} {w : Str} (h : PX pr uw e w) (L : Nat) : EX pr uw L e w := by
  obtain ⟨T, h1, h2, h3⟩ := h
  exact ⟨T, ExprOK.of_pfx h1 L, h2, h3⟩

theorem EX.mono {pr : Prec} {uw : Char → Bool} {L L' : Nat} {e : Expr} {w : Str} (h : EX pr uw L e w) (hl : L' ≤ L) :
    EX pr uw L' e w := by
  obtain ⟨T, h1, h2, h3⟩ := h
  exact ⟨T, h1.mono hl, h2, h3⟩

/-! ### literals -/

theorem number_hd {w : Str} (h : isRfcNumber w = true) (t : Tok) (ht : tokOK '0' t = true)
    (ht' : ∀ c, tokOK c t = tokOK '0' t) : Hd w [t] := by
  obtain ⟨iw, fr, ex, rfl, hw, _, _⟩ := rfcNumber_shape h
  obtain ⟨c, u, rfl, hc⟩ := intText_head hw
  refine hd_mk c _ t [] ?_
  obtain ⟨_, _, _, _, _, f6, f7⟩ := intHead_facts hc
  have f8 : c ≠ '=' ∧ c ≠ '>' := by
    rcases hc with hd | rfl
    · have hb := digit_toNat_bounds hd
      exact ⟨toNat_ne (by simp; omega), toNat_ne (by simp; omega)⟩
    · exact ⟨by decide, by decide⟩
  simp [hdOK, f6, f7, f8.1, f8.2, ht' c, ht]

theorem lit_ok (pr : Prec) (uw : Char → Bool) {e : Expr} {w : Str} (h : LitSpell e w) :
    ∃ t, PfxOK pr [t] e ∧ Hd w [t] ∧ LexOK uw w [t] ∧ argTok t = true := by
  cases h with
  | num e w h =>
    cases h with
    | int w i hw hk hv =>
      refine ⟨.int i, pfx_lit pr _ _ rfl, number_hd hw _ rfl (fun _ => rfl), ?_, rfl⟩
      intro rest cs hf ht
      have := fm_number uw hw (numFol_of_fol uw hf)
      rw [hk] at this
      exact tokz_step this (cook_int hv) ht
    | flt w m hw hk hv =>
      refine ⟨.flt m, pfx_lit pr _ _ rfl, number_hd hw _ rfl (fun _ => rfl), ?_, rfl⟩
      intro rest cs hf ht
      have := fm_number uw hw (numFol_of_fol uw hf)
      rw [hk] at this
      exact tokz_step this (cook_flt hv) ht
  | strSQ s w h =>
    refine ⟨.str s, pfx_lit pr _ _ rfl, hd_mk _ _ _ _ rfl, ?_, rfl⟩
    intro rest cs _ ht
    have := tokz_sq uw s w h ht
    simpa [List.append_assoc] using this
  | strDQ s w h =>
    refine ⟨.str s, pfx_lit pr _ _ rfl, hd_mk _ _ _ _ rfl, ?_, rfl⟩
    intro rest cs _ ht
    have := tokz_dq uw s w h ht
    simpa [List.append_assoc] using this
  | true_ =>
    refine ⟨.true_, pfx_lit pr _ _ rfl, hd_mk 't' _ _ _ (by decide), ?_, rfl⟩
    intro rest cs hf ht
    exact tokz_step (fm_true uw rest (fol_head hf)) cook_true ht
  | false_ =>
    refine ⟨.false_, pfx_lit pr _ _ rfl, hd_mk 'f' _ _ _ (by decide), ?_, rfl⟩
    intro rest cs hf ht
    exact tokz_step (fm_false uw rest (fol_head hf)) cook_false ht
  | null =>
    refine ⟨.nil, pfx_lit pr _ _ rfl, hd_mk 'n' _ _ _ (by decide), ?_, rfl⟩
    intro rest cs hf ht
    exact tokz_step (fm_null uw rest (fol_head hf)) cook_nil ht

theorem px_lit (pr : Prec) (uw : Char → Bool) {e : Expr} {w : Str} (h : LitSpell e w) : PX pr uw e w := by
  obtain ⟨t, h1, h2, h3, _⟩ := lit_ok pr uw h
  exact ⟨[t], h1, h2, h3⟩

/-! ### `!` and parentheses -/

theorem px_not {pr : Prec} (hp : PrecFacts pr) {uw : Char → Bool} {e : Expr} {w s : Str} (h : PX pr uw e w)
    (hs : isS s = true) : PX pr uw (.not e) ('!' :: s ++ w) := by
  obtain ⟨T, h1, h2, h3⟩ := h
  refine ⟨.not :: T, PfxOK.not hp h1, hd_mk '!' _ _ _ (by decide), ?_⟩
  intro rest cs hf ht
  have a1 := h3 rest cs hf ht
  have a2 := tokz_skip' hs (hd_nb h2 rest) a1
  have a3 := tokz_bang (opFol_blanks hs (hd_opFol h2 rest)) a2
  simpa [List.append_assoc] using a3

theorem px_notPrefix {pr : Prec} (hp : PrecFacts pr) {uw : Char → Bool} {e e' : Expr} {n w : Str}
    (hn : NotPrefix e e' n) (h : PX pr uw e w) : PX pr uw e' (n ++ w) := by
  cases hn with
  | none => simpa using h
  | some s hs => simpa using px_not hp h hs

theorem px_paren {pr : Prec} (hp : PrecFacts pr) {uw : Char → Bool} {e : Expr} {w s1 s2 : Str}
    (h : EX pr uw (pr.ofOp .or) e w) (h1 : isS s1 = true) (h2 : isS s2 = true) :
    PX pr uw e ('(' :: s1 ++ w ++ s2 ++ [')']) := by
  obtain ⟨T, hT, hh, hl⟩ := h
  refine ⟨.lparen :: (T ++ [.rparen]), pfx_paren' hp hT, hd_mk '(' _ _ _ (by decide), ?_⟩
  intro rest cs _ ht
  have a1 := Tokz.char (emit_rparen uw) (rfl : anyS rest = true) ht
  have a2 := hl (s2 ++ ')' :: rest) _ (fol_blanks h2 rfl) (tokz_fol h2 rfl a1)
  have a3 := tokz_skip' h1 (hd_nb hh _) a2
  have a4 := Tokz.char (emit_lparen uw) (rfl : anyS _ = true) a3
  simpa [List.append_assoc] using a4

theorem ex_paren {pr : Prec} (hp : PrecFacts pr) {uw : Char → Bool} {e e' : Expr} {n w s1 s2 : Str}
    (hn : NotPrefix e e' n) (h : EX pr uw (pr.ofOp .or) e w) (h1 : isS s1 = true) (h2 : isS s2 = true) :
    EX pr uw (pr.ofOp .and + 1) e' (n ++ '(' :: s1 ++ w ++ s2 ++ [')']) := by
  have := px_notPrefix hp hn (px_paren hp h h1 h2)
  exact (by simpa [List.append_assoc] using this : PX pr uw e' (n ++ '(' :: s1 ++ w ++ s2 ++ [')'])).ex _

theorem ex_test {pr : Prec} (hp : PrecFacts pr) {uw : Char → Bool} {e e' : Expr} {n w : Str}
    (hn : NotPrefix e e' n) (h : PX pr uw e w) : EX pr uw (pr.ofOp .and + 1) e' (n ++ w) :=
  (px_notPrefix hp hn h).ex _

/-! ### binary operators -/

theorem ex_cmp {pr : Prec} (hp : PrecFacts pr) {uw : Char → Bool} {l r : Expr} {op : CmpOp} {o wl wr s1 s2 : Str}
    (ho : cmpOpText op = some o) (hl : PX pr uw l wl) (hr : PX pr uw r wr) (h1 : isS s1 = true) (h2 : isS s2 = true) :
    EX pr uw (pr.ofOp .and + 1) (.infix l op r) (wl ++ s1 ++ o ++ s2 ++ wr) := by
  obtain ⟨Tl, pl, dl, ll⟩ := hl
  obtain ⟨Tr, pr', dr, lr⟩ := hr
  refine ⟨Tl ++ [.op op] ++ Tr, expr_cmp hp (cmpOp_notLogical ho) pl pr', ?_, ?_⟩
  · have := hd_append dl (s1 ++ o ++ s2 ++ wr) ([.op op] ++ Tr)
    simpa [List.append_assoc] using this
  · intro rest cs hf ht
    have a1 := lr rest cs hf ht
    have a2 := tokz_skip' h2 (hd_nb dr rest) a1
    have a3 := tokz_cmpop ho (opFol_blanks h2 (hd_opFol dr rest)) a2
    have a4 := ll (s1 ++ (o ++ (s2 ++ (wr ++ rest)))) _ (fol_blanks h1 (cmpOp_dlm ho _))
      (tokz_fol h1 (cmpOp_dlm ho _) a3)
    simpa [List.append_assoc] using a4

theorem ex_and {pr : Prec} (hp : PrecFacts pr) {uw : Char → Bool} {l r : Expr} {wl wr s1 s2 : Str}
    (hl : EX pr uw (pr.ofOp .and + 1) l wl) (hr : EX pr uw (pr.ofOp .and) r wr) (h1 : isS s1 = true)
    (h2 : isS s2 = true) : EX pr uw (pr.ofOp .and) (.infix l .and r) (wl ++ s1 ++ '&' :: '&' :: s2 ++ wr) := by
  obtain ⟨Tl, pl, dl, ll⟩ := hl
  obtain ⟨Tr, pr', dr, lr⟩ := hr
  refine ⟨Tl ++ [.op .and] ++ Tr, expr_and hp pl pr', ?_, ?_⟩
  · have := hd_append dl (s1 ++ '&' :: '&' :: s2 ++ wr) ([.op .and] ++ Tr)
    simpa [List.append_assoc] using this
  · intro rest cs hf ht
    have a1 := lr rest cs hf ht
    have a2 := tokz_skip' h2 (hd_nb dr rest) a1
    have a3 := tokz_and a2
    have a4 := ll (s1 ++ '&' :: '&' :: (s2 ++ (wr ++ rest))) _ (fol_blanks h1 rfl) (tokz_fol h1 rfl a3)
    simpa [List.append_assoc] using a4

theorem ex_or {pr : Prec} (hp : PrecFacts pr) {uw : Char → Bool} {l r : Expr} {wl wr s1 s2 : Str}
    (hl : EX pr uw (pr.ofOp .and) l wl) (hr : EX pr uw (pr.ofOp .or) r wr) (h1 : isS s1 = true)
    (h2 : isS s2 = true) : EX pr uw (pr.ofOp .or) (.infix l .or r) (wl ++ s1 ++ '|' :: '|' :: s2 ++ wr) := by
  obtain ⟨Tl, pl, dl, ll⟩ := hl
  obtain ⟨Tr, pr', dr, lr⟩ := hr
  refine ⟨Tl ++ [.op .or] ++ Tr, expr_or hp pl pr', ?_, ?_⟩
  · have := hd_append dl (s1 ++ '|' :: '|' :: s2 ++ wr) ([.op .or] ++ Tr)
    simpa [List.append_assoc] using this
  · intro rest cs hf ht
    have a1 := lr rest cs hf ht
    have a2 := tokz_skip' h2 (hd_nb dr rest) a1
    have a3 := tokz_or a2
    have a4 := ll (s1 ++ '|' :: '|' :: (s2 ++ (wr ++ rest))) _ (fol_blanks h1 rfl) (tokz_fol h1 rfl a3)
    simpa [List.append_assoc] using a4

end JP.Lemmas.RfcSpellF
