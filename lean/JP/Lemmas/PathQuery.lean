/-
  A match's normalized path, read as a query: it compiles (lexer, literal decoding, parser) to the
  singular query that walks the match's location, and that query selects exactly the match's node.
  Also: every match of a standard well-typed query (filters included) carries a location of the document.
-/
import JP.Lemmas.Locate
import JP.Lemmas.Lex
import JP.Lemmas.Filter
import JP.Lemmas.PathQueryAux1
namespace JP.Lemmas
open JP JP.Query JP.Surface JP.Lex

/-- the singular query that walks a location: one name / index segment per step -/
def segsOfLoc (loc : List Rfc.LStep) : List Seg :=
  loc.map fun
    | .name k => Seg.child [.name k]
    | .index n => Seg.child [.index (n : Int)]

/-- No `.index n` step of the walk along `loc` is applied to an object that has a member whose name is
    the decimal spelling of `n`. (Documented departure of the library: an index selector applied to an
    object selects that member, so such a location, which does not exist in the RFC sense, would still be
    selected by the singular query.) Nothing is required where the location leaves the document. -/
def noIndexOnObject : J → List Rfc.LStep → Bool
  | .obj kvs, .index n :: _ => !dictHas kvs (natStr n)
  | .obj kvs, .name k :: rest =>
    match dictGet kvs k with
    | some c => noIndexOnObject c rest
    | none => true
  | .arr xs, .index n :: rest =>
    match xs[n]? with
    | some c => noIndexOnObject c rest
    | none => true
  | _, _ => true

namespace PathQuery

theorem segsOfLoc_eq (loc : List Rfc.LStep) : segsOfLoc loc = segsOf loc := by
  unfold segsOfLoc segsOf
  apply List.map_congr_left
  intro s _
  cases s <;> rfl

theorem noIndexOnObject_eq : ∀ (loc : List Rfc.LStep) (doc : J),
    JP.Lemmas.noIndexOnObject doc loc = PathQuery.noIndexOnObject doc loc
  | [], doc => by cases doc <;> simp [JP.Lemmas.noIndexOnObject, PathQuery.noIndexOnObject]
  | .name k :: rest, doc => by
    cases doc <;> simp [JP.Lemmas.noIndexOnObject, PathQuery.noIndexOnObject]
    rename_i kvs
    cases dictGet kvs k with
    | none => rfl
    | some c => exact noIndexOnObject_eq rest c
  | .index n :: rest, doc => by
    cases doc <;> simp [JP.Lemmas.noIndexOnObject, PathQuery.noIndexOnObject]
    rename_i xs
    cases xs[n]? with
    | none => rfl
    | some c => exact noIndexOnObject_eq rest c

end PathQuery

/-- an RFC 9535 normalized path is exactly what the serializer prints for that singular query -/
theorem normalizedPath_eq_pstr (loc : List Rfc.LStep) :
    Rfc.normalizedPath loc = pstrPath dflt ⟨segsOfLoc loc, false⟩ := by
  rw [PathQuery.segsOfLoc_eq]; exact PathQuery.normalizedPath_eq_pstr_aux loc

/-- the normalized path of any location compiles (character-level lexer, literal decoding, parser model)
    to the singular query of that location -/
theorem normalizedPath_compiles (pr : Prec) (hpr : precOK pr = true) (uw : Char → Bool) (loc : List Rfc.LStep) :
    compileText pr ⟨dflt, uw⟩ (Rfc.normalizedPath loc) = some ⟨segsOfLoc loc, false⟩ := by
  rw [PathQuery.segsOfLoc_eq]; exact PathQuery.normalizedPath_compiles_aux pr hpr uw loc

/-- that query selects exactly the node at the location: one match, with the location's parts, its
    normalized path and the document's value there -/
theorem segsOfLoc_selects (rx : Rx) (doc extra v : J) (loc : List Rfc.LStep) (hwf : doc.wf = true)
    (h : locValue doc loc = some v) :
    finditer rx ⟨segsOfLoc loc, false⟩ doc extra = [⟨locParts loc, Rfc.normalizedPath loc, v⟩] := by
  have _ := hwf
  have := PathQuery.evalSegs_segsOf { rx := rx, root := doc, extra := extra } v loc [] ['$'] doc h
  rw [PathQuery.segsOfLoc_eq]
  simpa [finditer, Rfc.normalizedPath] using this

/-- … and nothing when the location does not exist — provided the walk never applies an index step to
    an object that has a member spelled like that index (`noIndexOnObject`): without this the statement is
    false, e.g. `doc = {"0": 1}`, `loc = [.index 0]` (no such location, yet `$[0]` selects the member `"0"`). -/
theorem segsOfLoc_selects_none (rx : Rx) (doc extra : J) (loc : List Rfc.LStep) (hwf : doc.wf = true)
    (h : locValue doc loc = none) (hno : noIndexOnObject doc loc = true) :
    finditer rx ⟨segsOfLoc loc, false⟩ doc extra = [] := by
  have _ := hwf
  rw [PathQuery.noIndexOnObject_eq] at hno
  have := PathQuery.evalSegs_segsOf_none { rx := rx, root := doc, extra := extra } loc [] ['$'] doc h hno
  rw [PathQuery.segsOfLoc_eq]
  simpa [finditer] using this

/-- the side condition of `segsOfLoc_selects_none` is needed -/
example : ∃ (doc : J) (loc : List Rfc.LStep), doc.wf = true ∧ locValue doc loc = none ∧
    ∀ rx extra, finditer rx ⟨segsOfLoc loc, false⟩ doc extra ≠ [] :=
  ⟨.obj [(['0'], .int 1)], [.index 0], by decide, by decide, fun rx extra => by
    simp [finditer, segsOfLoc, evalSegs, evalSels, evalSel, dictGet, (by decide : intStr 0 = ['0'])]⟩

/-- every node the RFC 9535 interpreter yields (filters included) is a node of the document -/
theorem rfc_query_located (rx : Rx) (segs : List Seg) (doc : J) (hwf : doc.wf = true) :
    ∀ r ∈ Rfc.query rx segs doc, locValue doc r.loc = some r.val := by
  intro r hr
  refine PathQuery.located_evalSegs_all doc hwf ⟨rx, doc⟩ segs [⟨[], doc⟩] ?_ r hr
  intro r0 hr0
  simp only [List.mem_singleton] at hr0; subst hr0
  simp [Located, locValue]

/-- every match of a well-typed standard query — filters at any depth included — carries a location of the
    document: parts, normalized path and value -/
theorem match_located_typed (rx : Rx) (segs : List Seg) (doc extra : J) (hwf : doc.wf = true)
    (hwt : Rfc.wtSegs segs = true) :
    ∀ n ∈ finditer rx ⟨segs, false⟩ doc extra,
      ∃ loc, n.parts = locParts loc ∧ n.path = Rfc.normalizedPath loc ∧ locValue doc loc = some n.val := by
  intro n hn
  have hrep : RepresentsAll (finditer rx ⟨segs, false⟩ doc extra) (Rfc.query rx segs doc) := by
    unfold finditer Rfc.query
    exact segs_refines_rfc_wt _ ⟨rx, doc⟩ ⟨rfl, rfl, rfl⟩ segs _ _ hwt ⟨⟨rfl, rfl, rfl⟩, trivial⟩
  obtain ⟨r, hr, h1, h2, h3⟩ := representsAll_mem hrep n hn
  exact ⟨r.loc, h1, h2, by rw [h3]; exact rfc_query_located rx segs doc hwf r hr⟩

end JP.Lemmas
