/-
  LexPrint helpers, part 2: character classes, what may follow a token, the fixed tokens.
-/
import JP.Lemmas.LexPrintAux1
set_option linter.unusedSimpArgs false
namespace JP.Lemmas.LexPrint
open JP JP.Query JP.Surface JP.Lex

/-- evaluate the rule list on a text whose first characters are known -/
macro "lexsimp" : tactic => `(tactic| simp [R, firstMatch, mQuoted, mRe, mSlice, optInt, skipWs, mFunc, mDotProp, mFloat, mInt, optSign, mDDotProp, mLit, mWord, mWordCI, orElse, scanKey, keyStart, keyCont, isFuncCont, atBoundary, isWord, mSkip, span_eq, isPyBlank])

/-! ### character classes -/

theorem lower_bounds {c : Char} (h : c.isLower = true) : 97 ≤ c.toNat ∧ c.toNat ≤ 122 := by
  simp only [Char.isLower, Bool.and_eq_true, decide_eq_true_eq] at h
  have h1 := UInt32.le_iff_toNat_le.mp h.1
  have h2 := UInt32.le_iff_toNat_le.mp h.2
  simp at h1 h2
  exact ⟨h1, h2⟩

theorem toNat_ne {c d : Char} (h : c.toNat ≠ d.toNat) : c ≠ d := fun e => h (by rw [e])

/-- nothing blank and no colon ahead -/
def nb : Str → Bool
  | [] => true
  | d :: _ => !isPyBlank d && d != ':'

/-- what may follow an expression, a selector, a segment list -/
def safe : Str → Bool
  | [] => true
  | c :: r => c == ')' || c == ']' || c == ',' || (c == ' ' && nb r)

/-- the text starts with a blank -/
def sp : Str → Bool
  | [] => false
  | c :: _ => c == ' '

def anyS : Str → Bool := fun _ => true

/-- the first character of a printed expression -/
def ehc (c : Char) : Bool :=
  c.isLower || c.isDigit || c == '-' || c == '\'' || c == '/' || c == '[' || c == '!' || c == '(' || c == '@' ||
    c == '$' || c == '^' || c == '_' || c == '#'

def eh : Str → Bool
  | [] => false
  | c :: _ => ehc c

theorem ehc_facts {c : Char} (h : ehc c = true) : isPyBlank c = false ∧ c ≠ ':' ∧ c ≠ '=' := by
  simp only [ehc, Bool.or_eq_true, beq_iff_eq] at h
  rcases h with ((((((((((((h | h) | rfl) | rfl) | rfl) | rfl) | rfl) | rfl) | rfl) | rfl) | rfl) | rfl) | rfl)
  · have hb := lower_bounds h
    refine ⟨?_, toNat_ne ?_, toNat_ne ?_⟩
    · simp [isPyBlank]; omega
    · simp; omega
    · simp; omega
  · have hb := digit_toNat_bounds h
    refine ⟨?_, toNat_ne ?_, toNat_ne ?_⟩
    · simp [isPyBlank]; omega
    · simp; omega
    · simp; omega
  all_goals decide

theorem eh_cases {w : Str} (h : eh w = true) : ∃ c r, w = c :: r ∧ ehc c = true := by
  cases w with
  | nil => simp [eh] at h
  | cons c r => exact ⟨c, r, rfl, h⟩

theorem eh_append {w : Str} (h : eh w = true) (r : Str) : eh (w ++ r) = true := by
  obtain ⟨c, t, rfl, hc⟩ := eh_cases h
  exact hc

theorem eh_ne_nil {w : Str} (h : eh w = true) : w ≠ [] := by
  obtain ⟨c, t, rfl, hc⟩ := eh_cases h
  simp

theorem nb_of_eh {w : Str} (h : eh w = true) : nb w = true := by
  obtain ⟨c, t, rfl, hc⟩ := eh_cases h
  obtain ⟨h1, h2, _⟩ := ehc_facts hc
  simp [nb, h1, h2]

theorem nb_cases {r : Str} (h : nb r = true) : r = [] ∨ ∃ c t, r = c :: t ∧ isPyBlank c = false ∧ c ≠ ':' := by
  cases r with
  | nil => exact .inl rfl
  | cons c t =>
    simp only [nb, Bool.and_eq_true, Bool.not_eq_true', bne_iff_ne, ne_eq] at h
    exact .inr ⟨c, t, rfl, h.1, h.2⟩

theorem safe_cases {rest : Str} (h : safe rest = true) :
    rest = [] ∨ (∃ r, rest = ')' :: r) ∨ (∃ r, rest = ']' :: r) ∨ (∃ r, rest = ',' :: r) ∨
      (∃ r, rest = ' ' :: r ∧ nb r = true) := by
  cases rest with
  | nil => exact .inl rfl
  | cons c r =>
    simp only [safe, Bool.or_eq_true, beq_iff_eq, Bool.and_eq_true] at h
    rcases h with ((rfl | rfl) | rfl) | ⟨rfl, h⟩
    · exact .inr (.inl ⟨r, rfl⟩)
    · exact .inr (.inr (.inl ⟨r, rfl⟩))
    · exact .inr (.inr (.inr (.inl ⟨r, rfl⟩)))
    · exact .inr (.inr (.inr (.inr ⟨r, rfl, h⟩)))

theorem sp_cases {rest : Str} (h : sp rest = true) : ∃ r, rest = ' ' :: r := by
  cases rest with
  | nil => simp [sp] at h
  | cons c r => simp only [sp, beq_iff_eq] at h; exact ⟨r, by rw [h]⟩

theorem safe_rparen (r : Str) : safe (')' :: r) = true := by simp [safe]
theorem safe_rbracket (r : Str) : safe (']' :: r) = true := by simp [safe]
theorem safe_comma (r : Str) : safe (',' :: r) = true := by simp [safe]
theorem safe_blank {r : Str} (h : nb r = true) : safe (' ' :: r) = true := by simp [safe, h]

/-- a class of characters none of which may follow an expression -/
theorem stops_of_safe (p : Char → Bool) (h1 : p ')' = false) (h2 : p ']' = false) (h3 : p ',' = false)
    (h4 : p ' ' = false) {rest : Str} (h : safe rest = true) : stops p rest = true := by
  rcases safe_cases h with rfl | ⟨r, rfl⟩ | ⟨r, rfl⟩ | ⟨r, rfl⟩ | ⟨r, rfl, _⟩ <;> simp [stops, *]

theorem blank_ne {c : Char} (h : isPyBlank c = false) : c ≠ ' ' ∧ c ≠ '\n' ∧ c ≠ '\t' ∧ c ≠ '\r' := by
  refine ⟨?_, ?_, ?_, ?_⟩ <;> (rintro rfl; revert h; decide)

/-! ### cooking the blocks -/

theorem cook_func {v : Str} : CookB [⟨.func, v⟩] [.tok (.func v)] :=
  cookB_one _ _ (by intro more; simp [cook])
theorem cook_ddot {v : Str} : CookB [⟨.ddot, v⟩] [.tok .ddot] :=
  cookB_one _ _ (by intro more; simp [cook])
theorem cook_and {v : Str} : CookB [⟨.and_, v⟩] [.tok (.op .and)] :=
  cookB_one _ _ (by intro more; simp [cook])
theorem cook_or {v : Str} : CookB [⟨.or_, v⟩] [.tok (.op .or)] :=
  cookB_one _ _ (by intro more; simp [cook])
theorem cook_root {v : Str} : CookB [⟨.root, v⟩] [.tok .root] :=
  cookB_one _ _ (by intro more; simp [cook])
theorem cook_fakeRoot {v : Str} : CookB [⟨.fakeRoot, v⟩] [.tok .fakeRoot] :=
  cookB_one _ _ (by intro more; simp [cook])
theorem cook_self {v : Str} : CookB [⟨.self, v⟩] [.tok .self] :=
  cookB_one _ _ (by intro more; simp [cook])
theorem cook_key {v : Str} : CookB [⟨.key, v⟩] [.tok .key] :=
  cookB_one _ _ (by intro more; simp [cook])
theorem cook_fctx {v : Str} : CookB [⟨.fctx, v⟩] [.tok .ctx] :=
  cookB_one _ _ (by intro more; simp [cook])
theorem cook_keys {v : Str} : CookB [⟨.keys, v⟩] [.tok .keys] :=
  cookB_one _ _ (by intro more; simp [cook])
theorem cook_union {v : Str} : CookB [⟨.union, v⟩] [.union] :=
  cookB_one _ _ (by intro more; simp [cook])
theorem cook_inter {v : Str} : CookB [⟨.inter, v⟩] [.inter] :=
  cookB_one _ _ (by intro more; simp [cook])
theorem cook_wild {v : Str} : CookB [⟨.wild, v⟩] [.tok .wild] :=
  cookB_one _ _ (by intro more; simp [cook])
theorem cook_filter {v : Str} : CookB [⟨.filter, v⟩] [.tok .filter] :=
  cookB_one _ _ (by intro more; simp [cook])
theorem cook_in {v : Str} : CookB [⟨.in_, v⟩] [.tok (.op .in_)] :=
  cookB_one _ _ (by intro more; simp [cook])
theorem cook_contains {v : Str} : CookB [⟨.contains, v⟩] [.tok (.op .contains)] :=
  cookB_one _ _ (by intro more; simp [cook])
theorem cook_true {v : Str} : CookB [⟨.true_, v⟩] [.tok .true_] :=
  cookB_one _ _ (by intro more; simp [cook])
theorem cook_false {v : Str} : CookB [⟨.false_, v⟩] [.tok .false_] :=
  cookB_one _ _ (by intro more; simp [cook])
theorem cook_nil {v : Str} : CookB [⟨.nil, v⟩] [.tok .nil] :=
  cookB_one _ _ (by intro more; simp [cook])
theorem cook_undefined {v : Str} : CookB [⟨.undefined, v⟩] [.tok .undefined] :=
  cookB_one _ _ (by intro more; simp [cook])
theorem cook_lbracket {v : Str} : CookB [⟨.lbracket, v⟩] [.tok .lbracket] :=
  cookB_one _ _ (by intro more; simp [cook])
theorem cook_rbracket {v : Str} : CookB [⟨.rbracket, v⟩] [.tok .rbracket] :=
  cookB_one _ _ (by intro more; simp [cook])
theorem cook_comma {v : Str} : CookB [⟨.comma, v⟩] [.tok .comma] :=
  cookB_one _ _ (by intro more; simp [cook])
theorem cook_eq {v : Str} : CookB [⟨.eq, v⟩] [.tok (.op .eq)] :=
  cookB_one _ _ (by intro more; simp [cook])
theorem cook_ne {v : Str} : CookB [⟨.ne, v⟩] [.tok (.op .ne)] :=
  cookB_one _ _ (by intro more; simp [cook])
theorem cook_lg {v : Str} : CookB [⟨.lg, v⟩] [.tok (.op .lg)] :=
  cookB_one _ _ (by intro more; simp [cook])
theorem cook_le {v : Str} : CookB [⟨.le, v⟩] [.tok (.op .le)] :=
  cookB_one _ _ (by intro more; simp [cook])
theorem cook_ge {v : Str} : CookB [⟨.ge, v⟩] [.tok (.op .ge)] :=
  cookB_one _ _ (by intro more; simp [cook])
theorem cook_re {v : Str} : CookB [⟨.re, v⟩] [.tok (.op .re)] :=
  cookB_one _ _ (by intro more; simp [cook])
theorem cook_lt {v : Str} : CookB [⟨.lt, v⟩] [.tok (.op .lt)] :=
  cookB_one _ _ (by intro more; simp [cook])
theorem cook_gt {v : Str} : CookB [⟨.gt, v⟩] [.tok (.op .gt)] :=
  cookB_one _ _ (by intro more; simp [cook])
theorem cook_not {v : Str} : CookB [⟨.not_, v⟩] [.tok .not] :=
  cookB_one _ _ (by intro more; simp [cook])
theorem cook_lparen {v : Str} : CookB [⟨.lparen, v⟩] [.tok .lparen] :=
  cookB_one _ _ (by intro more; simp [cook])
theorem cook_rparen {v : Str} : CookB [⟨.rparen, v⟩] [.tok .rparen] :=
  cookB_one _ _ (by intro more; simp [cook])
theorem cook_slice {a b c : Str} : CookB [⟨.sliceStart, a⟩, ⟨.sliceStop, b⟩, ⟨.sliceStep, c⟩]
    [.tok (.slice (optIntVal a) (optIntVal b) (optIntVal c))] := by
  intro more; simp [cook]
theorem cook_regex {a b : Str} : CookB [⟨.rePattern, a⟩, ⟨.reFlags, b⟩] [.tok (.re a (normFlags b))] := by
  intro more; simp [cook]
theorem cook_int {v : Str} {i : Int} (h : intLiteral v = .ok i) : CookB [⟨.int, v⟩] [.tok (.int i)] :=
  cookB_one _ _ (by intro more; simp [cook, h, Except.map])
theorem cook_flt {v : Str} {m : Int} (h : fltLiteral v = .ok m) : CookB [⟨.flt, v⟩] [.tok (.flt m)] :=
  cookB_one _ _ (by intro more; simp [cook, h, Except.map])
theorem cook_sq {v s : Str} (h : decodeSQ v = .ok s) : CookB [⟨.sq, v⟩] [.tok (.str s)] :=
  cookB_one _ _ (by intro more; simp [cook, h, Except.map, ofDec])

/-! ### single characters that need nothing of what follows -/

theorem emit_lbracket (uw : Char → Bool) : Emit uw anyS ['['] [.tok .lbracket] :=
  ⟨by simp, fun rest _ => ⟨[⟨.lbracket, ['[']⟩], by lexsimp, cook_lbracket⟩⟩
theorem emit_rbracket (uw : Char → Bool) : Emit uw anyS [']'] [.tok .rbracket] :=
  ⟨by simp, fun rest _ => ⟨[⟨.rbracket, [']']⟩], by lexsimp, cook_rbracket⟩⟩
theorem emit_comma (uw : Char → Bool) : Emit uw anyS [','] [.tok .comma] :=
  ⟨by simp, fun rest _ => ⟨[⟨.comma, [',']⟩], by lexsimp, cook_comma⟩⟩
theorem emit_lparen (uw : Char → Bool) : Emit uw anyS ['('] [.tok .lparen] :=
  ⟨by simp, fun rest _ => ⟨[⟨.lparen, ['(']⟩], by lexsimp, cook_lparen⟩⟩
theorem emit_rparen (uw : Char → Bool) : Emit uw anyS [')'] [.tok .rparen] :=
  ⟨by simp, fun rest _ => ⟨[⟨.rparen, [')']⟩], by lexsimp, cook_rparen⟩⟩
theorem emit_filter (uw : Char → Bool) : Emit uw anyS ['?'] [.tok .filter] :=
  ⟨by simp, fun rest _ => ⟨[⟨.filter, ['?']⟩], by lexsimp, cook_filter⟩⟩
theorem emit_wild (uw : Char → Bool) : Emit uw anyS ['*'] [.tok .wild] :=
  ⟨by simp, fun rest _ => ⟨[⟨.wild, ['*']⟩], by lexsimp, cook_wild⟩⟩
theorem emit_keys (uw : Char → Bool) : Emit uw anyS ['~'] [.tok .keys] :=
  ⟨by simp, fun rest _ => ⟨[⟨.keys, ['~']⟩], by lexsimp, cook_keys⟩⟩
theorem emit_key (uw : Char → Bool) : Emit uw anyS ['#'] [.tok .key] :=
  ⟨by simp, fun rest _ => ⟨[⟨.key, ['#']⟩], by lexsimp, cook_key⟩⟩
theorem emit_fctx (uw : Char → Bool) : Emit uw anyS ['_'] [.tok .ctx] :=
  ⟨by simp, fun rest _ => ⟨[⟨.fctx, ['_']⟩], by lexsimp, cook_fctx⟩⟩
theorem emit_self (uw : Char → Bool) : Emit uw anyS ['@'] [.tok .self] :=
  ⟨by simp, fun rest _ => ⟨[⟨.self, ['@']⟩], by lexsimp, cook_self⟩⟩
theorem emit_root (uw : Char → Bool) : Emit uw anyS ['$'] [.tok .root] :=
  ⟨by simp, fun rest _ => ⟨[⟨.root, ['$']⟩], by lexsimp, cook_root⟩⟩
theorem emit_fakeRoot (uw : Char → Bool) : Emit uw anyS ['^'] [.tok .fakeRoot] :=
  ⟨by simp, fun rest _ => ⟨[⟨.fakeRoot, ['^']⟩], by lexsimp, cook_fakeRoot⟩⟩

/-! ### tokens that look at the next character -/

theorem emit_bang (uw : Char → Bool) : Emit uw eh ['!'] [.tok .not] := by
  refine ⟨by simp, fun rest hp => ?_⟩
  obtain ⟨c, r, rfl, hc⟩ := eh_cases hp
  have hne := (ehc_facts hc).2.2
  exact ⟨[⟨.not_, ['!']⟩], by lexsimp; rw [if_neg (fun h => hne h.symm)], cook_not⟩

theorem emit_union (uw : Char → Bool) : Emit uw sp ['|'] [.union] := by
  refine ⟨by simp, fun rest hp => ?_⟩
  obtain ⟨r, rfl⟩ := sp_cases hp
  exact ⟨[⟨.union, ['|']⟩], by lexsimp, cook_union⟩

theorem emit_inter (uw : Char → Bool) : Emit uw sp ['&'] [.inter] := by
  refine ⟨by simp, fun rest hp => ?_⟩
  obtain ⟨r, rfl⟩ := sp_cases hp
  exact ⟨[⟨.inter, ['&']⟩], by lexsimp, cook_inter⟩

theorem emit_op (uw : Char → Bool) (op : CmpOp) : Emit uw sp (opStr op) [.tok (.op op)] := by
  refine ⟨by cases op <;> simp [opStr], fun rest hp => ?_⟩
  obtain ⟨r, rfl⟩ := sp_cases hp
  cases op
  · exact ⟨[⟨.eq, opStr .eq⟩], by simp only [opStr]; lexsimp, cook_eq⟩
  · exact ⟨[⟨.ne, opStr .ne⟩], by simp only [opStr]; lexsimp, cook_ne⟩
  · exact ⟨[⟨.lt, opStr .lt⟩], by simp only [opStr]; lexsimp, cook_lt⟩
  · exact ⟨[⟨.gt, opStr .gt⟩], by simp only [opStr]; lexsimp, cook_gt⟩
  · exact ⟨[⟨.le, opStr .le⟩], by simp only [opStr]; lexsimp, cook_le⟩
  · exact ⟨[⟨.ge, opStr .ge⟩], by simp only [opStr]; lexsimp, cook_ge⟩
  · exact ⟨[⟨.lg, opStr .lg⟩], by simp only [opStr]; lexsimp, cook_lg⟩
  · exact ⟨[⟨.and_, opStr .and⟩], by simp only [opStr]; lexsimp, cook_and⟩
  · exact ⟨[⟨.or_, opStr .or⟩], by simp only [opStr]; lexsimp, cook_or⟩
  · exact ⟨[⟨.in_, opStr .in_⟩], by simp only [opStr]; lexsimp, cook_in⟩
  · exact ⟨[⟨.contains, opStr .contains⟩], by simp only [opStr]; lexsimp, cook_contains⟩
  · exact ⟨[⟨.re, opStr .re⟩], by simp only [opStr]; lexsimp, cook_re⟩

theorem nb_opStr (op : CmpOp) (r : Str) : nb (opStr op ++ r) = true := by
  cases op <;> rfl

/-- a blank before anything but a blank or a colon is skipped -/
theorem emit_blank (uw : Char → Bool) : Emit uw nb [' '] [] := by
  refine ⟨by simp, fun rest hp => ⟨[], ?_, CookB.nil⟩⟩
  rcases nb_cases hp with rfl | ⟨c, r, rfl, h, hc⟩
  · lexsimp
  · have hb : isPyBlank ' ' = true := by decide
    obtain ⟨h1, h2, h3, h4⟩ := blank_ne h
    simp [R, firstMatch, mQuoted, mRe, mSlice, optInt, skipWs, mFunc, mDotProp, mFloat, mInt, optSign, mDDotProp, mLit,
      mWord, mWordCI, orElse, scanKey, keyStart, keyCont, isFuncCont, atBoundary, isWord, mSkip, span_eq, hb, h, hc, h1, h2,
      h3, h4]

/-- `..` before anything that does not start a name -/
theorem emit_ddot (uw : Char → Bool) : Emit uw (stops keyStart) ['.', '.'] [.tok .ddot] := by
  refine ⟨by simp, fun rest hp => ⟨[⟨.ddot, ['.', '.']⟩], ?_, cook_ddot⟩⟩
  cases rest with
  | nil => lexsimp
  | cons c r =>
    simp only [stops, Bool.not_eq_true'] at hp
    have hd : keyStart '.' = false := by decide
    simp [R, firstMatch, mQuoted, mRe, mSlice, optInt, skipWs, mFunc, mDotProp, mFloat, mInt, optSign, mDDotProp, mLit,
      mWord, mWordCI, orElse, scanKey, hd, hp, keyCont, isFuncCont, atBoundary, isWord, mSkip, span_eq, isPyBlank]

/-! ### keywords -/

theorem emit_nil (uw : Char → Bool) : Emit uw safe ['n', 'i', 'l'] [.tok .nil] := by
  refine ⟨by simp, fun rest hp => ⟨[⟨.nil, ['n', 'i', 'l']⟩], ?_, cook_nil⟩⟩
  rcases safe_cases hp with rfl | ⟨r, rfl⟩ | ⟨r, rfl⟩ | ⟨r, rfl⟩ | ⟨r, rfl, _⟩ <;> lexsimp

theorem emit_undefined (uw : Char → Bool) :
    Emit uw safe ['u', 'n', 'd', 'e', 'f', 'i', 'n', 'e', 'd'] [.tok .undefined] := by
  refine ⟨by simp, fun rest hp => ⟨[⟨.undefined, ['u', 'n', 'd', 'e', 'f', 'i', 'n', 'e', 'd']⟩], ?_, cook_undefined⟩⟩
  rcases safe_cases hp with rfl | ⟨r, rfl⟩ | ⟨r, rfl⟩ | ⟨r, rfl⟩ | ⟨r, rfl, _⟩ <;> lexsimp

theorem emit_true (uw : Char → Bool) : Emit uw safe ['t', 'r', 'u', 'e'] [.tok .true_] := by
  refine ⟨by simp, fun rest hp => ⟨[⟨.true_, ['t', 'r', 'u', 'e']⟩], ?_, cook_true⟩⟩
  rcases safe_cases hp with rfl | ⟨r, rfl⟩ | ⟨r, rfl⟩ | ⟨r, rfl⟩ | ⟨r, rfl, _⟩ <;> lexsimp

theorem emit_false (uw : Char → Bool) : Emit uw safe ['f', 'a', 'l', 's', 'e'] [.tok .false_] := by
  refine ⟨by simp, fun rest hp => ⟨[⟨.false_, ['f', 'a', 'l', 's', 'e']⟩], ?_, cook_false⟩⟩
  rcases safe_cases hp with rfl | ⟨r, rfl⟩ | ⟨r, rfl⟩ | ⟨r, rfl⟩ | ⟨r, rfl, _⟩ <;> lexsimp

end JP.Lemmas.LexPrint
