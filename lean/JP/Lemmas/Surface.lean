/-
  Helper lemmas for C10 (string form recompiles to an equivalent query). Statements used by JP/Props/C10.lean.
-/
import JP.Surface
namespace JP.Lemmas
open JP JP.Query JP.Surface

theorem parse_ptoks (pr : Prec) (hpr : precOK pr = true) (p : Path) (hp : parsedSegs p.segs = true) :
    parseQuery pr (ptoksPath p) = .ok ⟨normSegs p.segs, p.fake⟩ := by
  sorry

theorem normSegs_idem (segs : List Seg) : normSegs (normSegs segs) = normSegs segs := by
  sorry

theorem ptoks_normSegs (segs : List Seg) : ptoksSegs (normSegs segs) = ptoksSegs segs := by
  sorry

theorem parsed_normSegs (segs : List Seg) (h : parsedSegs segs = true) : parsedSegs (normSegs segs) = true := by
  sorry

theorem eval_normSegs (env : Env) (segs : List Seg) (ns : List Node) :
    evalSegs env (normSegs segs) ns = evalSegs env segs ns := by
  sorry

end JP.Lemmas
