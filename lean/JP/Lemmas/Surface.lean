/-
  Helper lemmas for C10 (string form recompiles to an equivalent query). Statements used by JP/Props/C10.lean.
  Proofs: JP/Lemmas/SurfaceAux1-6.lean.
-/
import JP.Surface
import JP.Lemmas.SurfaceAux5
import JP.Lemmas.SurfaceAux6
namespace JP.Lemmas
open JP JP.Query JP.Surface

theorem parse_ptoks (pr : Prec) (hpr : precOK pr = true) (p : Path) (hp : parsedSegs p.segs = true) :
    parseQuery pr (ptoksPath p) = .ok ⟨normSegs p.segs, p.fake⟩ :=
  parse_ptoks_aux pr hpr p hp

theorem normSegs_idem (segs : List Seg) : normSegs (normSegs segs) = normSegs segs :=
  normSegs_idem' segs

theorem ptoks_normSegs (segs : List Seg) : ptoksSegs (normSegs segs) = ptoksSegs segs :=
  ptoksSegs_norm segs

theorem parsed_normSegs (segs : List Seg) (h : parsedSegs segs = true) : parsedSegs (normSegs segs) = true := by
  rw [parsedSegs_norm]; exact h

theorem eval_normSegs (env : Env) (segs : List Seg) (ns : List Node) :
    evalSegs env (normSegs segs) ns = evalSegs env segs ns :=
  evalSegs_norm env segs ns

end JP.Lemmas
