/-
  LexSpell helpers, part 3: printed texts read as printed tokens — the combinators (under spellings `sp`).
-/
import JP.Lemmas.LexSpellAux2
set_option linter.unusedSimpArgs false
set_option linter.unusedSectionVars false
namespace JP.Lemmas.LexSpell
open JP JP.Query JP.Surface JP.Lex JP.Lemmas JP.Lemmas.LexPrint

/-! ### the first character of a printed expression -/

def ehcS (c : Char) : Bool := ehc c || safeChar c

def ehS : Str → Bool
  | [] => false
  | c :: _ => ehcS c

theorem ehcS_facts {c : Char} (h : ehcS c = true) : isPyBlank c = false ∧ c ≠ ':' ∧ c ≠ '=' := by
  simp only [ehcS, Bool.or_eq_true] at h
  rcases h with h | h
  · exact ehc_facts h
  · have f := safeChar_facts h
    exact ⟨f.2.2.2.2.2.1, f.2.2.2.2.2.2.1, f.2.2.2.2.2.2.2.2.2⟩

theorem ehS_cases {w : Str} (h : ehS w = true) : ∃ c r, w = c :: r ∧ ehcS c = true := by
  cases w with
  | nil => simp [ehS] at h
  | cons c r => exact ⟨c, r, rfl, h⟩

theorem ehS_append {w : Str} (h : ehS w = true) (r : Str) : ehS (w ++ r) = true := by
  obtain ⟨c, t, rfl, hc⟩ := ehS_cases h
  exact hc

theorem ehS_ne_nil {w : Str} (h : ehS w = true) : w ≠ [] := by
  obtain ⟨c, t, rfl, hc⟩ := ehS_cases h
  simp

theorem nb_of_ehS {w : Str} (h : ehS w = true) : nb w = true := by
  obtain ⟨c, t, rfl, hc⟩ := ehS_cases h
  obtain ⟨h1, h2, _⟩ := ehcS_facts hc
  simp [nb, h1, h2]

theorem neq_of_ehS {w : Str} (h : ehS w = true) : neq w = true := by
  obtain ⟨c, t, rfl, hc⟩ := ehS_cases h
  simp [neq, (ehcS_facts hc).2.2]

theorem ehS_of_eh {w : Str} (h : eh w = true) : ehS w = true := by
  obtain ⟨c, t, rfl, hc⟩ := eh_cases h
  simp [ehS, ehcS, hc]

theorem ehS_ident {s : Str} (h : okSpelling s = true) (r : Str) : ehS (s ++ r) = true := by
  obtain ⟨c, t, rfl, hc, _⟩ := okSpelling_shape h
  simp [ehS, ehcS, hc]

theorem nb_ident {s : Str} (h : okSpelling s = true) (r : Str) : nb (s ++ r) = true :=
  nb_of_ehS (ehS_ident h r)

/-! ### the relations -/

/-- the text `w` is read as the tokens `ts`, in front of whatever may follow an expression -/
def CorrS (sp : Spell) (uw : Char → Bool) (w : Str) (ts : List Tok) : Prop :=
  ∀ rest cs, safe rest = true → TokzS sp uw rest cs → TokzS sp uw (w ++ rest) (ts.map CTok.tok ++ cs)

/-- … and `w` starts like an expression -/
def CES (sp : Spell) (uw : Char → Bool) (w : Str) (ts : List Tok) : Prop := ehS w = true ∧ CorrS sp uw w ts

/-- a segment list: read in front of a safe text, never continuing a name or an identifier spelling -/
def CSS (sp : Spell) (uw : Char → Bool) (w : Str) (ts : List Tok) : Prop :=
  CorrS sp uw w ts ∧ (∀ rest, safe rest = true → stops keyStart (w ++ rest) = true) ∧
    ∀ rest, safe rest = true → stops safeChar (w ++ rest) = true

/-- a selector: read as it stands and after the blank that follows a comma -/
def CSelS (sp : Spell) (uw : Char → Bool) (w : Str) (ts : List Tok) : Prop :=
  CorrS sp uw w ts ∧ CorrS sp uw (' ' :: w) ts

theorem CorrS.nil (sp : Spell) (uw : Char → Bool) : CorrS sp uw [] [] := fun _ _ _ ht => ht

section
variable {sp : Spell} (hv : ValidSpell sp = true) {uw : Char → Bool}
include hv

/-- one token in front of a text that is read -/
theorem TokzS.one {P : Str → Bool} {w : Str} {c : CTok} (h : EmitS sp uw P w [c])
    {rest : Str} {cs : List CTok} (hp : P rest = true) (ht : TokzS sp uw rest cs) : TokzS sp uw (w ++ rest) (c :: cs) :=
  h.tokz hp ht

theorem TokzS.char {P : Str → Bool} {ch : Char} {c : CTok} (h : EmitS sp uw P [ch] [c])
    {rest : Str} {cs : List CTok} (hp : P rest = true) (ht : TokzS sp uw rest cs) : TokzS sp uw (ch :: rest) (c :: cs) :=
  h.tokz hp ht

/-- a skipped blank -/
theorem TokzS.blank {rest : Str} {cs : List CTok} (hp : nb rest = true) (ht : TokzS sp uw rest cs) :
    TokzS sp uw (' ' :: rest) cs :=
  (emitS_blank hv uw).tokz hp ht

theorem CorrS.of_emit {P : Str → Bool} {w : Str} {t : Tok} (h : EmitS sp uw P w [.tok t])
    (hP : ∀ r, safe r = true → P r = true) : CorrS sp uw w [t] :=
  fun _ _ hs ht => TokzS.one hv h (hP _ hs) ht

/-! ### combinators -/

theorem CorrS.paren {w : Str} {ts : List Tok} (h : CorrS sp uw w ts) :
    CorrS sp uw ('(' :: (w ++ [')'])) (.lparen :: (ts ++ [.rparen])) := by
  intro rest cs _ ht
  have h1 := TokzS.char hv (emitS_rparen hv uw) (rfl : anyS rest = true) ht
  have h2 := h _ _ (safe_rparen rest) h1
  have h3 := TokzS.char hv (emitS_lparen hv uw) (rfl : anyS _ = true) h2
  simpa [List.append_assoc] using h3

theorem CES.paren {w : Str} {ts : List Tok} (h : CES sp uw w ts) :
    CES sp uw ('(' :: (w ++ [')'])) (.lparen :: (ts ++ [.rparen])) :=
  ⟨rfl, CorrS.paren hv h.2⟩

theorem CorrS.bracket {w : Str} {ts : List Tok} (h : CorrS sp uw w ts) :
    CES sp uw ('[' :: (w ++ [']'])) (.lbracket :: (ts ++ [.rbracket])) := by
  refine ⟨rfl, ?_⟩
  intro rest cs _ ht
  have h1 := TokzS.char hv (emitS_rbracket hv uw) (rfl : anyS rest = true) ht
  have h2 := h _ _ (safe_rbracket rest) h1
  have h3 := TokzS.char hv (emitS_lbracket hv uw) (rfl : anyS _ = true) h2
  simpa [List.append_assoc] using h3

theorem CorrS.infx {w1 w2 : Str} {t1 t2 : List Tok} (op : CmpOp) (h1 : CorrS sp uw w1 t1)
    (h2 : CES sp uw w2 t2) : CorrS sp uw (w1 ++ ' ' :: (opStr op ++ ' ' :: w2)) (t1 ++ .op op :: t2) := by
  intro rest cs hs ht
  have a1 := h2.2 _ _ hs ht
  have a2 := TokzS.blank hv (nb_of_ehS (ehS_append h2.1 rest)) a1
  have a3 := TokzS.one hv (emitS_op hv uw op) (rfl : LexPrint.sp (' ' :: _) = true) a2
  have a4 := TokzS.blank hv (nb_opStr op _) a3
  have a5 := h1 _ _ (safe_blank (nb_opStr op _)) a4
  simpa [List.append_assoc] using a5

theorem CES.infx {w1 w2 : Str} {t1 t2 : List Tok} (op : CmpOp) (h1 : CES sp uw w1 t1)
    (h2 : CES sp uw w2 t2) : CES sp uw (w1 ++ ' ' :: (opStr op ++ ' ' :: w2)) (t1 ++ .op op :: t2) :=
  ⟨ehS_append h1.1 _, CorrS.infx hv op h1.2 h2⟩

theorem CES.bang {w : Str} {ts : List Tok} (h : CES sp uw w ts) : CES sp uw ('!' :: w) (.not :: ts) := by
  refine ⟨rfl, ?_⟩
  intro rest cs hs ht
  have a1 := h.2 _ _ hs ht
  exact TokzS.char hv (emitS_bang hv uw) (neq_of_ehS (ehS_append h.1 rest)) a1

theorem CES.of_emit {P : Str → Bool} {w : Str} {t : Tok} (h : EmitS sp uw P w [.tok t])
    (hP : ∀ r, safe r = true → P r = true) (he : ehS w = true) : CES sp uw w [t] :=
  ⟨he, CorrS.of_emit hv h hP⟩

/-- arguments / list items: `w1, w2` -/
theorem CES.comma {w1 w2 : Str} {t1 t2 : List Tok} (h1 : CES sp uw w1 t1) (h2 : CES sp uw w2 t2) :
    CES sp uw (w1 ++ commaSp ++ w2) (t1 ++ [.comma] ++ t2) := by
  refine ⟨by rw [List.append_assoc]; exact ehS_append h1.1 _, ?_⟩
  intro rest cs hs ht
  have a1 := h2.2 _ _ hs ht
  have a2 := TokzS.blank hv (nb_of_ehS (ehS_append h2.1 rest)) a1
  have a3 := TokzS.char hv (emitS_comma hv uw) (rfl : anyS _ = true) a2
  have a4 := h1.2 _ _ (safe_comma _) a3
  simpa [List.append_assoc, commaSp] using a4

/-- a function call -/
theorem CES.call {name wa : Str} {ta : List Tok} (hn : funcNameOK name = true)
    (ha : CorrS sp uw wa ta) (hh : wa = [] ∨ ehS wa = true) :
    CES sp uw (name ++ '(' :: (wa ++ [')'])) (.func name :: (ta ++ [.rparen])) := by
  refine ⟨ehS_of_eh (ehc_funcName hn _), ?_⟩
  intro rest cs _ ht
  have a1 := TokzS.char hv (emitS_rparen hv uw) (rfl : anyS rest = true) ht
  have a2 := ha _ _ (safe_rparen rest) a1
  have hb : stops isPyBlank (wa ++ ')' :: rest) = true := by
    rcases hh with rfl | hh
    · simp [stops, isPyBlank]
    · obtain ⟨c, t, rfl, hc⟩ := ehS_cases hh
      simp [stops, (ehcS_facts hc).1]
  have a3 := TokzS.one hv (emitS_func hv uw name hn) hb a2
  simpa [List.append_assoc] using a3

/-! ### queries inside expressions, segments -/

theorem CSS.nil : CSS sp uw [] [] :=
  ⟨CorrS.nil sp uw, fun _ h => stops_keyStart_safe h, fun _ h => stops_safeChar_safe h⟩

theorem CSS.desc {w : Str} {ts : List Tok} (h : CSS sp uw w ts) :
    CSS sp uw ('.' :: '.' :: w) (.ddot :: ts) := by
  refine ⟨?_, fun _ _ => by simp [stops, keyStart], fun _ _ => by simp [stops, safeChar]⟩
  intro rest cs hs ht
  have a1 := h.1 _ _ hs ht
  exact TokzS.one hv (emitS_ddot hv uw) (h.2.1 rest hs) a1

theorem CSS.child {ws w : Str} {tss ts : List Tok} (hsel : CorrS sp uw ws tss) (h : CSS sp uw w ts) :
    CSS sp uw ('[' :: (ws ++ ']' :: w)) (.lbracket :: (tss ++ .rbracket :: ts)) := by
  refine ⟨?_, fun _ _ => by simp [stops, keyStart], fun _ _ => by simp [stops, safeChar]⟩
  intro rest cs hs ht
  have a1 := h.1 _ _ hs ht
  have a2 := TokzS.char hv (emitS_rbracket hv uw) (rfl : anyS _ = true) a1
  have a3 := hsel _ _ (safe_rbracket _) a2
  have a4 := TokzS.char hv (emitS_lbracket hv uw) (rfl : anyS _ = true) a3
  simpa [List.append_assoc] using a4

/-- an identifier spelling followed by segments -/
theorem CES.query {s : Str} {t : Tok} (he : EmitS sp uw (stops safeChar) s [.tok t]) (hs : okSpelling s = true)
    {w : Str} {ts : List Tok} (h : CSS sp uw w ts) : CES sp uw (s ++ w) (t :: ts) := by
  refine ⟨ehS_ident hs _, ?_⟩
  intro rest cs hsafe ht
  have := TokzS.one hv he (h.2.2 rest hsafe) (h.1 _ _ hsafe ht)
  simpa [List.append_assoc] using this

/-! ### selectors -/

theorem CSelS.of_corr {w : Str} {ts : List Tok} (h : CorrS sp uw w ts) (hne : w ≠ [])
    (hn : nb w = true) : CSelS sp uw w ts :=
  ⟨h, fun rest cs hs ht => TokzS.blank hv (nb_append hne hn rest) (h rest cs hs ht)⟩

theorem CSelS.comma {w1 w2 : Str} {t1 t2 : List Tok} (h1 : CSelS sp uw w1 t1) (h2 : CSelS sp uw w2 t2) :
    CSelS sp uw (w1 ++ commaSp ++ w2) (t1 ++ [.comma] ++ t2) := by
  have key : ∀ rest cs, safe rest = true → TokzS sp uw rest cs →
      TokzS sp uw (',' :: ' ' :: (w2 ++ rest)) (.tok .comma :: (t2.map CTok.tok ++ cs)) := by
    intro rest cs hs ht
    exact TokzS.char hv (emitS_comma hv uw) (rfl : anyS _ = true) (h2.2 _ _ hs ht)
  constructor
  · intro rest cs hs ht
    have a := h1.1 _ _ (safe_comma _) (key rest cs hs ht)
    simpa [List.append_assoc, commaSp] using a
  · intro rest cs hs ht
    have a := h1.2 _ _ (safe_comma _) (key rest cs hs ht)
    simpa [List.append_assoc, commaSp] using a

theorem CSelS.filter {w : Str} {ts : List Tok} (h : CES sp uw w ts) :
    CSelS sp uw ('?' :: w) (.filter :: ts) := by
  refine CSelS.of_corr hv ?_ (by simp) (by simp [nb, isPyBlank])
  intro rest cs hs ht
  exact TokzS.char hv (emitS_filter hv uw) (rfl : anyS _ = true) (h.2 _ _ hs ht)

theorem CSelS.slice (a b : Option Int) (c : Int) :
    CSelS sp uw (optIntStr a ++ ':' :: optIntStr b ++ ':' :: intStr c) [.slice a b (some c)] := by
  have h0 : CorrS sp uw (optIntStr a ++ ':' :: optIntStr b ++ ':' :: intStr c) [.slice a b (some c)] :=
    CorrS.of_emit hv (emitS_slice hv uw a b c) (fun _ h => h)
  cases a with
  | none => exact ⟨h0, CorrS.of_emit hv (emitS_blank_slice hv uw b c) (fun _ h => h)⟩
  | some i =>
    obtain ⟨d, t, hd, hc⟩ := intText_head (intText_intStr i)
    refine CSelS.of_corr hv h0 (by simp) ?_
    simp only [optIntStr, hd, List.cons_append, nb]
    simp [(intHead_facts hc).2.2.2.2.2.1, (intHead_facts hc).2.2.2.2.2.2]

end

end JP.Lemmas.LexSpell
