/-
  LexPrint helpers, part 4: printed texts read as printed tokens — the combinators.
-/
import JP.Lemmas.LexPrintAux3
set_option linter.unusedSimpArgs false
namespace JP.Lemmas.LexPrint
open JP JP.Query JP.Surface JP.Lex

/-- one token in front of a text that is read -/
theorem Tokz.one {uw : Char → Bool} {P : Str → Bool} {w : Str} {c : CTok} (h : Emit uw P w [c])
    {rest : Str} {cs : List CTok} (hp : P rest = true) (ht : Tokz uw rest cs) : Tokz uw (w ++ rest) (c :: cs) :=
  h.tokz hp ht

theorem Tokz.char {uw : Char → Bool} {P : Str → Bool} {ch : Char} {c : CTok} (h : Emit uw P [ch] [c])
    {rest : Str} {cs : List CTok} (hp : P rest = true) (ht : Tokz uw rest cs) : Tokz uw (ch :: rest) (c :: cs) :=
  h.tokz hp ht

/-- a skipped blank -/
theorem Tokz.blank {uw : Char → Bool} {rest : Str} {cs : List CTok} (hp : nb rest = true) (ht : Tokz uw rest cs) :
    Tokz uw (' ' :: rest) cs :=
  (emit_blank uw).tokz hp ht

theorem nb_append {w : Str} (hne : w ≠ []) (h : nb w = true) (r : Str) : nb (w ++ r) = true := by
  cases w with
  | nil => exact absurd rfl hne
  | cons c t => exact h

/-- the text `w` is read as the tokens `ts`, in front of whatever may follow an expression -/
def Corr (uw : Char → Bool) (w : Str) (ts : List Tok) : Prop :=
  ∀ rest cs, safe rest = true → Tokz uw rest cs → Tokz uw (w ++ rest) (ts.map CTok.tok ++ cs)

theorem Corr.nil (uw : Char → Bool) : Corr uw [] [] := fun _ _ _ ht => ht

theorem Corr.of_emit {uw : Char → Bool} {P : Str → Bool} {w : Str} {t : Tok} (h : Emit uw P w [.tok t])
    (hP : ∀ r, safe r = true → P r = true) : Corr uw w [t] :=
  fun _ _ hs ht => Tokz.one h (hP _ hs) ht

theorem anyS_of (r : Str) (_ : safe r = true) : anyS r = true := rfl

/-- … and `w` starts like an expression -/
def CE (uw : Char → Bool) (w : Str) (ts : List Tok) : Prop := eh w = true ∧ Corr uw w ts

/-! ### combinators -/

theorem Corr.paren {uw : Char → Bool} {w : Str} {ts : List Tok} (h : Corr uw w ts) :
    Corr uw ('(' :: (w ++ [')'])) (.lparen :: (ts ++ [.rparen])) := by
  intro rest cs _ ht
  have h1 := Tokz.char (emit_rparen uw) (rfl : anyS rest = true) ht
  have h2 := h _ _ (safe_rparen rest) h1
  have h3 := Tokz.char (emit_lparen uw) (rfl : anyS _ = true) h2
  simpa [List.append_assoc] using h3

theorem CE.paren {uw : Char → Bool} {w : Str} {ts : List Tok} (h : CE uw w ts) :
    CE uw ('(' :: (w ++ [')'])) (.lparen :: (ts ++ [.rparen])) :=
  ⟨rfl, h.2.paren⟩

theorem Corr.bracket {uw : Char → Bool} {w : Str} {ts : List Tok} (h : Corr uw w ts) :
    CE uw ('[' :: (w ++ [']'])) (.lbracket :: (ts ++ [.rbracket])) := by
  refine ⟨rfl, ?_⟩
  intro rest cs _ ht
  have h1 := Tokz.char (emit_rbracket uw) (rfl : anyS rest = true) ht
  have h2 := h _ _ (safe_rbracket rest) h1
  have h3 := Tokz.char (emit_lbracket uw) (rfl : anyS _ = true) h2
  simpa [List.append_assoc] using h3

theorem Corr.infx {uw : Char → Bool} {w1 w2 : Str} {t1 t2 : List Tok} (op : CmpOp) (h1 : Corr uw w1 t1)
    (h2 : CE uw w2 t2) : Corr uw (w1 ++ ' ' :: (opStr op ++ ' ' :: w2)) (t1 ++ .op op :: t2) := by
  intro rest cs hs ht
  have a1 := h2.2 _ _ hs ht
  have a2 := Tokz.blank (nb_of_eh (eh_append h2.1 rest)) a1
  have a3 := Tokz.one (emit_op uw op) (rfl : sp (' ' :: _) = true) a2
  have a4 := Tokz.blank (nb_opStr op _) a3
  have a5 := h1 _ _ (safe_blank (nb_opStr op _)) a4
  simpa [List.append_assoc] using a5

theorem CE.infx {uw : Char → Bool} {w1 w2 : Str} {t1 t2 : List Tok} (op : CmpOp) (h1 : CE uw w1 t1)
    (h2 : CE uw w2 t2) : CE uw (w1 ++ ' ' :: (opStr op ++ ' ' :: w2)) (t1 ++ .op op :: t2) :=
  ⟨eh_append h1.1 _, h1.2.infx op h2⟩

theorem CE.bang {uw : Char → Bool} {w : Str} {ts : List Tok} (h : CE uw w ts) : CE uw ('!' :: w) (.not :: ts) := by
  refine ⟨rfl, ?_⟩
  intro rest cs hs ht
  have a1 := h.2 _ _ hs ht
  exact Tokz.char (emit_bang uw) (eh_append h.1 rest) a1

theorem CE.of_emit {uw : Char → Bool} {P : Str → Bool} {w : Str} {t : Tok} (h : Emit uw P w [.tok t])
    (hP : ∀ r, safe r = true → P r = true) (he : eh w = true) : CE uw w [t] :=
  ⟨he, Corr.of_emit h hP⟩

/-- arguments / list items: `w1, w2` -/
theorem CE.comma {uw : Char → Bool} {w1 w2 : Str} {t1 t2 : List Tok} (h1 : CE uw w1 t1) (h2 : CE uw w2 t2) :
    CE uw (w1 ++ commaSp ++ w2) (t1 ++ [.comma] ++ t2) := by
  refine ⟨by rw [List.append_assoc]; exact eh_append h1.1 _, ?_⟩
  intro rest cs hs ht
  have a1 := h2.2 _ _ hs ht
  have a2 := Tokz.blank (nb_of_eh (eh_append h2.1 rest)) a1
  have a3 := Tokz.char (emit_comma uw) (rfl : anyS _ = true) a2
  have a4 := h1.2 _ _ (safe_comma _) a3
  simpa [List.append_assoc, commaSp] using a4

/-- a function call -/
theorem CE.call {uw : Char → Bool} {name wa : Str} {ta : List Tok} (hn : funcNameOK name = true)
    (ha : Corr uw wa ta) (hh : wa = [] ∨ eh wa = true) :
    CE uw (name ++ '(' :: (wa ++ [')'])) (.func name :: (ta ++ [.rparen])) := by
  refine ⟨ehc_funcName hn _, ?_⟩
  intro rest cs _ ht
  have a1 := Tokz.char (emit_rparen uw) (rfl : anyS rest = true) ht
  have a2 := ha _ _ (safe_rparen rest) a1
  have hb : stops isPyBlank (wa ++ ')' :: rest) = true := by
    rcases hh with rfl | hh
    · simp [stops, isPyBlank]
    · obtain ⟨c, t, rfl, hc⟩ := eh_cases hh
      simp [stops, (ehc_facts hc).1]
  have a3 := Tokz.one (emit_func uw name hn) hb a2
  simpa [List.append_assoc] using a3

/-! ### queries inside expressions, segments -/

/-- a segment list: read in front of a safe text, and never continuing a name -/
def CS (uw : Char → Bool) (w : Str) (ts : List Tok) : Prop :=
  Corr uw w ts ∧ ∀ rest, safe rest = true → stops keyStart (w ++ rest) = true

theorem stops_keyStart_safe {rest : Str} (h : safe rest = true) : stops keyStart rest = true :=
  stops_of_safe _ (by decide) (by decide) (by decide) (by decide) h

theorem CS.nil (uw : Char → Bool) : CS uw [] [] := ⟨Corr.nil uw, fun _ h => stops_keyStart_safe h⟩

theorem CS.desc {uw : Char → Bool} {w : Str} {ts : List Tok} (h : CS uw w ts) :
    CS uw ('.' :: '.' :: w) (.ddot :: ts) := by
  refine ⟨?_, fun _ _ => by simp [stops, keyStart]⟩
  intro rest cs hs ht
  have a1 := h.1 _ _ hs ht
  exact Tokz.one (emit_ddot uw) (h.2 rest hs) a1

theorem CS.child {uw : Char → Bool} {ws w : Str} {tss ts : List Tok} (hsel : Corr uw ws tss) (h : CS uw w ts) :
    CS uw ('[' :: (ws ++ ']' :: w)) (.lbracket :: (tss ++ .rbracket :: ts)) := by
  refine ⟨?_, fun _ _ => by simp [stops, keyStart]⟩
  intro rest cs hs ht
  have a1 := h.1 _ _ hs ht
  have a2 := Tokz.char (emit_rbracket uw) (rfl : anyS _ = true) a1
  have a3 := hsel _ _ (safe_rbracket _) a2
  have a4 := Tokz.char (emit_lbracket uw) (rfl : anyS _ = true) a3
  simpa [List.append_assoc] using a4

/-- an identifier character followed by segments -/
theorem CE.query {uw : Char → Bool} {ch : Char} {t : Tok} (he : Emit uw anyS [ch] [.tok t]) (hc : ehc ch = true)
    {w : Str} {ts : List Tok} (h : CS uw w ts) : CE uw (ch :: w) (t :: ts) := by
  refine ⟨hc, ?_⟩
  intro rest cs hs ht
  exact Tokz.char he (rfl : anyS _ = true) (h.1 _ _ hs ht)

/-! ### selectors -/

/-- a selector: read as it stands and after the blank that follows a comma -/
def CSel (uw : Char → Bool) (w : Str) (ts : List Tok) : Prop := Corr uw w ts ∧ Corr uw (' ' :: w) ts

theorem CSel.of_corr {uw : Char → Bool} {w : Str} {ts : List Tok} (h : Corr uw w ts) (hne : w ≠ [])
    (hn : nb w = true) : CSel uw w ts :=
  ⟨h, fun rest cs hs ht => Tokz.blank (nb_append hne hn rest) (h rest cs hs ht)⟩

theorem CSel.comma {uw : Char → Bool} {w1 w2 : Str} {t1 t2 : List Tok} (h1 : CSel uw w1 t1) (h2 : CSel uw w2 t2) :
    CSel uw (w1 ++ commaSp ++ w2) (t1 ++ [.comma] ++ t2) := by
  have key : ∀ rest cs, safe rest = true → Tokz uw rest cs →
      Tokz uw (',' :: ' ' :: (w2 ++ rest)) (.tok .comma :: (t2.map CTok.tok ++ cs)) := by
    intro rest cs hs ht
    exact Tokz.char (emit_comma uw) (rfl : anyS _ = true) (h2.2 _ _ hs ht)
  constructor
  · intro rest cs hs ht
    have a := h1.1 _ _ (safe_comma _) (key rest cs hs ht)
    simpa [List.append_assoc, commaSp] using a
  · intro rest cs hs ht
    have a := h1.2 _ _ (safe_comma _) (key rest cs hs ht)
    simpa [List.append_assoc, commaSp] using a

theorem CSel.filter {uw : Char → Bool} {w : Str} {ts : List Tok} (h : CE uw w ts) :
    CSel uw ('?' :: w) (.filter :: ts) := by
  refine CSel.of_corr ?_ (by simp) (by simp [nb, isPyBlank])
  intro rest cs hs ht
  exact Tokz.char (emit_filter uw) (rfl : anyS _ = true) (h.2 _ _ hs ht)

theorem CSel.slice (uw : Char → Bool) (a b : Option Int) (c : Int) :
    CSel uw (optIntStr a ++ ':' :: optIntStr b ++ ':' :: intStr c) [.slice a b (some c)] := by
  have h0 : Corr uw (optIntStr a ++ ':' :: optIntStr b ++ ':' :: intStr c) [.slice a b (some c)] :=
    Corr.of_emit (emit_slice uw a b c) (fun _ h => h)
  cases a with
  | none => exact ⟨h0, Corr.of_emit (emit_blank_slice uw b c) (fun _ h => h)⟩
  | some i =>
    obtain ⟨d, t, hd, hc⟩ := intText_head (intText_intStr i)
    refine CSel.of_corr h0 (by simp) ?_
    simp only [optIntStr, hd, List.cons_append, nb]
    simp [(intHead_facts hc).2.2.2.2.2.1, (intHead_facts hc).2.2.2.2.2.2]

end JP.Lemmas.LexPrint
