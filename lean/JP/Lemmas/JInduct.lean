/-
  A usable induction principle for the nested inductive `J`.
-/
import JP.Basic
namespace JP.Lemmas
open JP

/-- Induction over JSON values: array elements and object member values are covered by
    the induction hypothesis. -/
theorem J.induct {P : J → Prop}
    (hnull : P .null) (hbool : ∀ b, P (.bool b)) (hint : ∀ i, P (.int i))
    (hflt : ∀ m, P (.flt m)) (hstr : ∀ s, P (.str s))
    (harr : ∀ xs, (∀ x ∈ xs, P x) → P (.arr xs))
    (hobj : ∀ kvs : List (Str × J), (∀ kv ∈ kvs, P kv.2) → P (.obj kvs)) : ∀ j, P j := by
  intro j
  refine J.rec (motive_1 := P) (motive_2 := fun xs => ∀ x ∈ xs, P x)
    (motive_3 := fun kvs => ∀ kv ∈ kvs, P kv.2) (motive_4 := fun kv => P kv.2)
    hnull hbool hint hflt hstr harr hobj ?_ ?_ ?_ ?_ ?_ j
  · intro x hx; cases hx
  · intro h t hh ht x hx
    cases hx with
    | head => exact hh
    | tail _ hm => exact ht x hm
  · intro x hx; cases hx
  · intro h t hh ht x hx
    cases hx with
    | head => exact hh
    | tail _ hm => exact ht x hm
  · intro k v hv; exact hv

end JP.Lemmas
