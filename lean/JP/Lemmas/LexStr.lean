/-
  String literals and shorthand names in the character-level lexer model `JP.Lex`.
-/
import JP.Lex
import JP.Lemmas.Surface
import JP.Lemmas.LexStrAux
namespace JP.Lemmas
open JP JP.Query JP.Surface JP.Lex

/-! ### String literals -/

/-- the lexer's quoted-string rule reads back exactly what `canonical_string` wrote -/
theorem canonical_string_lexes (s rest : Str) :
    mQuoted '\'' .sq (canonicalString s ++ rest) = some ([⟨.sq, sqBody s⟩], rest) := by
  have h := LexStr.scanQuoted_spells (Or.inl rfl) (LexStr.normalName_spells s) rest
  rw [← LexStr.sqBody_eq] at h
  have e : canonicalString s ++ rest = '\'' :: (sqBody s ++ '\'' :: rest) := by
    simp [canonicalString, sqBody]
  rw [e, mQuoted]
  simp [h]

/-- … and the parser's decoding of that token is the original string -/
theorem canonical_string_decodes (s : Str) : decodeSQ (sqBody s) = .ok s := by
  rw [LexStr.sqBody_eq]
  exact LexStr.decodeSQ_spells (LexStr.normalName_spells s)

/-- every spelling the RFC grammar allows for a string literal is one token, whose decoding is the string -/
theorem spelling_lexes (q : Char) (hq : q = '\'' ∨ q = '"') (k : Kind) (s w rest : Str) (h : Spells q s w) :
    mQuoted q k (q :: w ++ q :: rest) = some ([⟨k, w⟩], rest) := by
  have h' := LexStr.scanQuoted_spells hq h rest
  rw [List.cons_append, mQuoted]
  simp [h']

theorem spelling_decodes (q : Char) (hq : q = '\'' ∨ q = '"') (s w : Str) (h : Spells q s w) :
    decodeQ q w = .ok s := by
  rcases hq with rfl | rfl
  · simpa [decodeQ] using LexStr.decodeSQ_spells h
  · simpa [decodeQ, decodeDQ] using LexStr.decodeDQ_spells h

/-! ### Shorthand names -/

/-- `.name` is one PROPERTY token when `name` has the shape of `key_pattern` and is not continued -/
theorem dot_shorthand_lexes (cfg : Cfg) (c : Char) (cs rest : Str) (hc : keyStart c = true) (hcs : cs.all keyCont = true)
    (hrest : ∀ d r, rest = d :: r → keyCont d = false) :
    firstMatch (rules cfg) ('.' :: c :: cs ++ rest) = some ([⟨.prop, c :: cs⟩], rest) := by
  have h1 : mQuoted '"' .dq ('.' :: c :: cs ++ rest) = none := by simp [mQuoted]
  have h2 : mQuoted '\'' .sq ('.' :: c :: cs ++ rest) = none := by simp [mQuoted]
  have h3 : mRe ('.' :: c :: cs ++ rest) = none := by simp [mRe]
  have h4 : mSlice ('.' :: c :: cs ++ rest) = none := LexStr.mSlice_dot _
  have h5 : mFunc ('.' :: c :: cs ++ rest) = none := by
    simp [mFunc, show Char.isLower '.' = false by decide]
  have h6 : mDotProp ('.' :: c :: cs ++ rest) = some ([⟨.prop, c :: cs⟩], rest) := by
    simp [mDotProp, scanKey, hc, LexStr.span_keyCont cs rest hcs hrest]
  simp only [List.cons_append] at h1 h2 h3 h4 h5 h6
  simp only [rules, List.cons_append, firstMatch, h1, h2, h3, h4, h5, h6]

end JP.Lemmas
