/-
  Helper lemmas for C06 (only documented error families escape). Statements used by JP/Props/C06.lean.
-/
import JP.Patch
import JP.RelPointer
import JP.Lemmas.SafetyAux
import JP.Lemmas.SafetyAux2
namespace JP.Lemmas
open JP JP.Pointer

theorem pointer_parse_safe (dec : EscDec) (ue : Bool) (s : Str) (err : Err)
    (h : Pointer.parse dec ue s = .error err) : err = .ptr ∨ err = .ptrIndex := by
  exact sf_parse_err dec ue s err h

theorem pointer_getitem_safe (v : J) (p : Part) (err : Err)
    (h : getitem v p = .error err) : err.isPointerResolution = true := by
  exact sf_getitem_err v p err h

theorem pointer_resolve_safe (doc : J) (ps : List Part) (err : Err)
    (h : resolveParts doc ps = .error err) : err.isPointerResolution = true := by
  exact sf_resolveParts_err doc ps err h

theorem pointer_exists_safe (doc : J) (ps : List Part) : ∃ b, existsIn doc ps = .ok b := by
  exact sf_existsIn_ok doc ps

theorem pointer_resolveParent_safe (doc : J) (ps : List Part) (err : Err)
    (h : resolveParent doc ps = .error err) : err.isPointerResolution = true := by
  exact sf_resolveParent_err doc ps err h

theorem pointer_join_safe (dec : EscDec) (ps : List Part) (other : Str) (err : Err)
    (h : truediv dec ps other = .error err) : err = .ptr ∨ err = .ptrIndex := by
  exact sf_truediv_err dec ps other err h

theorem pointer_fromParts_safe (dec : EscDec) (ue : Bool) (ps : List Part) (err : Err)
    (h : fromParts dec ue ps = .error err) : err = .ptr := by
  exact sf_fromParts_err dec ue ps err h

theorem rel_parse_safe (dec : EscDec) (ue : Bool) (s : Str) (err : Err)
    (h : RelPointer.parse dec ue s = .error err) : err = .relSyntax ∨ err = .ptr ∨ err = .ptrIndex := by
  exact sf_rel_parse_err dec ue s err h

theorem rel_apply_safe (dec : EscDec) (ue : Bool) (r : RelPointer.Rel) (base : List Part) (err : Err)
    (h : RelPointer.applyTo dec ue r base = .error err) : err = .relIndex ∨ err = .ptr := by
  exact sf_rel_apply_err dec ue r base err h

theorem patch_build_safe (dec : EscDec) (ue : Bool) (ops : J) (err : Err)
    (h : Patch.build dec ue ops = .error err) : err = .patch := by
  exact sf_build_err dec ue ops err h

theorem patch_applyOp_safe (doc : J) (op : Patch.Op) (err : Err)
    (h : Patch.applyOp doc op = .error err) : err.isBuiltin = false := by
  exact sf_ok_not_builtin (sf_applyOp_err doc op err h)

theorem patch_apply_safe (ops : List Patch.Op) (doc : J) (err : Err)
    (h : Patch.apply ops doc = .error err) : err = .patch ∨ err = .patchTest := by
  exact sf_apply_err ops doc err h

end JP.Lemmas
