/-
  Helper lemmas for C02 (filter expressions vs RFC 9535). Statements used by JP/Props/C02.lean.
-/
import JP.Lemmas.Query
import JP.Lemmas.FilterAux3
namespace JP.Lemmas
open JP JP.Query

theorem compare_refines_rfc (rx : Rx) (op : CmpOp) (hop : isCmpOp op = true)
    (va vb : V) (a b : Option J) (ha : RepV va a) (hb : RepV vb b) :
    compare rx va op vb = Rfc.cmp op a b :=
  compare_refines_rfc_aux rx op hop va vb a b ha hb

theorem absent_equals_only_absent (rx : Rx) (va vb : V) (b : J) (ha : RepV va none) (hb : RepV vb (some b)) :
    compare rx va .eq vb = false ∧ compare rx vb .eq va = false ∧
    (∀ vc, RepV vc none → compare rx va .eq vc = true) :=
  absent_equals_only_absent_aux rx va vb b ha hb

theorem ordering_only_numbers_or_strings (a b : J)
    (h : Rfc.cmpLt (some a) (some b) = true) :
    (∃ x y, a = .str x ∧ b = .str y) ∨ ((Rfc.isNumber a).isSome ∧ (Rfc.isNumber b).isSome) :=
  ordering_only_numbers_or_strings_aux a b h

theorem existence_not_truthiness (env : Env) (cur : J) (key : Option Part) (q : List Seg) :
    isTruthy (evalExpr env cur key (.self q)) = !(evalSegs env q [⟨[], env.rootTok, cur⟩]).isEmpty ∧
    isTruthy (evalExpr env cur key (.root q false)) = !(evalSegs env q [⟨[], env.rootTok, env.root⟩]).isEmpty :=
  existence_not_truthiness_aux env cur key q

theorem singular_at_most_one (env : Env) (q : List Seg) (n : Node) (hs : Rfc.singularSegs q = true) :
    (evalSegs env q [n]).length ≤ 1 :=
  singular_le_one env q [n] hs (by simp)

theorem logical_refines_rfc (env : Env) (renv : Rfc.REnv) (hag : EnvAgree env renv)
    (cur : J) (key : Option Part) (e : Expr) (hwt : Rfc.wtLogical e = true) :
    isTruthy (evalExpr env cur key e) = Rfc.logical renv cur e :=
  logical_main hag e cur key hwt

theorem comparable_refines_rfc (env : Env) (renv : Rfc.REnv) (hag : EnvAgree env renv)
    (cur : J) (key : Option Part) (e : Expr) (hwt : Rfc.wtComparable e = true) :
    RepV (unwrapSingle (evalExpr env cur key e)) (Rfc.valueOf renv cur e) :=
  value_main hag e cur key hwt

theorem segs_refines_rfc_wt (env : Env) (renv : Rfc.REnv) (hag : EnvAgree env renv)
    (segs : List Seg) (ns : List Node) (rs : List Rfc.RNode)
    (hwt : Rfc.wtSegs segs = true) (hr : RepresentsAll ns rs) :
    RepresentsAll (evalSegs env segs ns) (Rfc.evalSegs renv segs rs) :=
  segs_main hag segs hwt ns rs hr

end JP.Lemmas
