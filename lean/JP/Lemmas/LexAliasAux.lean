/-
  Helper lemmas for the alias spellings: each lexer rule on a text with a known head character.
-/
import JP.Lex
import JP.Lemmas.LexTotalAux
namespace JP.Lemmas.LexAlias
open JP JP.Query JP.Surface JP.Lex
open JP.Lemmas.LexTotal (span_eq)

/-! ### Boundary -/

theorem nonascii_classes (d : Char) (h : ¬ d.toNat < 128) :
    d.isLower = false ∧ d.isDigit = false ∧ d ≠ '_' ∧ d ≠ '(' := by
  have h1 : d.toNat = d.val.toNat := rfl
  have hz : 'z'.val.toNat = 122 := by decide
  have h9 : '9'.val.toNat = 57 := by decide
  refine ⟨?_, ?_, ?_, ?_⟩
  · simp only [Char.isLower, ge_iff_le, UInt32.le_iff_toNat_le, Bool.and_eq_false_iff,
      decide_eq_false_iff_not]
    omega
  · simp only [Char.isDigit, ge_iff_le, UInt32.le_iff_toNat_le, Bool.and_eq_false_iff,
      decide_eq_false_iff_not]
    omega
  · rintro rfl; exact h (by decide)
  · rintro rfl; exact h (by decide)

theorem boundary_head {uw : Char → Bool} {rest : Str} (hb : atBoundary uw rest = true) :
    ∀ d r, rest = d :: r → isFuncCont d = false := by
  intro d r hr
  subst hr
  simp only [atBoundary, isWord, Bool.not_eq_true'] at hb
  by_cases h : d.toNat < 128
  · simp only [h, if_true, Char.isAlphanum, Char.isAlpha, Bool.or_eq_false_iff] at hb
    simp [isFuncCont, hb.1.1.2, hb.1.2, hb.2]
  · obtain ⟨h1, h2, h3, _⟩ := nonascii_classes d h
    simp [isFuncCont, h1, h2, h3]

theorem span_isFuncCont (cs rest : Str) (hcs : cs.all isFuncCont = true)
    (hrest : ∀ d r, rest = d :: r → isFuncCont d = false) : (cs ++ rest).span isFuncCont = (cs, rest) := by
  induction cs with
  | nil =>
    cases rest with
    | nil => rfl
    | cons d r => simp [span_eq, List.takeWhile, List.dropWhile, hrest d r rfl]
  | cons c cs ih =>
    simp only [List.all_cons, Bool.and_eq_true] at hcs
    have := ih hcs.2
    simp only [span_eq, Prod.mk.injEq] at this ⊢
    simp [hcs.1, this.1, this.2]

/-! ### `mFunc` -/

theorem mFunc_notLower (c : Char) (t : Str) (h : c.isLower = false) : mFunc (c :: t) = none := by
  simp [mFunc, h]

theorem mFunc_keyword {uw : Char → Bool} (c : Char) (n rest : Str) (hn : n.all isFuncCont = true)
    (hb : atBoundary uw rest = true) (hk : isKeywordOp (c :: n) = true) : mFunc (c :: (n ++ rest)) = none := by
  have hs := span_isFuncCont n rest hn (boundary_head hb)
  simp only [mFunc, hs, hk]
  repeat (first | rfl | split)

theorem mFunc_noParen {uw : Char → Bool} (c : Char) (n rest : Str) (hn : n.all isFuncCont = true)
    (hb : atBoundary uw rest = true) (hnp : ∀ r, rest ≠ '(' :: r) : mFunc (c :: (n ++ rest)) = none := by
  have hs := span_isFuncCont n rest hn (boundary_head hb)
  simp only [mFunc, hs]
  cases rest with
  | nil => repeat (first | rfl | split)
  | cons d r =>
    have hd : d ≠ '(' := fun h => hnp r (by rw [h])
    repeat (first | rfl | split)

/-! ### The rules before the keywords, on a text whose head is not special -/

/-- a head character on which the string, regex, slice, property, number and `..` rules all fail -/
def plainHead (c : Char) : Bool :=
  c != '"' && c != '\'' && c != '/' && !c.isDigit && c != '-' && !isPyBlank c && c != ':' && c != '.'

theorem mQuoted_ne (q : Char) (k : Kind) (c : Char) (t : Str) (h : (c != q) = true) : mQuoted q k (c :: t) = none := by
  have : (c == q) = false := by simpa using h
  simp [mQuoted, this]

theorem mRe_ne (c : Char) (t : Str) (h : (c != '/') = true) : mRe (c :: t) = none := by
  have : c ≠ '/' := by simpa using h
  unfold mRe
  split
  · rename_i heq
    simp only [List.cons.injEq] at heq
    exact absurd heq.1 this
  · rfl

theorem optInt_plain (c : Char) (t : Str) (h1 : c.isDigit = false) (h2 : (c != '-') = true) :
    optInt (c :: t) = ([], c :: t) := by
  have : c ≠ '-' := by simpa using h2
  unfold optInt
  split
  · rename_i heq
    simp only [List.cons.injEq] at heq
    exact absurd heq.1 this
  · simp [span_eq, List.takeWhile, List.dropWhile, h1]

theorem mSlice_plain (c : Char) (t : Str) (h1 : c.isDigit = false) (h2 : (c != '-') = true)
    (h3 : isPyBlank c = false) (h4 : (c != ':') = true) : mSlice (c :: t) = none := by
  have h5 : skipWs (c :: t) = c :: t := by simp [skipWs, List.dropWhile, h3]
  have : c ≠ ':' := by simpa using h4
  simp only [mSlice, optInt_plain c t h1 h2, h5]
  split
  · rename_i heq
    simp only [List.cons.injEq] at heq
    exact absurd heq.1 this
  · rfl

theorem mDotProp_ne (c : Char) (t : Str) (h : (c != '.') = true) : mDotProp (c :: t) = none := by
  have : c ≠ '.' := by simpa using h
  unfold mDotProp
  split
  · rename_i heq
    simp only [List.cons.injEq] at heq
    exact absurd heq.1 this
  · rfl

theorem mDDotProp_ne (c : Char) (t : Str) (h : (c != '.') = true) : mDDotProp (c :: t) = none := by
  have : c ≠ '.' := by simpa using h
  unfold mDDotProp
  split
  · rename_i heq
    simp only [List.cons.injEq] at heq
    exact absurd heq.1 this
  · rfl

theorem optSign_plain (c : Char) (t : Str) (h2 : (c != '-') = true) : optSign (c :: t) = ([], c :: t) := by
  have : c ≠ '-' := by simpa using h2
  unfold optSign
  split
  · rename_i heq
    simp only [List.cons.injEq] at heq
    exact absurd heq.1 this
  · rfl

theorem mFloat_plain (c : Char) (t : Str) (h1 : c.isDigit = false) (h2 : (c != '-') = true) :
    mFloat (c :: t) = none := by
  simp [mFloat, optSign_plain c t h2, span_eq, List.takeWhile, h1]

theorem mInt_plain (uw : Char → Bool) (c : Char) (t : Str) (h1 : c.isDigit = false) (h2 : (c != '-') = true) :
    mInt uw (c :: t) = none := by
  simp [mInt, optSign_plain c t h2, span_eq, List.takeWhile, h1]

theorem mLit_ne (k : Kind) (l : Char) (ls : Str) (c : Char) (t : Str) (h : (l == c) = false) :
    mLit k (l :: ls) (c :: t) = none := by
  simp [mLit, List.isPrefixOf, h]

theorem mWord_ne (uw : Char → Bool) (k : Kind) (l : Char) (ls : Str) (c : Char) (t : Str) (h : (l == c) = false) :
    mWord uw k (l :: ls) (c :: t) = none := by
  simp [mWord, List.isPrefixOf, h]

theorem mWord_notPrefix (uw : Char → Bool) (k : Kind) (w s : Str) (h : w.isPrefixOf s = false) :
    mWord uw k w s = none := by
  simp [mWord, h]

theorem mLit_notPrefix (k : Kind) (w s : Str) (h : w.isPrefixOf s = false) :
    mLit k w s = none := by
  simp [mLit, h]

theorem mWord_self (uw : Char → Bool) (k : Kind) (w rest : Str) (hb : atBoundary uw rest = true) :
    mWord uw k w (w ++ rest) = some ([⟨k, w⟩], rest) := by
  have h1 : w.isPrefixOf (w ++ rest) = true := by
    rw [List.isPrefixOf_iff_prefix]; exact List.prefix_append w rest
  simp [mWord, h1, hb]

theorem mLit_self (k : Kind) (w rest : Str) :
    mLit k w (w ++ rest) = some ([⟨k, w⟩], rest) := by
  have h1 : w.isPrefixOf (w ++ rest) = true := by
    rw [List.isPrefixOf_iff_prefix]; exact List.prefix_append w rest
  simp [mLit, h1]

theorem orElse_none (a b : M) (s : Str) (h : a s = none) : orElse a b s = b s := by
  simp [orElse, h]

theorem orElse_some (a b : M) (s : Str) (r) (h : a s = some r) : orElse a b s = some r := by
  simp [orElse, h]

theorem firstMatch_none (m : M) (ms : List M) (s : Str) (h : m s = none) :
    firstMatch (m :: ms) s = firstMatch ms s := by
  simp [firstMatch, h]

theorem firstMatch_some (m : M) (ms : List M) (s : Str) (r) (h : m s = some r) :
    firstMatch (m :: ms) s = some r := by
  simp [firstMatch, h]

theorem envRules_dflt : envRules dflt =
    [mLit .root ['$'], mLit .fakeRoot ['^'], mLit .self ['@'], mLit .key ['#'], mLit .union ['|'],
     mLit .inter ['&'], mLit .fctx ['_'], mLit .keys ['~']] := by
  have : sortLongestFirst dflt.envTokens = dflt.envTokens := by decide
  simp only [envRules, this]
  simp [Spell.envTokens, dflt]

/-- the first ten rules fail on a plain head for which `mFunc` fails -/
theorem firstMatch_prefix (uw : Char → Bool) (c : Char) (t : Str) (more : List M)
    (hp : plainHead c = true) (hf : mFunc (c :: t) = none) :
    firstMatch ([mQuoted '"' .dq, mQuoted '\'' .sq, mRe, mSlice, mFunc, mDotProp, mFloat, mInt uw, mDDotProp,
      mLit .ddot ['.', '.']] ++ more) (c :: t) = firstMatch more (c :: t) := by
  simp only [plainHead, Bool.and_eq_true, Bool.not_eq_true'] at hp
  obtain ⟨⟨⟨⟨⟨⟨⟨h1, h2⟩, h3⟩, h4⟩, h5⟩, h6⟩, h7⟩, h8⟩ := hp
  have h9 : ('.' == c) = false := by
    have : c ≠ '.' := by simpa using h8
    simp [Ne.symm this]
  simp only [List.cons_append, List.nil_append]
  rw [firstMatch_none _ _ _ (mQuoted_ne _ _ c t h1), firstMatch_none _ _ _ (mQuoted_ne _ _ c t h2),
    firstMatch_none _ _ _ (mRe_ne c t h3), firstMatch_none _ _ _ (mSlice_plain c t h4 h5 h6 h7),
    firstMatch_none _ _ _ hf, firstMatch_none _ _ _ (mDotProp_ne c t h8),
    firstMatch_none _ _ _ (mFloat_plain c t h4 h5), firstMatch_none _ _ _ (mInt_plain uw c t h4 h5),
    firstMatch_none _ _ _ (mDDotProp_ne c t h8), firstMatch_none _ _ _ (mLit_ne _ _ _ c t h9)]

/-- the rules after the first ten, for the default spellings -/
def tailRules (uw : Char → Bool) : List M :=
  [ orElse (mLit .and_ ['&', '&']) (mWord uw .and_ ['a', 'n', 'd']),
    orElse (mLit .or_ ['|', '|']) (mWord uw .or_ ['o', 'r']),
    mLit .root ['$'], mLit .fakeRoot ['^'], mLit .self ['@'], mLit .key ['#'], mLit .union ['|'],
    mLit .inter ['&'], mLit .fctx ['_'], mLit .keys ['~'],
    mLit .wild ['*'], mLit .filter ['?'],
    mWord uw .in_ ['i', 'n'],
    mWordCI uw .true_ 'T' 't' ['r', 'u', 'e'],
    mWordCI uw .false_ 'F' 'f' ['a', 'l', 's', 'e'],
    mWordCI uw .nil 'N' 'n' ['i', 'l'],
    mWordCI uw .nil 'N' 'n' ['u', 'l', 'l'],
    mWordCI uw .nil 'N' 'n' ['o', 'n', 'e'],
    mWord uw .contains ['c', 'o', 'n', 't', 'a', 'i', 'n', 's'],
    mWord uw .undefined ['u', 'n', 'd', 'e', 'f', 'i', 'n', 'e', 'd'],
    mWord uw .missing ['m', 'i', 's', 's', 'i', 'n', 'g'],
    mLit .lbracket ['['], mLit .rbracket [']'], mLit .comma [','],
    mLit .eq ['=', '='], mLit .ne ['!', '='], mLit .lg ['<', '>'], mLit .le ['<', '='], mLit .ge ['>', '='],
    mLit .re ['=', '~'], mLit .lt ['<'], mLit .gt ['>'],
    orElse (mWord uw .not_ ['n', 'o', 't']) (mLit .not_ ['!']),
    fun s => (scanKey s).map fun (n, r) => ([⟨.bare, n⟩], r),
    mLit .lparen ['('], mLit .rparen [')'],
    mSkip ]

theorem rules_dflt (uw : Char → Bool) : rules ⟨dflt, uw⟩ =
    [mQuoted '"' .dq, mQuoted '\'' .sq, mRe, mSlice, mFunc, mDotProp, mFloat, mInt uw, mDDotProp,
      mLit .ddot ['.', '.']] ++ tailRules uw := by
  simp only [rules, envRules_dflt, tailRules, List.cons_append, List.nil_append]

/-- the lexeme of a text with a plain head on which `mFunc` fails is decided by the later rules -/
theorem firstMatch_rules (uw : Char → Bool) (c : Char) (t : Str)
    (hp : plainHead c = true) (hf : mFunc (c :: t) = none) :
    firstMatch (rules ⟨dflt, uw⟩) (c :: t) = firstMatch (tailRules uw) (c :: t) := by
  rw [rules_dflt, firstMatch_prefix uw c t _ hp hf]

end JP.Lemmas.LexAlias
