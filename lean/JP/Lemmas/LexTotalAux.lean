/-
  Every lexer rule consumes at least one character.
-/
import JP.Lex
namespace JP.Lemmas.LexTotal
open JP JP.Query JP.Surface JP.Lex

/-- the matcher returns a strictly shorter remainder -/
def Consumes (m : M) : Prop := ∀ s ts rest, m s = some (ts, rest) → rest.length < s.length

theorem span_loop_eq {α} (p : α → Bool) : ∀ (as acc : List α),
    List.span.loop p as acc = (acc.reverse ++ as.takeWhile p, as.dropWhile p)
  | [], acc => by simp [List.span.loop]
  | a :: as, acc => by
    simp only [List.span.loop, List.takeWhile, List.dropWhile]
    cases h : p a
    · simp
    · simp [span_loop_eq p as (a :: acc)]

theorem span_eq {α} (p : α → Bool) (as : List α) : as.span p = (as.takeWhile p, as.dropWhile p) := by
  simp [List.span, span_loop_eq]

theorem length_dropWhile_le {α} (p : α → Bool) (s : List α) : (s.dropWhile p).length ≤ s.length :=
  (List.dropWhile_sublist p).length_le

theorem span_snd_length_le (p : Char → Bool) (s : Str) : (s.span p).2.length ≤ s.length := by
  rw [span_eq]
  exact length_dropWhile_le p s

theorem skipWs_length_le (s : Str) : (skipWs s).length ≤ s.length :=
  length_dropWhile_le _ s

theorem scanQuoted_length (q : Char) : ∀ (s v r : Str), scanQuoted q s = some (v, r) → r.length < s.length
  | [], v, r, h => by simp [scanQuoted] at h
  | [c], v, r, h => by
    simp only [scanQuoted] at h
    split at h
    · cases h; simp
    · split at h <;> simp at h
  | c :: d :: ds, v, r, h => by
    simp only [scanQuoted] at h
    split at h
    · cases h; simp
    · split at h
      · simp only [Option.map_eq_some_iff] at h
        obtain ⟨⟨a, r'⟩, h1, h2⟩ := h
        have := scanQuoted_length q ds a r' h1
        cases h2
        simp only [List.length_cons]; omega
      · simp only [Option.map_eq_some_iff] at h
        obtain ⟨⟨a, r'⟩, h1, h2⟩ := h
        have := scanQuoted_length q (d :: ds) a r' h1
        cases h2
        simp only [List.length_cons] at *; omega

theorem mQuoted_consumes (q : Char) (k : Kind) : Consumes (mQuoted q k) := by
  intro s ts rest h
  cases s with
  | nil => simp [mQuoted] at h
  | cons c cs =>
    simp only [mQuoted] at h
    split at h
    · simp only [Option.map_eq_some_iff] at h
      obtain ⟨⟨a, r'⟩, h1, h2⟩ := h
      have := scanQuoted_length q cs a r' h1
      cases h2
      simp only [List.length_cons]; omega
    · simp at h

theorem mRe_consumes : Consumes mRe := by
  intro s ts rest h
  unfold mRe at h
  split at h
  · rename_i c cs
    have h1 := span_snd_length_le (· != '/') cs
    generalize (cs.span (· != '/')) = pr at h h1
    obtain ⟨p, r⟩ := pr
    simp only at h h1
    split at h
    · rename_i x r'
      have h2 := span_snd_length_le isReFlag r'
      generalize (r'.span isReFlag) = pr2 at h h2
      obtain ⟨fl, r''⟩ := pr2
      simp only [Option.some.injEq, Prod.mk.injEq] at h h2
      obtain ⟨_, rfl⟩ := h
      simp only [List.length_cons] at *; omega
    · simp at h
  · simp at h

theorem optInt_length_le (s : Str) : (optInt s).2.length ≤ s.length := by
  unfold optInt
  split
  · rename_i cs
    have h1 := span_snd_length_le Char.isDigit cs
    generalize (cs.span Char.isDigit) = pr at h1
    obtain ⟨d, r⟩ := pr
    simp only at h1 ⊢
    split
    · simp
    · simp only [List.length_cons]; omega
  · exact span_snd_length_le _ _

theorem mSlice_consumes : Consumes mSlice := by
  intro s ts rest h
  unfold mSlice at h
  have h1 := optInt_length_le s
  generalize optInt s = pr at h h1
  obtain ⟨a, r1⟩ := pr
  simp only at h h1
  have h2 := skipWs_length_le r1
  split at h
  · rename_i r2 heq
    rw [heq] at h2
    have h3 := skipWs_length_le r2
    have h4 := optInt_length_le (skipWs r2)
    generalize optInt (skipWs r2) = pr2 at h h4
    obtain ⟨b, r3⟩ := pr2
    simp only at h h4
    have h5 := skipWs_length_le r3
    split at h
    · rename_i r5 heq2
      rw [heq2] at h5
      have h6 := skipWs_length_le r5
      have h7 := optInt_length_le (skipWs r5)
      generalize optInt (skipWs r5) = pr3 at h h7
      obtain ⟨c, r6⟩ := pr3
      simp only [Option.some.injEq, Prod.mk.injEq] at h h7
      obtain ⟨_, rfl⟩ := h
      simp only [List.length_cons] at *; omega
    · simp only [Option.some.injEq, Prod.mk.injEq] at h
      obtain ⟨_, rfl⟩ := h
      simp only [List.length_cons] at *; omega
  · simp at h

theorem mFunc_consumes : Consumes mFunc := by
  intro s ts rest h
  cases s with
  | nil => simp [mFunc] at h
  | cons c cs =>
    simp only [mFunc] at h
    have h1 := span_snd_length_le isFuncCont cs
    generalize (cs.span isFuncCont) = pr at h h1
    obtain ⟨n, r⟩ := pr
    simp only at h h1
    split at h
    · split at h
      · simp at h
      · split at h
        · rename_i r'
          split at h
          · simp at h
          · simp only [Option.some.injEq, Prod.mk.injEq] at h
            obtain ⟨_, rfl⟩ := h
            have := skipWs_length_le r'
            simp only [List.length_cons] at *; omega
        · simp at h
    · simp at h

theorem scanKey_length (s n r : Str) (h : scanKey s = some (n, r)) : r.length < s.length := by
  cases s with
  | nil => simp [scanKey] at h
  | cons c cs =>
    simp only [scanKey] at h
    have h1 := span_snd_length_le keyCont cs
    generalize (cs.span keyCont) = pr at h h1
    obtain ⟨n', r'⟩ := pr
    split at h
    · simp only [Option.some.injEq, Prod.mk.injEq] at h h1
      obtain ⟨_, rfl⟩ := h
      simp only [List.length_cons]; omega
    · simp at h

theorem mDotProp_consumes : Consumes mDotProp := by
  intro s ts rest h
  unfold mDotProp at h
  split at h
  · simp only [Option.map_eq_some_iff] at h
    obtain ⟨⟨a, r'⟩, h1, h2⟩ := h
    have := scanKey_length _ a r' h1
    cases h2
    simp only [List.length_cons]; omega
  · simp at h

theorem mDDotProp_consumes : Consumes mDDotProp := by
  intro s ts rest h
  unfold mDDotProp at h
  split at h
  · simp only [Option.map_eq_some_iff] at h
    obtain ⟨⟨a, r'⟩, h1, h2⟩ := h
    have := scanKey_length _ a r' h1
    cases h2
    simp only [List.length_cons]; omega
  · simp at h

theorem scanKeyRule_consumes (k : Kind) :
    Consumes (fun s => (scanKey s).map fun (n, r) => ([⟨k, n⟩], r)) := by
  intro s ts rest h
  simp only [Option.map_eq_some_iff] at h
  obtain ⟨⟨a, r'⟩, h1, h2⟩ := h
  have := scanKey_length _ a r' h1
  cases h2
  exact this

theorem optExp_length_le (s : Str) : (optExp s).2.length ≤ s.length := by
  unfold optExp
  split
  · rename_i e cs
    split
    · split
      · rename_i sg ds
        split
        · have h1 := span_snd_length_le Char.isDigit ds
          generalize (ds.span Char.isDigit) = pr at h1
          obtain ⟨d, r⟩ := pr
          simp only at h1 ⊢
          split
          · simp
          · simp only [List.length_cons]; omega
        · have h1 := span_snd_length_le Char.isDigit (sg :: ds)
          generalize ((sg :: ds).span Char.isDigit) = pr at h1
          obtain ⟨d, r⟩ := pr
          simp only at h1 ⊢
          split
          · simp
          · simp only [List.length_cons] at *; omega
      · simp
    · simp
  · simp

theorem optSign_length_le (s : Str) : (optSign s).2.length ≤ s.length := by
  unfold optSign
  split <;> simp

/-- a non-empty span prefix means the remainder is strictly shorter -/
theorem span_lt_of_nonempty (p : Char → Bool) (s : Str) (h : (s.span p).1.isEmpty = false) :
    (s.span p).2.length < s.length := by
  rw [span_eq] at *
  simp only at h ⊢
  have := congrArg List.length (List.takeWhile_append_dropWhile (p := p) (l := s))
  simp only [List.length_append] at this
  have : (s.takeWhile p).length ≠ 0 := by
    intro h0
    have := List.eq_nil_of_length_eq_zero h0
    simp [this] at h
  omega

theorem mFloat_consumes : Consumes mFloat := by
  intro s ts rest h
  unfold mFloat at h
  have h1 := optSign_length_le s
  generalize optSign s = pr at h h1
  obtain ⟨sg, s1⟩ := pr
  simp only at h h1
  have h2 := span_lt_of_nonempty Char.isDigit s1
  generalize (s1.span Char.isDigit) = pr2 at h h2
  obtain ⟨d, r⟩ := pr2
  simp only at h h2
  split at h
  · simp at h
  · rename_i hd
    replace h2 := h2 (by simpa using hd)
    split at h
    · rename_i r1
      have h3 := span_snd_length_le Char.isDigit r1
      generalize (r1.span Char.isDigit) = pr3 at h h3
      obtain ⟨f, r2⟩ := pr3
      simp only at h h3
      have h4 := optExp_length_le r2
      generalize optExp r2 = pr4 at h h4
      obtain ⟨ex, r3⟩ := pr4
      simp only [Option.some.injEq, Prod.mk.injEq] at h h4
      obtain ⟨_, rfl⟩ := h
      simp only [List.length_cons] at *; omega
    · simp at h

theorem mInt_consumes (uw : Char → Bool) : Consumes (mInt uw) := by
  intro s ts rest h
  unfold mInt at h
  have h1 := optSign_length_le s
  generalize optSign s = pr at h h1
  obtain ⟨sg, s1⟩ := pr
  simp only at h h1
  have h2 := span_lt_of_nonempty Char.isDigit s1
  generalize (s1.span Char.isDigit) = pr2 at h h2
  obtain ⟨d, r⟩ := pr2
  simp only at h h2
  split at h
  · simp at h
  · rename_i hd
    replace h2 := h2 (by simpa using hd)
    have h4 := optExp_length_le r
    generalize optExp r = pr4 at h h4
    obtain ⟨ex, r3⟩ := pr4
    simp only at h h4
    split at h
    · simp only [Option.some.injEq, Prod.mk.injEq] at h
      obtain ⟨_, rfl⟩ := h
      omega
    · simp at h

theorem drop_lt_of_prefix (lit s : Str) (hne : lit.isEmpty = false) (hp : lit.isPrefixOf s = true) :
    (s.drop lit.length).length < s.length := by
  rw [List.isPrefixOf_iff_prefix] at hp
  have hle := hp.length_le
  have : lit.length ≠ 0 := by
    intro h0
    have := List.eq_nil_of_length_eq_zero h0
    simp [this] at hne
  simp only [List.length_drop]
  omega

theorem mLit_consumes (k : Kind) (lit : Str) (hne : lit.isEmpty = false) : Consumes (mLit k lit) := by
  intro s ts rest h
  simp only [mLit] at h
  split at h
  · rename_i hp
    simp only [Option.some.injEq, Prod.mk.injEq] at h
    obtain ⟨_, rfl⟩ := h
    exact drop_lt_of_prefix lit s hne hp
  · simp at h

theorem mWord_consumes (uw : Char → Bool) (k : Kind) (w : Str) (hne : w.isEmpty = false) :
    Consumes (mWord uw k w) := by
  intro s ts rest h
  simp only [mWord] at h
  split at h
  · rename_i hp
    simp only [Bool.and_eq_true] at hp
    simp only [Option.some.injEq, Prod.mk.injEq] at h
    obtain ⟨_, rfl⟩ := h
    exact drop_lt_of_prefix w s hne hp.1
  · simp at h

theorem orElse_consumes (a b : M) (ha : Consumes a) (hb : Consumes b) : Consumes (orElse a b) := by
  intro s ts rest h
  simp only [orElse] at h
  split at h
  · rename_i r heq
    cases h
    exact ha s ts rest heq
  · exact hb s ts rest h

theorem mWordCI_consumes (uw : Char → Bool) (k : Kind) (u l : Char) (rest : Str) :
    Consumes (mWordCI uw k u l rest) :=
  orElse_consumes _ _ (mWord_consumes uw k _ rfl) (mWord_consumes uw k _ rfl)

theorem envRules_consumes (sp : Spell) : ∀ m ∈ envRules sp, Consumes m := by
  intro m hm
  simp only [envRules, List.mem_map, List.mem_filter] at hm
  obtain ⟨t, ⟨_, ht⟩, rfl⟩ := hm
  exact mLit_consumes t.1 t.2 (by simpa using ht)

theorem mSkip_consumes : Consumes mSkip := by
  intro s ts rest h
  cases s with
  | nil => simp [mSkip] at h
  | cons c cs =>
    simp only [mSkip] at h
    split at h
    · simp only [Option.some.injEq, Prod.mk.injEq] at h
      obtain ⟨_, rfl⟩ := h
      have := length_dropWhile_le (fun c => c == ' ' || c == '\n' || c == '\t' || c == '\r') cs
      simp only [List.length_cons]; omega
    · split at h
      · simp only [Option.some.injEq, Prod.mk.injEq] at h
        obtain ⟨_, rfl⟩ := h
        simp
      · simp at h

theorem rules_consumes (cfg : Cfg) : ∀ m ∈ rules cfg, Consumes m := by
  intro m hm
  simp only [rules, List.mem_append, List.mem_cons, List.not_mem_nil, or_false] at hm
  rcases hm with (hm | hm) | hm
  · rcases hm with rfl | rfl | rfl | rfl | rfl | rfl | rfl | rfl | rfl | rfl | rfl | rfl
    · exact mQuoted_consumes _ _
    · exact mQuoted_consumes _ _
    · exact mRe_consumes
    · exact mSlice_consumes
    · exact mFunc_consumes
    · exact mDotProp_consumes
    · exact mFloat_consumes
    · exact mInt_consumes _
    · exact mDDotProp_consumes
    · exact mLit_consumes _ _ rfl
    · exact orElse_consumes _ _ (mLit_consumes _ _ rfl) (mWord_consumes _ _ _ rfl)
    · exact orElse_consumes _ _ (mLit_consumes _ _ rfl) (mWord_consumes _ _ _ rfl)
  · exact envRules_consumes _ m hm
  · rcases hm with rfl | rfl | rfl | rfl | rfl | rfl | rfl | rfl | rfl | rfl | rfl | rfl | rfl | rfl
      | rfl | rfl | rfl | rfl | rfl | rfl | rfl | rfl | rfl | rfl | rfl | rfl | rfl
    · exact mLit_consumes _ _ rfl
    · exact mLit_consumes _ _ rfl
    · exact mWord_consumes _ _ _ rfl
    · exact mWordCI_consumes _ _ _ _ _
    · exact mWordCI_consumes _ _ _ _ _
    · exact mWordCI_consumes _ _ _ _ _
    · exact mWordCI_consumes _ _ _ _ _
    · exact mWordCI_consumes _ _ _ _ _
    · exact mWord_consumes _ _ _ rfl
    · exact mWord_consumes _ _ _ rfl
    · exact mWord_consumes _ _ _ rfl
    · exact mLit_consumes _ _ rfl
    · exact mLit_consumes _ _ rfl
    · exact mLit_consumes _ _ rfl
    · exact mLit_consumes _ _ rfl
    · exact mLit_consumes _ _ rfl
    · exact mLit_consumes _ _ rfl
    · exact mLit_consumes _ _ rfl
    · exact mLit_consumes _ _ rfl
    · exact mLit_consumes _ _ rfl
    · exact mLit_consumes _ _ rfl
    · exact mLit_consumes _ _ rfl
    · exact orElse_consumes _ _ (mWord_consumes _ _ _ rfl) (mLit_consumes _ _ rfl)
    · exact scanKeyRule_consumes _
    · exact mLit_consumes _ _ rfl
    · exact mLit_consumes _ _ rfl
    · exact mSkip_consumes

theorem firstMatch_consumes_of (ms : List M) (hms : ∀ m ∈ ms, Consumes m) (s : Str) (ts : List RawTok)
    (rest : Str) (h : firstMatch ms s = some (ts, rest)) : rest.length < s.length := by
  induction ms with
  | nil => simp [firstMatch] at h
  | cons m ms ih =>
    simp only [firstMatch] at h
    split at h
    · rename_i r heq
      cases h
      exact hms m (by simp) s ts rest heq
    · exact ih (fun m' hm' => hms m' (by simp [hm'])) h

theorem lexAux_error (cfg : Cfg) : ∀ (n : Nat) (s : Str) (e : Err), s.length ≤ n →
    lexAux cfg n s = .error e → e = .pathSyntax := by
  intro n
  induction n with
  | zero =>
    intro s e hn h
    cases s with
    | nil => simp [lexAux] at h
    | cons c cs => simp at hn
  | succ n ih =>
    intro s e hn h
    cases s with
    | nil => simp [lexAux] at h
    | cons c cs =>
      simp only [lexAux] at h
      split at h
      · rename_i ts rest heq
        have hlt := firstMatch_consumes_of _ (rules_consumes cfg) _ _ _ heq
        split at h
        · simp at h
        · rename_i e' heq2
          cases h
          exact ih rest _ (by simp only [List.length_cons] at *; omega) heq2
      · cases h; rfl

end JP.Lemmas.LexTotal
