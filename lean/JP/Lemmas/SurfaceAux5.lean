/-
  C10 helpers, part 5: the simultaneous induction over the AST, and the round trip for `parseQuery`.
-/
import JP.Lemmas.SurfaceAux4
namespace JP.Lemmas
open JP JP.Query JP.Surface

mutual
theorem allOK (pr : Prec) (hp : PrecFacts pr) (e : Expr) (h : parsedE e = true) : AllOK pr e :=
  match e, h with
  | .nil, _ => AllOK.nil pr
  | .undefined, _ => AllOK.undefined pr
  | .bool b, _ => AllOK.bool pr b
  | .int i, _ => AllOK.int pr i
  | .flt m, _ => AllOK.flt pr m
  | .str s, _ => AllOK.str pr s
  | .regex p f, _ => AllOK.regex pr p f
  | .key, _ => AllOK.key pr
  | .list items, h => by
    simp only [parsedE, Bool.and_eq_true] at h
    exact AllOK.of_atom (pfx_list pr items h.1) (fun p => by simp only [ptoksCanon])
  | .not e, h => by
    simp only [parsedE] at h
    exact AllOK.not hp (allOK pr hp e h)
  | .infix l op r, h => by
    simp only [parsedE, Bool.and_eq_true] at h
    exact AllOK.infix hp op (allOK pr hp l h.1) (allOK pr hp r h.2)
  | .self q, h => by
    simp only [parsedE] at h
    exact AllOK.of_atom (pfx_self pr q (segsOK pr hp q h)) (fun p => by simp only [ptoksCanon])
  | .root q fake, h => by
    simp only [parsedE] at h
    exact AllOK.of_atom (pfx_root pr q fake (segsOK pr hp q h)) (fun p => by simp only [ptoksCanon])
  | .ctx q, h => by
    simp only [parsedE] at h
    exact AllOK.of_atom (pfx_ctx pr q (segsOK pr hp q h)) (fun p => by simp only [ptoksCanon])
  | .func name args, h => by
    simp only [parsedE, Bool.and_eq_true] at h
    exact AllOK.of_atom (pfx_func pr name args (argsOK pr hp args h.1 h.2)) (fun p => by simp only [ptoksCanon])
termination_by sizeOf e
theorem argsOK (pr : Prec) (hp : PrecFacts pr) (es : List Expr) (h1 : es.all argShape = true)
    (h2 : parsedEs es = true) : ArgsOK pr es :=
  match es, h1, h2 with
  | [], _, _ => ArgsOK.nil pr
  | [e], h1, h2 => by
    simp only [List.all_cons, List.all_nil, Bool.and_true] at h1
    simp only [parsedEs, Bool.and_true] at h2
    exact ArgsOK.single pr e h1 (allOK pr hp e h2)
  | e :: e' :: es, h1, h2 => by
    rw [List.all_cons, Bool.and_eq_true] at h1
    rw [parsedEs, Bool.and_eq_true] at h2
    exact ArgsOK.cons pr e e' es h1.1 (allOK pr hp e h2.1) (argsOK pr hp (e' :: es) h1.2 h2.2)
termination_by sizeOf es
theorem selOK (pr : Prec) (hp : PrecFacts pr) (s : Sel) (h : parsedSel s = true) : PSelOK pr s :=
  match s, h with
  | .filter e, h => by
    simp only [parsedSel] at h
    exact PSelOK.filter pr hp e (allOK pr hp e h)
  | .name _, _ => PSelOK.other pr _ (fun e h => by cases h)
  | .index _, _ => PSelOK.other pr _ (fun e h => by cases h)
  | .slice _ _ _, _ => PSelOK.other pr _ (fun e h => by cases h)
  | .wild, _ => PSelOK.other pr _ (fun e h => by cases h)
  | .keys, _ => PSelOK.other pr _ (fun e h => by cases h)
termination_by sizeOf s
theorem selsOK (pr : Prec) (hp : PrecFacts pr) (ss : List Sel) (hne : ss.isEmpty = false)
    (h : parsedSels ss = true) : PSelsOK pr ss :=
  match ss, hne, h with
  | [], hne, _ => by simp at hne
  | [s], _, h => by
    simp only [parsedSels, Bool.and_true] at h
    exact PSelsOK.single pr s (selOK pr hp s h)
  | s :: s' :: ss, _, h => by
    rw [parsedSels, Bool.and_eq_true] at h
    exact PSelsOK.cons pr s s' ss (selOK pr hp s h.1) (selsOK pr hp (s' :: ss) rfl h.2)
termination_by sizeOf ss
theorem segsOK (pr : Prec) (hp : PrecFacts pr) (q : List Seg) (h : parsedSegs q = true) : PSegsOK pr q :=
  match q, h with
  | [], _ => PSegsOK.nil pr
  | .desc :: q, h => by
    simp only [parsedSegs] at h
    exact PSegsOK.desc pr q (segsOK pr hp q h)
  | .child sels :: q, h => by
    simp only [parsedSegs, Bool.and_eq_true, Bool.not_eq_true'] at h
    exact PSegsOK.child pr sels q (selsOK pr hp sels h.1.1 h.1.2) (segsOK pr hp q h.2)
termination_by sizeOf q
end

theorem parse_ptoks_aux (pr : Prec) (hpr : precOK pr = true) (p : Path) (hp : parsedSegs p.segs = true) :
    parseQuery pr (ptoksPath p) = .ok ⟨normSegs p.segs, p.fake⟩ := by
  have h := segsOK pr (precFacts_of pr hpr) p.segs hp (4 * (ptoksPath p).length + 8) [] rfl
    (by simp only [ptoksPath, List.length_cons]; omega)
  rw [List.append_nil] at h
  obtain ⟨segs, fake⟩ := p
  cases fake
  · simp only [ptoksPath, Bool.false_eq_true, if_false, parseQuery] at h ⊢
    rw [h]
  · simp only [ptoksPath, if_true, parseQuery] at h ⊢
    rw [h]

end JP.Lemmas
