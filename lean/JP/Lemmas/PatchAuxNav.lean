/-
  Navigation facts for C05: `getitem` / `resolveParts` / `resolveParent` / `target` /
  `writeBack` on parts made from standard reference tokens, versus `rfcStep` / `rfcEval` /
  `rfcUpdate`.
-/
import JP.Lemmas.PatchAuxDec
set_option linter.unusedSimpArgs false
namespace JP.Lemmas
open JP JP.Pointer JP.Patch

/-- A token that uses no documented pointer extension. -/
abbrev PaStd (t : Str) : Prop := isExtensionToken t = false

/-- Errors that `JSONPatch.apply` turns into (or keeps as) a patch-family error. -/
def PaErr (e : Err) : Prop :=
  e = .ptrKey ∨ e = .ptrIndex ∨ e = .ptrType ∨ e = .patch ∨ e = .patchTest

theorem pa_intStr_natCast (n : Nat) : intStr (n : Int) = natStr n := rfl

theorem pa_parse_dash : parseIndexToken ['-'] = none := by decide

theorem pa_toPart_dash : toPart ['-'] = .key ['-'] := pa_toPart_of_none _ pa_parse_dash

theorem pa_std_dash : PaStd ['-'] := by decide

theorem pa_pyListGet_nat (xs : List J) (n : Nat) : pyListGet xs (n : Int) = xs[n]? := by
  simp [pyListGet]

theorem pa_pyIndexPos_nat (len n : Nat) :
    pyIndexPos len (n : Int) = if n < len then some n else none := by
  simp [pyIndexPos]

/-! ### one step -/

theorem pa_getitem_obj (kvs : List (Str × J)) (t : Str) (ht : PaStd t) :
    getitem (.obj kvs) (toPart t) =
      match dictGet kvs t with
      | some v => .ok v
      | none => .error .ptrKey := by
  rcases pa_std_cases t ht with ⟨hn, h1, h2⟩ | ⟨n, rfl, hr⟩
  · rw [pa_toPart_of_none t hn]
    cases hg : dictGet kvs t with
    | some v => simp only [getitem, hg]; rfl
    | none =>
      cases t with
      | nil => simp only [getitem, hg]; rfl
      | cons c rest =>
        have hc1 : c ≠ '~' := fun h => h2 rest (by rw [h])
        have hc2 : c ≠ '#' := fun h => h1 rest (by rw [h])
        simp only [getitem, hg, hc1, hc2, false_or, false_and, if_false]; rfl
  · rw [pa_toPart_natStr n hr]
    cases hg : dictGet kvs (natStr n) <;> simp only [getitem, pa_intStr_natCast, hg] <;> rfl

theorem pa_getitem_arr_dash (xs : List J) : getitem (.arr xs) (.key ['-']) = .error .ptrIndex := by
  simp [getitem]; rfl

theorem pa_getitem_arr_idx (xs : List J) (n : Nat) :
    getitem (.arr xs) (.idx n) =
      match xs[n]? with
      | some v => .ok v
      | none => .error .ptrIndex := by
  unfold getitem
  simp only [pa_pyListGet_nat]
  cases xs[n]? <;> rfl

theorem pa_getitem_arr_key (xs : List J) (t : Str) (hn : parseIndexToken t = none)
    (hd : t ≠ ['-']) (hh : ∀ cs, t ≠ '#' :: cs) :
    getitem (.arr xs) (.key t) = .error .ptrType := by
  unfold getitem
  simp only [hd, if_false]
  rw [pa_indexOf_of_none t hn]; rfl

theorem pa_getitem_scalar (v : J) (p : Part) (h : v.isContainer = false) :
    getitem v p = .error .ptrType := by
  cases v <;> first | rfl | (simp [J.isContainer] at h)


theorem pa_PaErr_of_res {e : Err} (h : e.isPointerResolution = true) : PaErr e := by
  cases e <;> simp [Err.isPointerResolution, PaErr] at h ⊢

theorem pa_rfcStep_arr_natStr (xs : List J) (n : Nat) : rfcStep (.arr xs) (natStr n) = xs[n]? := by
  simp [rfcStep, pa_isCanonNat_natStr, pa_digitsVal_natStr]

theorem pa_rfcStep_arr_noncanon (xs : List J) (t : Str) (h : isCanonNat t = false) :
    rfcStep (.arr xs) t = none := by
  simp [rfcStep, h]

theorem pa_rfcStep_scalar (v : J) (t : Str) (h : v.isContainer = false) : rfcStep v t = none := by
  cases v <;> first | rfl | (simp [J.isContainer] at h)

/-- One navigation step: the code agrees with RFC 6901 on success and raises a
    pointer-resolution error otherwise. -/
theorem pa_getitem_step (v : J) (t : Str) (ht : PaStd t) :
    match rfcStep v t with
    | some w => getitem v (toPart t) = .ok w
    | none => ∃ e, getitem v (toPart t) = .error e ∧ e.isPointerResolution = true := by
  cases hv : v.isContainer with
  | false =>
    rw [pa_rfcStep_scalar v t hv, pa_getitem_scalar v _ hv]; exact ⟨_, rfl, rfl⟩
  | true =>
    cases v with
    | obj kvs =>
      rw [pa_getitem_obj kvs t ht]
      show match dictGet kvs t with | some w => _ | none => _
      cases dictGet kvs t with
      | some w => rfl
      | none => exact ⟨_, rfl, rfl⟩
    | arr xs =>
      rcases pa_std_cases t ht with ⟨hn, h1, h2⟩ | ⟨n, rfl, hr⟩
      · rw [pa_rfcStep_arr_noncanon xs t (pa_isCanonNat_of_none t hn), pa_toPart_of_none t hn]
        by_cases hd : t = ['-']
        · subst hd; rw [pa_getitem_arr_dash]; exact ⟨_, rfl, rfl⟩
        · rw [pa_getitem_arr_key xs t hn hd h1]; exact ⟨_, rfl, rfl⟩
      · rw [pa_rfcStep_arr_natStr, pa_toPart_natStr n hr, pa_getitem_arr_idx]
        cases xs[n]? with
        | some w => rfl
        | none => exact ⟨_, rfl, rfl⟩
    | _ => simp [J.isContainer] at hv

theorem pa_rfcEval_nil (v : J) : rfcEval v [] = some v := rfl

theorem pa_rfcEval_cons (v : J) (t : Str) (ts : List Str) :
    rfcEval v (t :: ts) = (rfcStep v t).bind (fun w => rfcEval w ts) := by
  simp [rfcEval]

theorem pa_rfcEval_snoc (v : J) (t : Str) (ts : List Str) :
    rfcEval v (ts ++ [t]) = (rfcEval v ts).bind (fun w => rfcStep w t) := by
  simp [rfcEval, List.foldlM_append]

theorem pa_resolveParts_nil (v : J) : resolveParts v [] = .ok v := rfl

theorem pa_resolveParts_cons (v : J) (p : Part) (ps : List Part) :
    resolveParts v (p :: ps) = (getitem v p).bind (fun w => resolveParts w ps) := by
  simp [resolveParts]; rfl

theorem pa_toParts_cons (t : Str) (ts : List Str) : toParts (t :: ts) = toPart t :: toParts ts := rfl

theorem pa_toParts_snoc (t : Str) (ts : List Str) : toParts (ts ++ [t]) = toParts ts ++ [toPart t] := by
  simp [toParts]

theorem pa_resolveParts_eval (ts : List Str) (hts : ∀ t ∈ ts, PaStd t) (v : J) :
    match rfcEval v ts with
    | some w => resolveParts v (toParts ts) = .ok w
    | none => ∃ e, resolveParts v (toParts ts) = .error e ∧ e.isPointerResolution = true := by
  induction ts generalizing v with
  | nil => rfl
  | cons t ts ih =>
    rw [pa_rfcEval_cons, pa_toParts_cons, pa_resolveParts_cons]
    have hstep := pa_getitem_step v t (hts t (by simp))
    cases hs : rfcStep v t with
    | none =>
      rw [hs] at hstep
      obtain ⟨e, he, hres⟩ := hstep
      rw [he]; exact ⟨e, rfl, hres⟩
    | some w =>
      rw [hs] at hstep
      rw [hstep]
      exact ih (fun t' ht' => hts t' (by simp [ht'])) w

theorem pa_resolveParts_some (ts : List Str) (hts : ∀ t ∈ ts, PaStd t) (v w : J)
    (h : rfcEval v ts = some w) : resolveParts v (toParts ts) = .ok w := by
  have := pa_resolveParts_eval ts hts v; rw [h] at this; exact this

theorem pa_resolveParts_none (ts : List Str) (hts : ∀ t ∈ ts, PaStd t) (v : J)
    (h : rfcEval v ts = none) :
    ∃ e, resolveParts v (toParts ts) = .error e ∧ e.isPointerResolution = true := by
  have := pa_resolveParts_eval ts hts v; rw [h] at this; exact this


/-! ### `Except` plumbing -/

theorem pa_bind_ok {ε α β} (a : α) (f : α → Except ε β) : (Except.ok a >>= f) = f a := rfl
theorem pa_bind_error {ε α β} (e : ε) (f : α → Except ε β) :
    (Except.error e >>= f) = Except.error e := rfl
theorem pa_pure {ε α} (a : α) : (pure a : Except ε α) = Except.ok a := rfl
theorem pa_throw {ε α} (e : ε) : (throw e : Except ε α) = Except.error e := rfl

/-! ### `target` on `ps ++ [p]` -/

theorem pa_target_nil (doc : J) : target doc [] = .ok (none, .key [], some doc) := by
  simp [target, resolveParent, pa_bind_ok, pa_pure]

theorem pa_target_err (doc : J) (ps : List Part) (p : Part) (e : Err)
    (h : resolveParts doc ps = .error e) : target doc (ps ++ [p]) = .error e := by
  simp [target, resolveParent, h, pa_bind_error]

theorem pa_target_obj (doc : J) (ps : List Part) (p : Part) (kvs : List (Str × J))
    (h : resolveParts doc ps = .ok (.obj kvs))
    (hg : getitem (.obj kvs) p =
      (match dictGet kvs (partStr p) with | some v => .ok v | none => .error .ptrKey)) :
    target doc (ps ++ [p]) = .ok (some (.obj kvs), .key (partStr p), dictGet kvs (partStr p)) := by
  cases hd : dictGet kvs (partStr p) <;> rw [hd] at hg <;>
  simp [target, resolveParent, h, hg, hd, pa_bind_ok, pa_bind_error, pa_pure, pa_throw]

theorem pa_target_arr_dash (doc : J) (ps : List Part) (xs : List J)
    (h : resolveParts doc ps = .ok (.arr xs)) :
    target doc (ps ++ [.key ['-']]) = .ok (some (.arr xs), .key ['-'], none) := by
  simp [target, resolveParent, h, pa_getitem_arr_dash, pa_bind_ok, pa_bind_error, pa_pure, pa_throw]

theorem pa_target_arr_idx (doc : J) (ps : List Part) (xs : List J) (n : Nat)
    (h : resolveParts doc ps = .ok (.arr xs)) :
    target doc (ps ++ [.idx n]) = .ok (some (.arr xs), .idx n, xs[n]?) := by
  cases hd : xs[n]? <;>
  simp [target, resolveParent, h, pa_getitem_arr_idx, hd, pa_bind_ok, pa_bind_error, pa_pure,
    pa_throw]

theorem pa_target_type (doc : J) (ps : List Part) (p : Part) (parent : J)
    (h : resolveParts doc ps = .ok parent) (hg : getitem parent p = .error .ptrType) :
    target doc (ps ++ [p]) = .error .ptrType := by
  simp [target, resolveParent, h, hg, pa_bind_ok, pa_bind_error, pa_pure, pa_throw]

/-! ### `target` on standard tokens -/

theorem pa_partStr_toPart_std (t : Str) (ht : PaStd t) : partStr (toPart t) = t := by
  rcases pa_std_cases t ht with ⟨hn, _, _⟩ | ⟨n, rfl, hr⟩
  · rw [pa_toPart_of_none t hn]; rfl
  · rw [pa_toPart_natStr n hr]; rfl

theorem pa_tgt_none (doc : J) (init : List Str) (t : Str) (hinit : ∀ t ∈ init, PaStd t)
    (h : rfcEval doc init = none) :
    ∃ e, target doc (toParts (init ++ [t])) = .error e ∧ e.isPointerResolution = true := by
  obtain ⟨e, he, hres⟩ := pa_resolveParts_none init hinit doc h
  exact ⟨e, by rw [pa_toParts_snoc, pa_target_err _ _ _ _ he], hres⟩

theorem pa_tgt_obj (doc : J) (init : List Str) (t : Str) (hinit : ∀ t ∈ init, PaStd t)
    (ht : PaStd t) (kvs : List (Str × J)) (h : rfcEval doc init = some (.obj kvs)) :
    target doc (toParts (init ++ [t])) = .ok (some (.obj kvs), .key t, dictGet kvs t) := by
  have hr := pa_resolveParts_some init hinit doc _ h
  have hg := pa_getitem_obj kvs t ht
  rw [pa_toParts_snoc]
  have := pa_target_obj doc (toParts init) (toPart t) kvs hr
    (by rw [pa_partStr_toPart_std t ht]; exact hg)
  rw [pa_partStr_toPart_std t ht] at this
  exact this

theorem pa_tgt_arr_dash (doc : J) (init : List Str) (hinit : ∀ t ∈ init, PaStd t)
    (xs : List J) (h : rfcEval doc init = some (.arr xs)) :
    target doc (toParts (init ++ [['-']])) = .ok (some (.arr xs), .key ['-'], none) := by
  have hr := pa_resolveParts_some init hinit doc _ h
  rw [pa_toParts_snoc, pa_toPart_dash]
  exact pa_target_arr_dash doc _ xs hr

theorem pa_tgt_arr_nat (doc : J) (init : List Str) (n : Nat) (hinit : ∀ t ∈ init, PaStd t)
    (hn : (n : Int) ≤ maxIntIndex) (xs : List J) (h : rfcEval doc init = some (.arr xs)) :
    target doc (toParts (init ++ [natStr n])) = .ok (some (.arr xs), .idx n, xs[n]?) := by
  have hr := pa_resolveParts_some init hinit doc _ h
  rw [pa_toParts_snoc, pa_toPart_natStr n hn]
  exact pa_target_arr_idx doc _ xs n hr

theorem pa_tgt_arr_bad (doc : J) (init : List Str) (t : Str) (hinit : ∀ t ∈ init, PaStd t)
    (hn : parseIndexToken t = none) (hd : t ≠ ['-']) (hh : ∀ cs, t ≠ '#' :: cs)
    (xs : List J) (h : rfcEval doc init = some (.arr xs)) :
    target doc (toParts (init ++ [t])) = .error .ptrType := by
  have hr := pa_resolveParts_some init hinit doc _ h
  rw [pa_toParts_snoc, pa_toPart_of_none t hn]
  exact pa_target_type doc _ _ _ hr (pa_getitem_arr_key xs t hn hd hh)

theorem pa_tgt_scalar (doc : J) (init : List Str) (t : Str) (hinit : ∀ t ∈ init, PaStd t)
    (p : J) (hp : p.isContainer = false) (h : rfcEval doc init = some p) :
    target doc (toParts (init ++ [t])) = .error .ptrType := by
  have hr := pa_resolveParts_some init hinit doc _ h
  rw [pa_toParts_snoc]
  exact pa_target_type doc _ _ _ hr (pa_getitem_scalar p _ hp)

/-! ### `writeBack` versus `rfcUpdate` -/

theorem pa_rfcStep_arr_some (xs : List J) (t : Str) (ht : PaStd t) (c : J)
    (h : rfcStep (.arr xs) t = some c) :
    ∃ n : Nat, t = natStr n ∧ (n : Int) ≤ maxIntIndex ∧ n < xs.length ∧ xs[n]? = some c := by
  rcases pa_std_cases t ht with ⟨hn, _, _⟩ | ⟨n, rfl, hr⟩
  · rw [pa_rfcStep_arr_noncanon xs t (pa_isCanonNat_of_none t hn)] at h; cases h
  · rw [pa_rfcStep_arr_natStr] at h
    refine ⟨n, rfl, hr, ?_, h⟩
    rcases Nat.lt_or_ge n xs.length with hl | hl
    · exact hl
    · rw [List.getElem?_eq_none hl] at h; cases h

theorem pa_arrayIndex_natStr (n len : Nat) :
    arrayIndex (natStr n) len = if n < len then some n else none := by
  simp [arrayIndex, pa_isCanonNat_natStr, pa_digitsVal_natStr]

theorem pa_arrayIndex_noncanon (t : Str) (len : Nat) (h : isCanonNat t = false) :
    arrayIndex t len = none := by
  simp [arrayIndex, h]

theorem pa_rfcUpdate_none (ts : List Str) (doc : J) (f : J → Option J)
    (h : rfcEval doc ts = none) : rfcUpdate doc ts f = none := by
  induction ts generalizing doc with
  | nil => cases h
  | cons t ts ih =>
    rw [pa_rfcEval_cons] at h
    cases doc with
    | obj kvs =>
      simp only [rfcUpdate]
      cases hd : dictGet kvs t with
      | none => rfl
      | some c =>
        have : rfcStep (.obj kvs) t = some c := hd
        rw [this] at h
        simp only [Option.bind_some] at h
        simp [ih c h]
    | arr xs =>
      simp only [rfcUpdate]
      cases ha : arrayIndex t xs.length with
      | none => rfl
      | some n =>
        simp only [arrayIndex] at ha
        split at ha
        · rename_i hc
          cases ha
          cases hx : xs[digitsVal t]? with
          | none => simp only [hx]
          | some c =>
            have : rfcStep (.arr xs) t = some c := by simp [rfcStep, hc.1, hx]
            rw [this] at h
            simp only [Option.bind_some] at h
            simp [hx, ih c h]
        · cases ha
    | _ => rfl

theorem pa_rfcUpdate_some (ts : List Str) (doc p : J) (f : J → Option J)
    (h : rfcEval doc ts = some p) :
    rfcUpdate doc ts f = (f p).bind (fun new => rfcUpdate doc ts (fun _ => some new)) := by
  induction ts generalizing doc with
  | nil =>
    cases h
    simp only [rfcUpdate]
    cases hf : f p <;> simp
  | cons t ts ih =>
    rw [pa_rfcEval_cons] at h
    cases doc with
    | obj kvs =>
      simp only [rfcUpdate]
      cases hd : dictGet kvs t with
      | none =>
        have : rfcStep (.obj kvs) t = none := hd
        rw [this] at h; cases h
      | some c =>
        have : rfcStep (.obj kvs) t = some c := hd
        rw [this] at h
        simp only [Option.bind_some] at h
        simp only [ih c h]
        cases hf : f p <;> simp
    | arr xs =>
      simp only [rfcUpdate]
      cases ha : arrayIndex t xs.length with
      | none =>
        exfalso
        simp only [arrayIndex] at ha
        split at ha
        · cases ha
        · rename_i hc
          simp only [rfcStep] at h
          split at h
          · rename_i hcan
            cases hx : xs[digitsVal t]? with
            | none => rw [hx] at h; cases h
            | some c =>
              apply hc
              refine ⟨hcan, ?_⟩
              rcases Nat.lt_or_ge (digitsVal t) xs.length with hl | hl
              · exact hl
              · rw [List.getElem?_eq_none hl] at hx; cases hx
          · cases h
      | some n =>
        simp only [arrayIndex] at ha
        split at ha
        · rename_i hc
          cases ha
          cases hx : xs[digitsVal t]? with
          | none =>
            have : rfcStep (.arr xs) t = none := by simp [rfcStep, hc.1, hx]
            rw [this] at h; cases h
          | some c =>
            have : rfcStep (.arr xs) t = some c := by simp [rfcStep, hc.1, hx]
            rw [this] at h
            simp only [Option.bind_some] at h
            simp only [hx, ih c h]
            cases hf : f p <;> simp
        · cases ha
    | _ => cases h

theorem pa_writeBack (ts : List Str) (hts : ∀ t ∈ ts, PaStd t) (doc p new : J)
    (h : rfcEval doc ts = some p) :
    ∃ d, writeBack doc (toParts ts) new = .ok d ∧
      rfcUpdate doc ts (fun _ => some new) = some d := by
  induction ts generalizing doc with
  | nil => exact ⟨new, rfl, rfl⟩
  | cons t ts ih =>
    have ht := hts t (by simp)
    have hts' : ∀ t' ∈ ts, PaStd t' := fun t' h' => hts t' (by simp [h'])
    rw [pa_rfcEval_cons] at h
    cases doc with
    | obj kvs =>
      cases hd : dictGet kvs t with
      | none =>
        have : rfcStep (.obj kvs) t = none := hd
        rw [this] at h; cases h
      | some c =>
        have : rfcStep (.obj kvs) t = some c := hd
        rw [this] at h
        simp only [Option.bind_some] at h
        obtain ⟨d, hw, hu⟩ := ih hts' c h
        refine ⟨.obj (dictSet kvs t d), ?_, ?_⟩
        · simp [pa_toParts_cons, writeBack, slotOf, pa_partStr_toPart_std t ht, dictHas, hd, hw,
            pa_bind_ok, pa_pure]
        · simp [rfcUpdate, hd, hu]
    | arr xs =>
      cases hs : rfcStep (.arr xs) t with
      | none => rw [hs] at h; cases h
      | some c =>
        rw [hs] at h
        simp only [Option.bind_some] at h
        obtain ⟨n, rfl, hr, hl, hx⟩ := pa_rfcStep_arr_some xs t ht c hs
        obtain rfl : c = xs[n] := by
          rw [List.getElem?_eq_getElem hl] at hx; exact (Option.some.inj hx).symm
        obtain ⟨d, hw, hu⟩ := ih hts' _ h
        refine ⟨.arr (xs.set n d), ?_, ?_⟩
        · simp [pa_toParts_cons, writeBack, slotOf, pa_toPart_natStr n hr, pa_pyIndexPos_nat, hl,
            hx, hw, pa_bind_ok, pa_pure]
        · simp [rfcUpdate, pa_arrayIndex_natStr, hl, hx, hu]
    | _ => cases h

theorem pa_update_ok (ts : List Str) (hts : ∀ t ∈ ts, PaStd t) (doc p new : J) (f : J → Option J)
    (h : rfcEval doc ts = some p) (hf : f p = some new) :
    ∃ d, writeBack doc (toParts ts) new = .ok d ∧ rfcUpdate doc ts f = some d := by
  obtain ⟨d, hw, hu⟩ := pa_writeBack ts hts doc p new h
  exact ⟨d, hw, by rw [pa_rfcUpdate_some ts doc p f h, hf]; exact hu⟩

theorem pa_update_fail (ts : List Str) (doc p : J) (f : J → Option J)
    (h : rfcEval doc ts = some p) (hf : f p = none) : rfcUpdate doc ts f = none := by
  rw [pa_rfcUpdate_some ts doc p f h, hf]; rfl

end JP.Lemmas
