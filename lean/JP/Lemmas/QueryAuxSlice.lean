/-
  Slice arithmetic: the RFC 9535 loops as arithmetic progressions, and the agreement of
  CPython's `slice.indices` + `range` with RFC 9535 Normalize/Bounds.
-/
import JP.Lemmas.QueryDefs
namespace JP.Lemmas
open JP JP.Query

/-- number of terms of a progression covering a gap `a` with stride `d` -/
def progCount (a d : Int) : Nat := ((a + d - 1) / d).toNat

theorem progCount_nonpos {a d : Int} (hd : 0 < d) (ha : a ≤ 0) : progCount a d = 0 := by
  unfold progCount
  have : (a + d - 1) / d < 1 := by
    rw [Int.ediv_lt_iff_lt_mul hd]; omega
  omega

theorem progCount_pos {a d : Int} (hd : 0 < d) (ha : 0 < a) :
    progCount a d = progCount (a - d) d + 1 := by
  unfold progCount
  have h1 : a + d - 1 = (a - 1) + 1 * d := by omega
  have h2 : a - d + d - 1 = a - 1 := by omega
  rw [h1, Int.add_mul_ediv_right _ _ (by omega), h2]
  have : 0 ≤ (a - 1) / d := Int.ediv_nonneg (by omega) (by omega)
  omega

theorem range_succ_map {α} (k : Nat) (f : Nat → α) :
    (List.range (k + 1)).map f = f 0 :: (List.range k).map (fun j => f (j + 1)) := by
  rw [List.range_succ_eq_map]; simp [List.map_map, Function.comp_def]

theorem loopUp_eq (st : Int) (hs : 0 < st) (upper : Int) :
    ∀ (m : Nat) (i : Int), (upper - i).toNat ≤ m →
      Rfc.loopUp i upper st hs =
        (List.range (progCount (upper - i) st)).map (fun (j : Nat) => i + st * (j : Int)) := by
  intro m
  induction m with
  | zero =>
    intro i hm
    rw [Rfc.loopUp]
    have : ¬ i < upper := by omega
    simp [this, progCount_nonpos hs (show upper - i ≤ 0 by omega)]
  | succ m ih =>
    intro i hm
    rw [Rfc.loopUp]
    by_cases h : i < upper
    · simp only [h, dite_true]
      rw [progCount_pos hs (by omega), range_succ_map, ih (i + st) (by omega)]
      have e : upper - (i + st) = upper - i - st := by omega
      rw [e]
      simp only [Int.natCast_zero, Int.mul_zero, Int.add_zero, List.cons.injEq, true_and]
      apply List.map_congr_left
      intro j _
      simp only [Int.natCast_add, Int.natCast_one, Int.mul_add, Int.mul_one]
      omega
    · simp [h, progCount_nonpos hs (show upper - i ≤ 0 by omega)]

theorem loopDown_eq (st : Int) (hs : st < 0) (lower : Int) :
    ∀ (m : Nat) (i : Int), (i - lower).toNat ≤ m →
      Rfc.loopDown i lower st hs =
        (List.range (progCount (i - lower) (-st))).map (fun (j : Nat) => i + st * (j : Int)) := by
  intro m
  induction m with
  | zero =>
    intro i hm
    rw [Rfc.loopDown]
    have : ¬ lower < i := by omega
    simp [this, progCount_nonpos (show 0 < -st by omega) (show i - lower ≤ 0 by omega)]
  | succ m ih =>
    intro i hm
    rw [Rfc.loopDown]
    by_cases h : lower < i
    · simp only [h, dite_true]
      rw [progCount_pos (by omega) (by omega), range_succ_map, ih (i + st) (by omega)]
      have e : i + st - lower = i - lower - -st := by omega
      rw [e]
      simp only [Int.natCast_zero, Int.mul_zero, Int.add_zero, List.cons.injEq, true_and]
      apply List.map_congr_left
      intro j _
      simp only [Int.natCast_add, Int.natCast_one, Int.mul_add, Int.mul_one]
      omega
    · simp [h, progCount_nonpos (show 0 < -st by omega) (show i - lower ≤ 0 by omega)]

theorem pyRange_pos {s e st : Int} (hs : 0 < st) :
    pyRange s e st = (List.range (progCount (e - s) st)).map (fun (k : Nat) => s + st * (k : Int)) := by
  unfold pyRange
  simp only [gt_iff_lt, hs, if_true]
  by_cases h : s < e
  · simp [h, progCount]
  · simp [h, progCount_nonpos hs (show e - s ≤ 0 by omega)]

theorem pyRange_neg {s e st : Int} (hs : st < 0) :
    pyRange s e st = (List.range (progCount (s - e) (-st))).map (fun (k : Nat) => s + st * (k : Int)) := by
  unfold pyRange
  have h1 : ¬ st > 0 := by omega
  simp only [h1, if_false, hs, if_true]
  by_cases h : s > e
  · simp only [h, if_true, progCount]
    have : s - e - st - 1 = s - e + -st - 1 := by omega
    rw [this]
  · simp [h, progCount_nonpos (show 0 < -st by omega) (show s - e ≤ 0 by omega)]

theorem code_bounds_pos (start stop : Option Int) (st : Int) (len : Nat) (hs : 0 < st) :
    Query.sliceIndices start stop st len =
      Rfc.bounds (start.getD 0) (stop.getD len) st len := by
  unfold Query.sliceIndices Rfc.bounds Rfc.normalize
  have h1 : st > 0 := hs
  have h2 : st ≥ 0 := by omega
  simp only [h1, h2, if_true]
  cases start <;> cases stop <;> simp only [Option.getD] <;> ext <;> simp only <;> (repeat' split) <;> omega

theorem code_bounds_neg (start stop : Option Int) (st : Int) (len : Nat) (hs : st < 0) :
    Query.sliceIndices start stop st len =
      ((Rfc.bounds (start.getD (len - 1)) (stop.getD (-len - 1)) st len).2,
       (Rfc.bounds (start.getD (len - 1)) (stop.getD (-len - 1)) st len).1) := by
  unfold Query.sliceIndices Rfc.bounds Rfc.normalize
  have h1 : ¬ st > 0 := by omega
  have h2 : ¬ st ≥ 0 := by omega
  simp only [h1, h2, if_false]
  cases start <;> cases stop <;> simp only [Option.getD] <;> ext <;> simp only <;> (repeat' split) <;> omega

theorem slice_refines_rfc_aux (start stop step : Option Int) (len : Nat) :
    codeSlice start stop step len = Rfc.sliceIndices start stop step len := by
  unfold codeSlice Rfc.sliceIndices
  by_cases h0 : step.getD 1 = 0
  · simp [h0]
  · by_cases hp : 0 < step.getD 1
    · simp only [h0, hp, if_false, dite_false, dite_true]
      rw [code_bounds_pos _ _ _ _ hp, pyRange_pos hp, loopUp_eq _ hp _ _ _ (Nat.le_refl _)]
    · have hn : step.getD 1 < 0 := by omega
      simp only [h0, hp, if_false, dite_false]
      rw [code_bounds_neg _ _ _ _ hn, pyRange_neg hn, loopDown_eq _ hn _ _ _ (Nat.le_refl _)]

theorem progCount_lt {a d : Int} (hd : 0 < d) {j : Nat} (h : j < progCount a d) : d * (j : Int) < a := by
  unfold progCount at h
  have h1 : (j : Int) + 1 ≤ (a + d - 1) / d := by omega
  rw [Int.le_ediv_iff_mul_le hd, Int.add_mul, Int.mul_comm] at h1
  omega

theorem mem_loopUp {st : Int} (hs : 0 < st) {i upper x : Int} (h : x ∈ Rfc.loopUp i upper st hs) :
    i ≤ x ∧ x < upper := by
  rw [loopUp_eq st hs upper _ i (Nat.le_refl _)] at h
  simp only [List.mem_map, List.mem_range] at h
  obtain ⟨j, hj, rfl⟩ := h
  have := progCount_lt hs hj
  have h2 : 0 ≤ st * (j : Int) := Int.mul_nonneg (by omega) (by omega)
  omega

theorem mem_loopDown {st : Int} (hs : st < 0) {i lower x : Int} (h : x ∈ Rfc.loopDown i lower st hs) :
    lower < x ∧ x ≤ i := by
  rw [loopDown_eq st hs lower _ i (Nat.le_refl _)] at h
  simp only [List.mem_map, List.mem_range] at h
  obtain ⟨j, hj, rfl⟩ := h
  have := progCount_lt (show 0 < -st by omega) hj
  have h2 : 0 ≤ (-st) * (j : Int) := Int.mul_nonneg (by omega) (by omega)
  rw [Int.neg_mul] at this h2
  omega

theorem slice_in_range_aux (start stop step : Option Int) (len : Nat) :
    ∀ i ∈ Rfc.sliceIndices start stop step len, 0 ≤ i ∧ i < len := by
  intro i hi
  unfold Rfc.sliceIndices at hi
  by_cases h0 : step.getD 1 = 0
  · simp [h0] at hi
  · by_cases hp : 0 < step.getD 1
    · simp only [h0, hp, dite_false, dite_true] at hi
      have := mem_loopUp hp hi
      have hge : step.getD 1 ≥ 0 := by omega
      simp only [Rfc.bounds, hge, if_true] at this
      omega
    · simp only [h0, hp, dite_false] at hi
      have := mem_loopDown (by omega) hi
      have hge : ¬ step.getD 1 ≥ 0 := by omega
      simp only [Rfc.bounds, hge, if_false] at this
      omega

end JP.Lemmas
