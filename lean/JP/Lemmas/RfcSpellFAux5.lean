/-
  RfcSpellF helpers, part 5: the lexer on an RFC 9535 number literal.
-/
import JP.Lemmas.RfcSpellFAux4
set_option linter.unusedSimpArgs false
namespace JP.Lemmas.RfcSpellF
open JP JP.Query JP.Surface JP.Lex JP.RfcSpell JP.RfcSpellF JP.Lemmas.LexPrint JP.Lemmas.RfcSpell

/-- what may follow a number -/
structure NumFol (uw : Char → Bool) (rest : Str) : Prop where
  hd : ∀ c t, rest = c :: t → c.isDigit = false ∧ c ≠ '.' ∧ c ≠ 'e' ∧ c ≠ 'E' ∧ isWord uw c = false
  sk : ∀ t, skipWs rest ≠ ':' :: t

theorem numFol_of_fol (uw : Char → Bool) {rest : Str} (h : Fol rest) : NumFol uw rest := by
  refine ⟨fun c t e => ?_, fol_skipWs h⟩
  subst e
  have hf := flc_facts uw (fol_head h)
  exact ⟨hf.2.2.2.1, hf.2.2.2.2.1, hf.2.2.2.2.2.1, hf.2.2.2.2.2.2.1, hf.1⟩

theorem NumFol.stops_digit {uw : Char → Bool} {rest : Str} (h : NumFol uw rest) : stops Char.isDigit rest = true := by
  cases rest with
  | nil => rfl
  | cons c t => simp [stops, (h.hd c t rfl).1]

theorem NumFol.stops_word {uw : Char → Bool} {rest : Str} (h : NumFol uw rest) : stops (isWord uw) rest = true := by
  cases rest with
  | nil => rfl
  | cons c t => simp [stops, (h.hd c t rfl).2.2.2.2]

theorem NumFol.not_dot {uw : Char → Bool} {rest : Str} (h : NumFol uw rest) (t : Str) : rest ≠ '.' :: t := by
  rintro rfl
  exact (h.hd _ _ rfl).2.1 rfl

theorem NumFol.optExp {uw : Char → Bool} {rest : Str} (h : NumFol uw rest) : optExp rest = ([], rest) :=
  optExp_none (fun c t e => ⟨(h.hd c t e).2.2.1, (h.hd c t e).2.2.2.1⟩)

/-! ### the rules tried at a digit or `-` -/

theorem mSlice_after_int {iw : Str} (hw : IntText iw) (tail : Str) (h1 : stops Char.isDigit tail = true)
    (h2 : ∀ t, skipWs tail ≠ ':' :: t) : mSlice (iw ++ tail) = none := by
  unfold mSlice
  rw [optInt_intText hw tail h1]
  simp only []
  try (split <;> first | rfl | (rename_i heq; exact absurd heq (h2 _)))

theorem mFloat_nodot {iw : Str} (hw : IntText iw) (tail : Str) (h1 : stops Char.isDigit tail = true)
    (h2 : ∀ t, tail ≠ '.' :: t) : mFloat (iw ++ tail) = none := by
  obtain ⟨sg, D, rfl, hs, hne, hall, hsg⟩ := intText_sign hw tail
  unfold mFloat
  rw [hs]
  simp only [span_stops _ _ _ hall h1, hne, Bool.false_eq_true, if_false]
  try (split <;> first | rfl | (rename_i r1; exact absurd rfl (h2 r1)))

theorem mFloat_dot {iw : Str} (hw : IntText iw) (f : Str) (hf : f.all Char.isDigit = true) (ex X rest : Str)
    (hX : stops Char.isDigit X = true) (hexp : optExp X = (ex, rest)) :
    mFloat (iw ++ '.' :: (f ++ X)) = some ([⟨.flt, iw ++ '.' :: (f ++ ex)⟩], rest) := by
  obtain ⟨sg, D, rfl, hs, hne, hall, hsg⟩ := intText_sign hw ('.' :: (f ++ X))
  unfold mFloat
  rw [hs]
  simp only [span_stops _ _ _ hall (stops_digit_dot _), hne, Bool.false_eq_true, if_false,
    span_stops _ _ _ hf hX, hexp, List.append_assoc, List.cons_append]

def expKind : Str → Kind
  | _ :: '-' :: _ => .flt
  | _ => .int

theorem mInt_num (uw : Char → Bool) {iw : Str} (hw : IntText iw) (ex tail rest : Str)
    (h1 : stops Char.isDigit tail = true) (hexp : optExp tail = (ex, rest)) (hb : stops (isWord uw) rest = true) :
    mInt uw (iw ++ tail) = some ([⟨expKind ex, iw ++ ex⟩], rest) := by
  obtain ⟨sg, D, rfl, hs, hne, hall, hsg⟩ := intText_sign hw tail
  unfold mInt
  rw [hs]
  simp only [span_stops _ _ _ hall h1, hne, Bool.false_eq_true, if_false, hexp, atBoundary_eq, hb, if_true]
  rfl

theorem fm_num_flt (uw : Char → Bool) {iw : Str} (hw : IntText iw) (tail : Str) (x : List RawTok × Str)
    (h4 : mSlice (iw ++ tail) = none) (h7 : mFloat (iw ++ tail) = some x) :
    firstMatch (R uw) (iw ++ tail) = some x := by
  obtain ⟨c, t, rfl, hc⟩ := intText_head hw
  obtain ⟨f1, f2, f3, f4, f5, f6, f7⟩ := intHead_facts hc
  rw [List.cons_append] at h4 h7 ⊢
  simp only [R, firstMatch, mQuoted_ne _ _ f1, mQuoted_ne _ _ f2, mRe_ne _ f3, h4, mFunc_not_lower _ f5,
    mDotProp_ne _ f4, h7]

theorem fm_num_int (uw : Char → Bool) {iw : Str} (hw : IntText iw) (tail : Str) (x : List RawTok × Str)
    (h4 : mSlice (iw ++ tail) = none) (h7 : mFloat (iw ++ tail) = none) (h8 : mInt uw (iw ++ tail) = some x) :
    firstMatch (R uw) (iw ++ tail) = some x := by
  obtain ⟨c, t, rfl, hc⟩ := intText_head hw
  obtain ⟨f1, f2, f3, f4, f5, f6, f7⟩ := intHead_facts hc
  rw [List.cons_append] at h4 h7 h8 ⊢
  simp only [R, firstMatch, mQuoted_ne _ _ f1, mQuoted_ne _ _ f2, mRe_ne _ f3, h4, mFunc_not_lower _ f5,
    mDotProp_ne _ f4, h7, h8]

/-! ### which numbers are floats -/

theorem intText_mem {iw : Str} (h : IntText iw) : ∀ c ∈ iw, (c == '-' || c.isDigit) = true := by
  cases h with
  | pos d ds hd hds =>
    intro c hc
    simp only [List.mem_cons] at hc
    simp only [List.all_eq_true] at hds
    rcases hc with rfl | hc
    · simp [hd]
    · simp [hds c hc]
  | neg d ds hd hds =>
    intro c hc
    simp only [List.mem_cons] at hc
    simp only [List.all_eq_true] at hds
    rcases hc with rfl | rfl | hc
    · rfl
    · simp [hd]
    · simp [hds c hc]

theorem not_contains {l : Str} {a : Char} (h : ∀ c ∈ l, c ≠ a) : l.contains a = false := by
  simp only [List.contains_eq_mem, decide_eq_false_iff_not]
  intro hm; exact h a hm rfl

theorem intText_no_dot {iw : Str} (h : IntText iw) : ∀ c ∈ iw, c ≠ '.' := by
  intro c hc
  have := intText_mem h c hc
  simp only [Bool.or_eq_true, beq_iff_eq] at this
  rcases this with rfl | hd
  · decide
  · exact (digit_ne hd).2.2.2.2

theorem digits_ne {ds : Str} (h : ds.all Char.isDigit = true) : (∀ c ∈ ds, c ≠ '.') ∧ (∀ c ∈ ds, c ≠ '-') := by
  simp only [List.all_eq_true] at h
  exact ⟨fun c hc => (digit_ne (h c hc)).2.2.2.2, fun c hc => (digit_ne (h c hc)).2.1⟩

theorem isFloatText_int {iw : Str} (h : IntText iw) : isFloatText iw = false := by
  have h2 : iw.dropWhile (fun c => c == '-' || c.isDigit) = [] := by
    have := List.dropWhile_append_of_pos (p := fun c => c == '-' || c.isDigit) (l₂ := []) (intText_mem h)
    simpa using this
  simp only [isFloatText, not_contains (intText_no_dot h), h2, Bool.false_or]
  rfl

theorem isFloatText_dot (iw f ex : Str) : isFloatText (iw ++ ('.' :: f ++ ex)) = true := by
  simp [isFloatText]

theorem isFloatText_exp {iw ex : Str} (h : IntText iw) (hx : ExpText ex) :
    isFloatText (iw ++ ex) = (expKind ex == Kind.flt) := by
  cases hx with
  | mk e sg ds he hsg hne hds =>
    obtain ⟨d0, ds', rfl⟩ : ∃ d0 ds', ds = d0 :: ds' := by
      cases ds with
      | nil => exact absurd rfl hne
      | cons a b => exact ⟨a, b, rfl⟩
    have hd0 : d0.isDigit = true := by simp only [List.all_cons, Bool.and_eq_true] at hds; exact hds.1
    obtain ⟨n1, n2, _, _, n5⟩ := digit_ne hd0
    obtain ⟨hnd, hnm⟩ := digits_ne hds
    have hdrop : ∀ t : Str, (iw ++ e :: t).dropWhile (fun c => c == '-' || c.isDigit) = e :: t := by
      intro t
      rw [List.dropWhile_append_of_pos (intText_mem h)]
      rcases he with rfl | rfl <;> rfl
    have hedot : e ≠ '.' := by rcases he with rfl | rfl <;> decide
    have hem : e ≠ '-' := by rcases he with rfl | rfl <;> decide
    have hc1 : ∀ t : Str, (∀ c ∈ t, c ≠ '.') → (iw ++ e :: t).contains '.' = false := by
      intro t ht
      apply not_contains
      intro c hc
      simp only [List.mem_append, List.mem_cons] at hc
      rcases hc with hc | rfl | hc
      · exact intText_no_dot h c hc
      · exact hedot
      · exact ht c hc
    rcases hsg with rfl | rfl | rfl
    · -- no sign
      have e1 : isFloatText (iw ++ e :: ([] ++ d0 :: ds')) = false := by
        simp only [isFloatText, List.nil_append, hdrop, hc1 _ hnd, Bool.false_or]
        apply not_contains
        intro c hc
        rcases List.mem_cons.mp hc with rfl | hc
        · exact hem
        · exact hnm c hc
      rw [e1]
      simp only [List.nil_append, expKind]
      split
      · rename_i heq
        simp only [List.cons.injEq] at heq
        exact absurd heq.2.1 n2
      · rfl
    · have e1 : isFloatText (iw ++ e :: (['+'] ++ d0 :: ds')) = false := by
        have hnd' : ∀ c ∈ '+' :: d0 :: ds', c ≠ '.' := by
          intro c hc
          simp only [List.mem_cons] at hc
          rcases hc with rfl | hc
          · decide
          · exact hnd c (by simpa using hc)
        simp only [isFloatText, List.cons_append, List.nil_append, hdrop, hc1 _ hnd', Bool.false_or]
        apply not_contains
        intro c hc
        simp only [List.mem_cons] at hc
        rcases hc with rfl | rfl | hc
        · exact hem
        · decide
        · exact hnm c (by simpa using hc)
      rw [e1]
      rfl
    · have e1 : isFloatText (iw ++ e :: (['-'] ++ d0 :: ds')) = true := by
        simp [isFloatText, hdrop]
      rw [e1]
      rfl

/-! ### a number literal is one token -/

theorem fm_number (uw : Char → Bool) {w : Str} (h : isRfcNumber w = true) {rest : Str} (hr : NumFol uw rest) :
    firstMatch (R uw) (w ++ rest) = some ([⟨if isFloatText w then .flt else .int, w⟩], rest) := by
  obtain ⟨iw, fr, ex, rfl, hw, hfr, hex⟩ := rfcNumber_shape h
  -- the exponent part, in front of `rest`
  have hX : stops Char.isDigit (ex ++ rest) = true ∧ optExp (ex ++ rest) = (ex, rest) ∧
      (∀ t, skipWs (ex ++ rest) ≠ ':' :: t) ∧ (∀ t, ex ++ rest ≠ '.' :: t) := by
    rcases hex with rfl | hx
    · exact ⟨hr.stops_digit, hr.optExp, hr.sk, hr.not_dot⟩
    · refine ⟨?_, optExp_expText hx rest hr.stops_digit, ?_, ?_⟩
      all_goals
        cases hx with
        | mk e sg ds he hsg hne hds =>
          rcases he with rfl | rfl <;> simp [stops, skipWs, isPyBlank]
  obtain ⟨hX1, hX2, hX3, hX4⟩ := hX
  rcases hfr with rfl | ⟨f, rfl, hfne, hf⟩
  · -- no fraction
    have e0 : iw ++ ([] ++ ex) ++ rest = iw ++ (ex ++ rest) := by simp [List.append_assoc]
    have e1 : iw ++ ([] ++ ex) = iw ++ ex := by simp
    rw [e0, e1]
    have h4 := mSlice_after_int hw (ex ++ rest) hX1 hX3
    have h7 := mFloat_nodot hw (ex ++ rest) hX1 hX4
    have h8 := mInt_num uw hw ex (ex ++ rest) rest hX1 hX2 hr.stops_word
    rw [fm_num_int uw hw _ _ h4 h7 h8]
    rcases hex with rfl | hx
    · simp only [List.append_nil, isFloatText_int hw, expKind]
      rfl
    · rw [isFloatText_exp hw hx]
      cases hk : expKind ex <;> first | rfl | (cases hx with | mk e sg ds he hsg hne hds => rcases hsg with rfl | rfl | rfl <;> simp [expKind] at hk <;> (try split at hk) <;> simp at hk)
  · -- a fraction
    have e0 : iw ++ ('.' :: f ++ ex) ++ rest = iw ++ '.' :: (f ++ (ex ++ rest)) := by simp [List.append_assoc]
    rw [e0, isFloatText_dot]
    have h4 := mSlice_after_int hw ('.' :: (f ++ (ex ++ rest))) (stops_digit_dot _)
      (by intro t; simp [skipWs, isPyBlank])
    have h7 := mFloat_dot hw f hf ex (ex ++ rest) rest hX1 hX2
    rw [fm_num_flt uw hw _ _ h4 h7]
    simp

end JP.Lemmas.RfcSpellF
