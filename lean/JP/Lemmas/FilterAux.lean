/-
  Auxiliary lemmas for C02: comparison table, value unpacking, singular queries.
-/
import JP.Lemmas.Query
namespace JP.Lemmas
open JP JP.Query
set_option linter.unusedSimpArgs false

theorem num8_eq_isNumber : num8 = Rfc.isNumber := by
  funext j; cases j <;> rfl

theorem repV_none {v : V} (h : RepV v none) : v = .nodes [] ∨ v = .undef := h
theorem repV_some {v : V} {j : J} (h : RepV v (some j)) : v = .val j := h

theorem eqV_refines (va vb : V) (a b : Option J) (ha : RepV va a) (hb : RepV vb b) :
    eqV va vb = Rfc.cmpEq a b := by
  cases a with
  | none =>
    cases b with
    | none =>
      rcases repV_none ha with rfl | rfl <;> rcases repV_none hb with rfl | rfl <;>
        simp [eqV, Rfc.cmpEq]
    | some b =>
      have := repV_some hb; subst this
      rcases repV_none ha with rfl | rfl <;> simp [eqV, Rfc.cmpEq]
  | some a =>
    have := repV_some ha; subst this
    cases b with
    | none => rcases repV_none hb with rfl | rfl <;> simp [eqV, Rfc.cmpEq]
    | some b =>
      have := repV_some hb; subst this
      simp [eqV, Rfc.cmpEq]

theorem ltV_refines (va vb : V) (a b : Option J) (ha : RepV va a) (hb : RepV vb b) :
    ltV va vb = Rfc.cmpLt a b := by
  cases a with
  | none =>
    rcases repV_none ha with rfl | rfl <;> simp [ltV, Rfc.cmpLt]
  | some a =>
    have := repV_some ha; subst this
    cases b with
    | none => rcases repV_none hb with rfl | rfl <;> simp [ltV, Rfc.cmpLt]
    | some b =>
      have := repV_some hb; subst this
      cases a <;> cases b <;> simp [ltV, Rfc.cmpLt, num8, Rfc.isNumber]

theorem compare_refines_rfc_aux (rx : Rx) (op : CmpOp) (hop : isCmpOp op = true)
    (va vb : V) (a b : Option J) (ha : RepV va a) (hb : RepV vb b) :
    compare rx va op vb = Rfc.cmp op a b := by
  have e1 := eqV_refines va vb a b ha hb
  have l1 := ltV_refines va vb a b ha hb
  have l2 := ltV_refines vb va b a hb ha
  cases op <;> simp [isCmpOp] at hop <;> simp [Query.compare, Rfc.cmp, e1, l1, l2]


theorem absent_equals_only_absent_aux (rx : Rx) (va vb : V) (b : J) (ha : RepV va none)
    (hb : RepV vb (some b)) :
    Query.compare rx va .eq vb = false ∧ Query.compare rx vb .eq va = false ∧
    (∀ vc, RepV vc none → Query.compare rx va .eq vc = true) := by
  refine ⟨?_, ?_, ?_⟩
  · rw [compare_refines_rfc_aux rx .eq rfl va vb none (some b) ha hb]; rfl
  · rw [compare_refines_rfc_aux rx .eq rfl vb va (some b) none hb ha]; rfl
  · intro vc hc
    rw [compare_refines_rfc_aux rx .eq rfl va vc none none ha hc]; rfl

theorem ordering_only_numbers_or_strings_aux (a b : J)
    (h : Rfc.cmpLt (some a) (some b) = true) :
    (∃ x y, a = .str x ∧ b = .str y) ∨ ((Rfc.isNumber a).isSome ∧ (Rfc.isNumber b).isSome) := by
  cases a <;> cases b <;> simp_all [Rfc.cmpLt, Rfc.isNumber]

theorem existence_not_truthiness_aux (env : Env) (cur : J) (key : Option Part) (q : List Seg) :
    isTruthy (evalExpr env cur key (.self q)) = !(evalSegs env q [⟨[], env.rootTok, cur⟩]).isEmpty ∧
    isTruthy (evalExpr env cur key (.root q false)) =
      !(evalSegs env q [⟨[], env.rootTok, env.root⟩]).isEmpty := by
  simp [evalExpr, isTruthy]

/-! ### singular queries -/

theorem evalSel_name_length (env : Env) (n : Node) (k : Str) :
    (evalSel env n (.name k)).length ≤ 1 := by
  simp only [evalSel]
  split
  · split <;> simp
  · simp

theorem evalSel_index_length (env : Env) (n : Node) (i : Int) :
    (evalSel env n (.index i)).length ≤ 1 := by
  simp only [evalSel]
  split
  · split <;> simp
  · split <;> simp
  · simp

theorem flatMap_length_le_one {α β} (f : α → List β) (hf : ∀ a, (f a).length ≤ 1) (l : List α)
    (hl : l.length ≤ 1) : (l.flatMap f).length ≤ 1 := by
  match l, hl with
  | [], _ => simp
  | [a], _ => simpa using hf a
  | _ :: _ :: _, h => simp at h

theorem singular_le_one (env : Env) : ∀ (q : List Seg) (ns : List Node),
    Rfc.singularSegs q = true → ns.length ≤ 1 → (evalSegs env q ns).length ≤ 1
  | [], ns, _, hn => by simpa [evalSegs] using hn
  | .child [.name k] :: rest, ns, hs, hn => by
    simp only [Rfc.singularSegs] at hs
    simp only [evalSegs]
    refine singular_le_one env rest _ hs (flatMap_length_le_one _ ?_ ns hn)
    intro a; simpa [evalSels] using evalSel_name_length env a k
  | .child [.index i] :: rest, ns, hs, hn => by
    simp only [Rfc.singularSegs] at hs
    simp only [evalSegs]
    refine singular_le_one env rest _ hs (flatMap_length_le_one _ ?_ ns hn)
    intro a; simpa [evalSels] using evalSel_index_length env a i
  | .desc :: _, _, hs, _ => by simp [Rfc.singularSegs] at hs
  | .child [] :: _, _, hs, _ => by simp [Rfc.singularSegs] at hs
  | .child (_ :: _ :: _) :: _, _, hs, _ => by simp [Rfc.singularSegs] at hs
  | .child [.slice _ _ _] :: _, _, hs, _ => by simp [Rfc.singularSegs] at hs
  | .child [.wild] :: _, _, hs, _ => by simp [Rfc.singularSegs] at hs
  | .child [.keys] :: _, _, hs, _ => by simp [Rfc.singularSegs] at hs
  | .child [.filter _] :: _, _, hs, _ => by simp [Rfc.singularSegs] at hs

end JP.Lemmas
