/-
  LexPrint helpers, part 3: numbers, slices, strings, regular expressions, function names.
-/
import JP.Lemmas.LexPrintAux2
set_option linter.unusedSimpArgs false
namespace JP.Lemmas.LexPrint
open JP JP.Query JP.Surface JP.Lex

/-! ### rules failing on the first character -/

theorem mQuoted_ne {q c : Char} (k : Kind) (s : Str) (h : c ≠ q) : mQuoted q k (c :: s) = none := by
  simp [mQuoted, h]

theorem mRe_ne {c : Char} (s : Str) (h : c ≠ '/') : mRe (c :: s) = none := by
  unfold mRe
  split
  · rename_i heq; simp only [List.cons.injEq] at heq; exact absurd heq.1 h
  · rfl

theorem mFunc_not_lower {c : Char} (s : Str) (h : c.isLower = false) : mFunc (c :: s) = none := by
  simp [mFunc, h]

theorem mDotProp_ne {c : Char} (s : Str) (h : c ≠ '.') : mDotProp (c :: s) = none := by
  unfold mDotProp
  split
  · rename_i heq; simp only [List.cons.injEq] at heq; exact absurd heq.1 h
  · rfl

theorem optInt_of_ne {c : Char} (t : Str) (h : c ≠ '-') : optInt (c :: t) = (c :: t).span Char.isDigit := by
  unfold optInt
  split
  · rename_i heq; simp only [List.cons.injEq] at heq; exact absurd heq.1 h
  · rfl

theorem optSign_of_ne {c : Char} (t : Str) (h : c ≠ '-') : optSign (c :: t) = ([], c :: t) := by
  unfold optSign
  split
  · rename_i heq; simp only [List.cons.injEq] at heq; exact absurd heq.1 h
  · rfl

theorem mSlice_head {c : Char} (s : Str) (h1 : c.isDigit = false) (h2 : c ≠ '-') (h3 : isPyBlank c = false)
    (h4 : c ≠ ':') : mSlice (c :: s) = none := by
  have h5 : optInt (c :: s) = ([], c :: s) := by
    rw [optInt_of_ne _ h2, span_eq]; simp [h1]
  have h6 : skipWs (c :: s) = c :: s := by simp [skipWs, h3]
  unfold mSlice
  simp only [h5, h6]
  split
  · rename_i heq; simp only [List.cons.injEq] at heq; exact absurd heq.1 h4
  · rfl

/-! ### digit strings -/

theorem digit_facts {c : Char} (h : c.isDigit = true) :
    c ≠ '"' ∧ c ≠ '\'' ∧ c ≠ '/' ∧ c ≠ '-' ∧ c ≠ '.' ∧ c.isLower = false ∧ isPyBlank c = false := by
  have hb := digit_toNat_bounds h
  refine ⟨toNat_ne ?_, toNat_ne ?_, toNat_ne ?_, toNat_ne ?_, toNat_ne ?_, ?_, ?_⟩
  · simp; omega
  · simp; omega
  · simp; omega
  · simp; omega
  · simp; omega
  · cases hl : c.isLower with
    | false => rfl
    | true => have := lower_bounds hl; omega
  · simp [isPyBlank]; omega

theorem natStr_shape (n : Nat) : ∃ d ds, natStr n = d :: ds ∧ d.isDigit = true ∧ ds.all Char.isDigit = true := by
  have hne := natStr_ne_nil n
  have hall := natStr_all_digits n
  cases h : natStr n with
  | nil => exact absurd h hne
  | cons d ds =>
    rw [h] at hall
    exact ⟨d, ds, rfl, hall d (by simp), by simp only [List.all_eq_true]; intro x hx; exact hall x (by simp [hx])⟩

theorem natStr_all (n : Nat) : (natStr n).all Char.isDigit = true := by
  simp only [List.all_eq_true]; exact natStr_all_digits n

/-- the text is a decimal integer: an optional sign and digits -/
inductive IntText : Str → Prop
  | pos (d : Char) (ds : Str) (hd : d.isDigit = true) (hds : ds.all Char.isDigit = true) : IntText (d :: ds)
  | neg (d : Char) (ds : Str) (hd : d.isDigit = true) (hds : ds.all Char.isDigit = true) : IntText ('-' :: d :: ds)

theorem intText_intStr (i : Int) : IntText (intStr i) := by
  cases i with
  | ofNat n =>
    obtain ⟨d, ds, h, hd, hds⟩ := natStr_shape n
    show IntText (natStr n)
    rw [h]; exact .pos d ds hd hds
  | negSucc n =>
    obtain ⟨d, ds, h, hd, hds⟩ := natStr_shape (n + 1)
    show IntText ('-' :: natStr (n + 1))
    rw [h]; exact .neg d ds hd hds

theorem optInt_intText {w : Str} (hw : IntText w) (rest : Str) (hr : stops Char.isDigit rest = true) :
    optInt (w ++ rest) = (w, rest) := by
  cases hw with
  | pos d ds hd hds =>
    rw [List.cons_append, optInt_of_ne _ (digit_facts hd).2.2.2.1, ← List.cons_append]
    exact span_stops _ _ _ (by simp [hd, hds]) hr
  | neg d ds hd hds =>
    have := span_stops Char.isDigit (d :: ds) rest (by simp [hd, hds]) hr
    simp only [List.cons_append] at this
    simp only [List.cons_append, optInt, this]
    simp

theorem optSign_intText_pos (d : Char) (t : Str) (hd : d.isDigit = true) : optSign (d :: t) = ([], d :: t) :=
  optSign_of_ne _ (digit_facts hd).2.2.2.1

theorem intText_ne_nil {w : Str} (hw : IntText w) : w ≠ [] := by cases hw <;> simp

theorem intText_head {w : Str} (hw : IntText w) : ∃ c t, w = c :: t ∧ (c.isDigit = true ∨ c = '-') := by
  cases hw with
  | pos d ds hd _ => exact ⟨d, ds, rfl, .inl hd⟩
  | neg d ds _ _ => exact ⟨'-', d :: ds, rfl, .inr rfl⟩

theorem intHead_facts {c : Char} (h : c.isDigit = true ∨ c = '-') :
    c ≠ '"' ∧ c ≠ '\'' ∧ c ≠ '/' ∧ c ≠ '.' ∧ c.isLower = false ∧ isPyBlank c = false ∧ c ≠ ':' := by
  rcases h with h | rfl
  · have := digit_facts h
    refine ⟨this.1, this.2.1, this.2.2.1, this.2.2.2.2.1, this.2.2.2.2.2.1, this.2.2.2.2.2.2, ?_⟩
    rintro rfl; revert h; decide
  · decide

theorem ehc_of_intHead {c : Char} (h : c.isDigit = true ∨ c = '-') : ehc c = true := by
  rcases h with h | rfl
  · simp [ehc, h]
  · decide

/-! ### what follows a number -/

theorem skipWs_safe {rest : Str} (h : safe rest = true) (r2 : Str) : skipWs rest ≠ ':' :: r2 := by
  rcases safe_cases h with rfl | ⟨r, rfl⟩ | ⟨r, rfl⟩ | ⟨r, rfl⟩ | ⟨r, rfl, hn⟩
  · simp [skipWs]
  · simp [skipWs, isPyBlank]
  · simp [skipWs, isPyBlank]
  · simp [skipWs, isPyBlank]
  · have hb : isPyBlank ' ' = true := by decide
    rcases nb_cases hn with rfl | ⟨c, t, rfl, h1, h2⟩
    · simp [skipWs, hb]
    · simp [skipWs, hb, h1, h2]

theorem stops_digit_safe {rest : Str} (h : safe rest = true) : stops Char.isDigit rest = true :=
  stops_of_safe _ (by decide) (by decide) (by decide) (by decide) h

theorem stops_word_safe (uw : Char → Bool) {rest : Str} (h : safe rest = true) : stops (isWord uw) rest = true :=
  stops_of_safe _ (by simp [isWord]) (by simp [isWord]) (by simp [isWord]) (by simp [isWord]) h

theorem optExp_safe {rest : Str} (h : safe rest = true) : optExp rest = ([], rest) := by
  rcases safe_cases h with rfl | ⟨r, rfl⟩ | ⟨r, rfl⟩ | ⟨r, rfl⟩ | ⟨r, rfl, hn⟩ <;> simp [optExp]

theorem not_dot_safe {rest : Str} (h : safe rest = true) (r1 : Str) : rest ≠ '.' :: r1 := by
  rcases safe_cases h with rfl | ⟨r, rfl⟩ | ⟨r, rfl⟩ | ⟨r, rfl⟩ | ⟨r, rfl, hn⟩ <;> simp

/-! ### integers -/

theorem intText_sign {w : Str} (hw : IntText w) (rest : Str) :
    ∃ sg D, w = sg ++ D ∧ optSign (w ++ rest) = (sg, D ++ rest) ∧ D.isEmpty = false ∧ D.all Char.isDigit = true ∧
      (sg = [] ∨ sg = ['-']) := by
  cases hw with
  | pos d ds hd hds =>
    exact ⟨[], d :: ds, rfl, optSign_intText_pos d _ hd, rfl, by simp [hd, hds], .inl rfl⟩
  | neg d ds hd hds =>
    exact ⟨['-'], d :: ds, rfl, rfl, rfl, by simp [hd, hds], .inr rfl⟩

theorem mSlice_intText {w : Str} (hw : IntText w) {rest : Str} (hr : safe rest = true) : mSlice (w ++ rest) = none := by
  unfold mSlice
  rw [optInt_intText hw rest (stops_digit_safe hr)]
  simp only []
  split
  · rename_i heq; exact absurd heq (skipWs_safe hr _)
  · rfl

theorem mFloat_intText {w : Str} (hw : IntText w) {rest : Str} (hr : safe rest = true) : mFloat (w ++ rest) = none := by
  obtain ⟨sg, D, rfl, hs, hne, hall, hsg⟩ := intText_sign hw rest
  unfold mFloat
  rw [hs]
  simp only [span_stops _ _ _ hall (stops_digit_safe hr), hne, Bool.false_eq_true, if_false]
  split
  · rename_i r1; exact absurd rfl (not_dot_safe hr r1)
  · rfl

theorem mInt_intText (uw : Char → Bool) {w : Str} (hw : IntText w) {rest : Str} (hr : safe rest = true) :
    mInt uw (w ++ rest) = some ([⟨.int, w⟩], rest) := by
  obtain ⟨sg, D, rfl, hs, hne, hall, hsg⟩ := intText_sign hw rest
  unfold mInt
  rw [hs]
  simp only [span_stops _ _ _ hall (stops_digit_safe hr), hne, Bool.false_eq_true, if_false, optExp_safe hr,
    atBoundary_eq, stops_word_safe uw hr, if_true, List.append_nil]

theorem fm_intText (uw : Char → Bool) {w : Str} (hw : IntText w) {rest : Str} (hr : safe rest = true) :
    firstMatch (R uw) (w ++ rest) = some ([⟨.int, w⟩], rest) := by
  have h4 := mSlice_intText hw hr
  have h7 := mFloat_intText hw hr
  have h8 := mInt_intText uw hw hr
  obtain ⟨c, t, rfl, hc⟩ := intText_head hw
  obtain ⟨f1, f2, f3, f4, f5, f6, f7⟩ := intHead_facts hc
  rw [List.cons_append] at h4 h7 h8 ⊢
  simp only [R, firstMatch, mQuoted_ne _ _ f1, mQuoted_ne _ _ f2, mRe_ne _ f3, h4, mFunc_not_lower _ f5,
    mDotProp_ne _ f4, h7, h8]

theorem intOfStr_intStr (i : Int) : intOfStr (intStr i) = i := by
  cases i with
  | ofNat n =>
    obtain ⟨d, ds, h, hd, hds⟩ := natStr_shape n
    show intOfStr (natStr n) = _
    have hv := digitsVal_natStr n
    rw [h] at hv ⊢
    unfold intOfStr
    split
    · rename_i heq; simp only [List.cons.injEq] at heq; exact absurd heq.1 (digit_facts hd).2.2.2.1
    · rw [hv]; rfl
  | negSucc n =>
    show intOfStr ('-' :: natStr (n + 1)) = _
    simp only [intOfStr, digitsVal_natStr]
    rfl

theorem intText_no_e {w : Str} (hw : IntText w) : w.any (fun c => c == 'e' || c == 'E') = false := by
  have hd : ∀ c : Char, c.isDigit = true → (c == 'e' || c == 'E') = false := by
    intro c hc
    have hb := digit_toNat_bounds hc
    have h1 : c ≠ 'e' := toNat_ne (by simp; omega)
    have h2 : c ≠ 'E' := toNat_ne (by simp; omega)
    simp [h1, h2]
  have hall : ∀ ds : Str, ds.all Char.isDigit = true → ds.any (fun c => c == 'e' || c == 'E') = false := by
    intro ds hds
    rw [List.any_eq_false]
    intro x hx
    simp only [List.all_eq_true] at hds
    simp [hd x (hds x hx)]
  cases hw with
  | pos d ds h1 h2 => simp only [List.any_cons, hd d h1, hall ds h2, Bool.or_false]
  | neg d ds h1 h2 => simp only [List.any_cons, hd d h1, hall ds h2, Bool.or_false]; decide

theorem intLiteral_intStr (i : Int) : intLiteral (intStr i) = .ok i := by
  unfold intLiteral
  rw [intText_no_e (intText_intStr i)]
  simp [intOfStr_intStr]

theorem emit_int (uw : Char → Bool) (i : Int) : Emit uw safe (intStr i) [.tok (.int i)] :=
  ⟨intText_ne_nil (intText_intStr i), fun _ hp =>
    ⟨_, fm_intText uw (intText_intStr i) hp, cook_int (intLiteral_intStr i)⟩⟩

/-! ### floats -/

theorem stops_digit_dot (t : Str) : stops Char.isDigit ('.' :: t) = true := by simp [stops]

theorem mSlice_fltText {w : Str} (hw : IntText w) (t : Str) : mSlice (w ++ '.' :: t) = none := by
  unfold mSlice
  rw [optInt_intText hw _ (stops_digit_dot t)]
  have : skipWs ('.' :: t) = '.' :: t := by simp [skipWs, isPyBlank]
  simp [this]

theorem mFloat_fltText {w : Str} (hw : IntText w) (F : Str) (hF : F.all Char.isDigit = true) {rest : Str}
    (hr : safe rest = true) : mFloat (w ++ '.' :: (F ++ rest)) = some ([⟨.flt, w ++ '.' :: F⟩], rest) := by
  obtain ⟨sg, D, rfl, hs, hne, hall, hsg⟩ := intText_sign hw ('.' :: (F ++ rest))
  unfold mFloat
  rw [hs]
  simp only [span_stops _ _ _ hall (stops_digit_dot _), hne, Bool.false_eq_true, if_false,
    span_stops _ _ _ hF (stops_digit_safe hr), optExp_safe hr, List.append_nil, List.append_assoc]

theorem fm_fltText (uw : Char → Bool) {w : Str} (hw : IntText w) (F : Str) (hF : F.all Char.isDigit = true) {rest : Str}
    (hr : safe rest = true) : firstMatch (R uw) ((w ++ '.' :: F) ++ rest) = some ([⟨.flt, w ++ '.' :: F⟩], rest) := by
  have h4 := mSlice_fltText hw (F ++ rest)
  have h7 := mFloat_fltText hw F hF hr
  obtain ⟨c, t, rfl, hc⟩ := intText_head hw
  obtain ⟨f1, f2, f3, f4, f5, f6, f7⟩ := intHead_facts hc
  simp only [List.append_assoc, List.cons_append] at h4 h7 ⊢
  simp only [R, firstMatch, mQuoted_ne _ _ f1, mQuoted_ne _ _ f2, mRe_ne _ f3, h4, mFunc_not_lower _ f5,
    mDotProp_ne _ f4, h7]

theorem parseDec_fltText {w : Str} (hw : IntText w) (F : Str) (hF : F.all Char.isDigit = true) :
    ∃ sg D, w = sg ++ D ∧ (sg = [] ∨ sg = ['-']) ∧ D.all Char.isDigit = true ∧
      parseDec (w ++ '.' :: F) = { neg := !sg.isEmpty, digits := D ++ F, scale := - (F.length : Int) } := by
  obtain ⟨sg, D, rfl, hs, hne, hall, hsg⟩ := intText_sign hw ('.' :: F)
  refine ⟨sg, D, rfl, hsg, hall, ?_⟩
  · unfold parseDec
    rw [hs]
    have hF' := span_stops Char.isDigit F [] hF rfl
    rw [List.append_nil] at hF'
    simp only [span_stops _ _ _ hall (stops_digit_dot _), hF', expVal]
    simp

theorem eighths_of (neg : Bool) (ds : Str) (k v : Nat) (hk0 : 0 < k) (hk : k ≤ 400)
    (h : digitsVal ds * 8 = v * 10 ^ k) (hv : v < 2 ^ 53) :
    Dec.eighths ⟨neg, ds, - (k : Int)⟩ = some (if neg then - (v : Int) else (v : Int)) := by
  unfold Dec.eighths
  have h1 : ¬ (- (k : Int) ≥ 0) := by omega
  have h2 : (- - (k : Int)).toNat = k := by omega
  have hp : 0 < 10 ^ k := Nat.pow_pos (by decide)
  simp only [h1, if_false, h2, show ¬ k > 400 from by omega, h, Nat.mul_mod_left, if_true,
    Nat.mul_div_cancel _ hp, hv]

theorem digitsVal_append (a b : Str) : digitsVal (a ++ b) = Nat.ofDigitChars 10 b (digitsVal a) := by
  simp [digitsVal, Nat.ofDigitChars_append]

theorem fracStr_all (r : Nat) : (fracStr r).all Char.isDigit = true := by
  unfold fracStr; split <;> decide

theorem fracStr_val (q r : Nat) (hr : r < 8) :
    Nat.ofDigitChars 10 (fracStr r) q * 8 = (q * 8 + r) * 10 ^ (fracStr r).length ∧
      0 < (fracStr r).length ∧ (fracStr r).length ≤ 400 := by
  have : r = 0 ∨ r = 1 ∨ r = 2 ∨ r = 3 ∨ r = 4 ∨ r = 5 ∨ r = 6 ∨ r = 7 := by omega
  rcases this with rfl | rfl | rfl | rfl | rfl | rfl | rfl | rfl <;>
    (simp [fracStr, Nat.ofDigitChars_cons]; omega)

theorem fltText_fltStr (m : Int) : ∃ w, IntText w ∧ fltStr m = w ++ '.' :: fracStr (m.natAbs % 8) ∧
    ((m < 0 ∧ w = '-' :: natStr (m.natAbs / 8)) ∨ (¬ m < 0 ∧ w = natStr (m.natAbs / 8))) := by
  obtain ⟨d, ds, h, hd, hds⟩ := natStr_shape (m.natAbs / 8)
  by_cases hm : m < 0
  · refine ⟨'-' :: natStr (m.natAbs / 8), ?_, ?_, .inl ⟨hm, rfl⟩⟩
    · rw [h]; exact .neg d ds hd hds
    · simp [fltStr, hm]
  · refine ⟨natStr (m.natAbs / 8), ?_, ?_, .inr ⟨hm, rfl⟩⟩
    · rw [h]; exact .pos d ds hd hds
    · simp [fltStr, hm]

theorem fltLiteral_fltStr (m : Int) (hm : fltOK m = true) : fltLiteral (fltStr m) = .ok m := by
  obtain ⟨w, hw, he, hsign⟩ := fltText_fltStr m
  have hr : m.natAbs % 8 < 8 := Nat.mod_lt _ (by decide)
  obtain ⟨sg, D, hwe, hsg, hD, hp⟩ := parseDec_fltText hw (fracStr (m.natAbs % 8)) (fracStr_all _)
  obtain ⟨hv, hk0, hk⟩ := fracStr_val (m.natAbs / 8) (m.natAbs % 8) hr
  have hq : m.natAbs / 8 * 8 + m.natAbs % 8 = m.natAbs := by omega
  rw [hq] at hv
  simp only [fltOK, decide_eq_true_eq] at hm
  have hDv : digitsVal D = m.natAbs / 8 ∧ (sg.isEmpty = false ↔ m < 0) := by
    rcases hsign with ⟨hneg, rfl⟩ | ⟨hpos, rfl⟩
    · rcases hsg with rfl | rfl
      · obtain ⟨d, ds, h, hd, _⟩ := natStr_shape (m.natAbs / 8)
        simp only [List.nil_append] at hwe
        subst hwe
        simp only [List.all_cons, Bool.and_eq_true] at hD
        exact absurd hD.1 (by decide)
      · simp only [List.cons_append, List.nil_append, List.cons.injEq, true_and] at hwe
        subst hwe
        exact ⟨digitsVal_natStr _, by simp [hneg]⟩
    · rcases hsg with rfl | rfl
      · simp only [List.nil_append] at hwe
        subst hwe
        exact ⟨digitsVal_natStr _, by simp [hpos]⟩
      · obtain ⟨d, ds, h, hd, _⟩ := natStr_shape (m.natAbs / 8)
        rw [h] at hwe
        simp only [List.cons_append, List.nil_append, List.cons.injEq] at hwe
        exact absurd hd (by rw [hwe.1]; decide)
  unfold fltLiteral
  rw [he, hp, eighths_of _ _ _ _ hk0 hk (by rw [digitsVal_append, hDv.1]; exact hv) hm]
  simp only
  congr 1
  by_cases hneg : m < 0
  · have : sg.isEmpty = false := hDv.2.mpr hneg
    simp only [this, Bool.not_false, if_true]; omega
  · have : sg.isEmpty = true := by
      cases h : sg.isEmpty with
      | true => rfl
      | false => exact absurd (hDv.2.mp h) hneg
    simp only [this, Bool.not_true, Bool.false_eq_true, if_false]; omega

theorem emit_flt (uw : Char → Bool) (m : Int) (hm : fltOK m = true) : Emit uw safe (fltStr m) [.tok (.flt m)] := by
  obtain ⟨w, hw, he, _⟩ := fltText_fltStr m
  refine ⟨by rw [he]; simp, fun rest hp => ⟨[⟨.flt, fltStr m⟩], ?_, cook_flt (fltLiteral_fltStr m hm)⟩⟩
  rw [he]
  exact fm_fltText uw hw _ (fracStr_all _) hp

/-! ### string literals -/

theorem emit_str (uw : Char → Bool) (s : Str) : Emit uw anyS (canonicalString s) [.tok (.str s)] := by
  refine ⟨by simp [canonicalString], fun rest _ =>
    ⟨[⟨.sq, sqBody s⟩], ?_, cook_sq (canonical_string_decodes s)⟩⟩
  have h1 : mQuoted '"' .dq (canonicalString s ++ rest) = none := by simp [canonicalString, mQuoted]
  simp only [R, firstMatch, h1, canonical_string_lexes]

/-! ### regular-expression literals -/

theorem normFlags_all (f : Str) : (normFlags f).all isReFlag = true := by
  simp only [normFlags, List.all_eq_true, List.mem_filter]
  intro x hx
  have := hx.1
  simp only [List.mem_cons, List.not_mem_nil, or_false] at this
  rcases this with rfl | rfl | rfl | rfl <;> decide

theorem stops_reFlag_safe {rest : Str} (h : safe rest = true) : stops isReFlag rest = true :=
  stops_of_safe _ (by decide) (by decide) (by decide) (by decide) h

theorem emit_regex (uw : Char → Bool) (p f : Str) (hp : rePatOK p = true) (hf : reFlagsOK f = true) :
    Emit uw safe ('/' :: p ++ '/' :: f) [.tok (.re p f)] := by
  have hf' : normFlags f = f := by simpa [reFlagsOK] using hf
  refine ⟨by simp, fun rest hr => ⟨[⟨.rePattern, p⟩, ⟨.reFlags, f⟩], ?_, ?_⟩⟩
  · cases p with
    | nil => simp [rePatOK] at hp
    | cons c cs =>
      simp only [rePatOK] at hp
      have h1 : (cs ++ '/' :: (f ++ rest)).span (· != '/') = (cs, '/' :: (f ++ rest)) :=
        span_stops _ _ _ hp (by simp [stops])
      have hfl : f.all isReFlag = true := by rw [← hf']; exact normFlags_all f
      have h2 := span_stops isReFlag f rest hfl (stops_reFlag_safe hr)
      have h3 : mRe ('/' :: c :: (cs ++ '/' :: (f ++ rest))) = some ([⟨.rePattern, c :: cs⟩, ⟨.reFlags, f⟩], rest) := by
        simp only [mRe, h1, h2]
      simp only [List.cons_append, List.append_assoc] at h3 ⊢
      simp only [R, firstMatch, mQuoted, h3]
      simp
  · have := @cook_regex p f
    rw [hf'] at this
    exact this

/-! ### function names -/

theorem stops_funcCont_paren (t : Str) : stops isFuncCont ('(' :: t) = true := by simp [stops, isFuncCont]

theorem emit_func (uw : Char → Bool) (name : Str) (hn : funcNameOK name = true) :
    Emit uw (stops isPyBlank) (name ++ ['(']) [.tok (.func name)] := by
  refine ⟨by simp, fun rest hr => ⟨[⟨.func, name⟩], ?_, cook_func⟩⟩
  cases name with
  | nil => simp [funcNameOK] at hn
  | cons c cs =>
    simp only [funcNameOK, Bool.and_eq_true, Bool.not_eq_true'] at hn
    obtain ⟨⟨⟨hc, hne⟩, hall⟩, hkw⟩ := hn
    have hb := lower_bounds hc
    have f1 : c ≠ '"' := toNat_ne (by simp; omega)
    have f2 : c ≠ '\'' := toNat_ne (by simp; omega)
    have f3 : c ≠ '/' := toNat_ne (by simp; omega)
    have f4 : c ≠ '-' := toNat_ne (by simp; omega)
    have f5 : c ≠ ':' := toNat_ne (by simp; omega)
    have f6 : isPyBlank c = false := by simp [isPyBlank]; omega
    have f7 : c.isDigit = false := by
      cases hd : c.isDigit with
      | false => rfl
      | true => have := digit_toNat_bounds hd; omega
    have h1 := span_stops isFuncCont cs ('(' :: rest) hall (stops_funcCont_paren rest)
    have h5 : mFunc (c :: (cs ++ '(' :: rest)) = some ([⟨.func, c :: cs⟩], rest) := by
      simp only [mFunc, hc, if_true, h1, hne, hkw, Bool.false_eq_true, if_false, skipWs_stops rest hr]
    simp only [List.cons_append, List.append_assoc, List.nil_append]
    simp only [R, firstMatch, mQuoted_ne _ _ f1, mQuoted_ne _ _ f2, mRe_ne _ f3, mSlice_head _ f7 f4 f6 f5, h5]

theorem ehc_funcName {name : Str} (hn : funcNameOK name = true) (t : Str) : eh (name ++ t) = true := by
  cases name with
  | nil => simp [funcNameOK] at hn
  | cons c cs =>
    simp only [funcNameOK, Bool.and_eq_true] at hn
    simp [eh, ehc, hn.1.1.1]

/-! ### slices -/

/-- an optional integer -/
def OptText (w : Str) : Prop := w = [] ∨ IntText w

theorem optText_optIntStr (a : Option Int) : OptText (optIntStr a) := by
  cases a with
  | none => exact .inl rfl
  | some i => exact .inr (intText_intStr i)

theorem skipWs_intText {w : Str} (hw : IntText w) (t : Str) : skipWs (w ++ t) = w ++ t := by
  obtain ⟨c, u, rfl, hc⟩ := intText_head hw
  exact skipWs_stops _ (by simp [stops, (intHead_facts hc).2.2.2.2.2.1])

theorem skipWs_colon (t : Str) : skipWs (':' :: t) = ':' :: t := by simp [skipWs, isPyBlank]

theorem optInt_colon (t : Str) : optInt (':' :: t) = ([], ':' :: t) := by
  rw [optInt_of_ne _ (by decide), span_eq]; simp

theorem optInt_optText_colon {w : Str} (hw : OptText w) (t : Str) :
    optInt (skipWs (w ++ ':' :: t)) = (w, ':' :: t) := by
  rcases hw with rfl | hw
  · rw [List.nil_append, skipWs_colon, optInt_colon]
  · rw [skipWs_intText hw, optInt_intText hw _ (by simp [stops])]

theorem mSlice_core (s a r1 : Str) {B C : Str} (hB : OptText B) (hC : IntText C) {rest : Str}
    (hr : stops Char.isDigit rest = true) (h1 : optInt s = (a, r1))
    (h2 : skipWs r1 = ':' :: (B ++ ':' :: (C ++ rest))) :
    mSlice s = some ([⟨.sliceStart, a⟩, ⟨.sliceStop, B⟩, ⟨.sliceStep, C⟩], rest) := by
  unfold mSlice
  simp only [h1, h2, optInt_optText_colon hB, skipWs_colon, skipWs_intText hC, optInt_intText hC rest hr]

theorem optIntVal_optIntStr (a : Option Int) : optIntVal (optIntStr a) = a := by
  cases a with
  | none => rfl
  | some i =>
    have := intText_ne_nil (intText_intStr i)
    simp only [optIntStr, optIntVal, intOfStr_intStr]
    cases h : intStr i with
    | nil => exact absurd h this
    | cons c t => rfl

theorem sliceText_eq (a b : Option Int) (c : Int) (rest : Str) :
    (optIntStr a ++ ':' :: optIntStr b ++ ':' :: intStr c) ++ rest =
      optIntStr a ++ ':' :: (optIntStr b ++ ':' :: (intStr c ++ rest)) := by
  simp [List.append_assoc]

theorem cook_sliceText (a b : Option Int) (c : Int) :
    CookB [⟨.sliceStart, optIntStr a⟩, ⟨.sliceStop, optIntStr b⟩, ⟨.sliceStep, intStr c⟩]
      [.tok (.slice a b (some c))] := by
  have := @cook_slice (optIntStr a) (optIntStr b) (intStr c)
  rw [optIntVal_optIntStr, optIntVal_optIntStr] at this
  have h3 := optIntVal_optIntStr (some c)
  simp only [optIntStr] at h3
  rw [h3] at this
  exact this

theorem emit_slice (uw : Char → Bool) (a b : Option Int) (c : Int) :
    Emit uw safe (optIntStr a ++ ':' :: optIntStr b ++ ':' :: intStr c) [.tok (.slice a b (some c))] := by
  refine ⟨by simp, fun rest hr => ⟨_, ?_, cook_sliceText a b c⟩⟩
  rw [sliceText_eq]
  have hs := stops_digit_safe hr
  have hB := optText_optIntStr b
  have hC := intText_intStr c
  rcases optText_optIntStr a with ha | ha
  · rw [ha, List.nil_append]
    have h4 := mSlice_core _ _ _ hB hC hs (optInt_colon _) (skipWs_colon _)
    simp only [R, firstMatch, mQuoted_ne _ _ (show ':' ≠ '"' by decide), mQuoted_ne _ _ (show ':' ≠ '\'' by decide),
      mRe_ne _ (show ':' ≠ '/' by decide), h4]
  · have h4 := mSlice_core _ _ _ hB hC hs (optInt_intText ha _ (by simp [stops])) (skipWs_colon _)
    obtain ⟨d, t, hd, hc⟩ := intText_head ha
    obtain ⟨f1, f2, f3, _⟩ := intHead_facts hc
    rw [hd] at h4 ⊢
    rw [List.cons_append] at h4 ⊢
    simp only [R, firstMatch, mQuoted_ne _ _ f1, mQuoted_ne _ _ f2, mRe_ne _ f3, h4]

/-- after `, ` a slice without a start is read by the slice rule at the blank -/
theorem emit_blank_slice (uw : Char → Bool) (b : Option Int) (c : Int) :
    Emit uw safe (' ' :: ':' :: optIntStr b ++ ':' :: intStr c) [.tok (.slice none b (some c))] := by
  refine ⟨by simp, fun rest hr => ⟨_, ?_, cook_sliceText none b c⟩⟩
  have hs := stops_digit_safe hr
  have hB := optText_optIntStr b
  have hC := intText_intStr c
  have e : (' ' :: ':' :: optIntStr b ++ ':' :: intStr c) ++ rest =
      ' ' :: ':' :: (optIntStr b ++ ':' :: (intStr c ++ rest)) := by simp [List.append_assoc]
  rw [e]
  have h1 : optInt (' ' :: ':' :: (optIntStr b ++ ':' :: (intStr c ++ rest))) =
      ([], ' ' :: ':' :: (optIntStr b ++ ':' :: (intStr c ++ rest))) := by
    rw [optInt_of_ne _ (by decide), span_eq]; simp
  have h2 : skipWs (' ' :: ':' :: (optIntStr b ++ ':' :: (intStr c ++ rest))) =
      ':' :: (optIntStr b ++ ':' :: (intStr c ++ rest)) := by simp [skipWs, isPyBlank]
  have h4 := mSlice_core _ _ _ hB hC hs h1 h2
  simp only [R, firstMatch, mQuoted_ne _ _ (show ' ' ≠ '"' by decide), mQuoted_ne _ _ (show ' ' ≠ '\'' by decide),
    mRe_ne _ (show ' ' ≠ '/' by decide), h4]
  rfl

end JP.Lemmas.LexPrint
