/-
  Selectors: name, index, slice, wildcard against RFC 9535.
-/
import JP.Lemmas.QueryAuxRep
namespace JP.Lemmas
open JP JP.Query

theorem pyListGet_nonneg {α} (xs : List α) {i : Int} (h : 0 ≤ i) : pyListGet xs i = xs[i.toNat]? := by
  simp [pyListGet, h]

theorem represents_child_idx {n : Node} {r : Rfc.RNode} (h : Represents n r) {i : Int} (hi : 0 ≤ i) (v : J) :
    Represents (childNode n (.idx i) (bracket (intStr i)) v) ⟨r.loc ++ [.index i.toNat], v⟩ := by
  have := represents_child h (.index i.toNat) v
  rw [intStr_of_nonneg hi, bracket_natStr]
  simpa [partOfStep, Int.toNat_of_nonneg hi] using this

theorem sel_refines_rfc_aux (env : Env) (renv : Rfc.REnv) (n : Node) (r : Rfc.RNode) (s : Sel)
    (hs : plainSel s = true) (hr : Represents n r) :
    RepresentsAll (evalSel env n s) (Rfc.evalSel renv r s) := by
  have hv : n.val = r.val := hr.2.2
  cases s with
  | keys => simp [plainSel] at hs
  | filter e => simp [plainSel] at hs
  | name k =>
    simp only [evalSel, Rfc.evalSel, hv]
    cases r.val <;> try exact trivial
    rename_i kvs
    simp only
    cases dictGet kvs k with
    | none => exact trivial
    | some v =>
      refine ⟨?_, trivial⟩
      rw [bracket_canonicalString]
      exact represents_child hr (.name k) v
  | index i =>
    simp only [evalSel, Rfc.evalSel, hv]
    cases r.val <;> try exact trivial
    · rename_i xs
      simp only
      by_cases hi : 0 ≤ i
      · have e1 : normIndex i xs.length = i := by simp [normIndex]; omega
        have e2 : Rfc.normalize i xs.length = i := by simp [Rfc.normalize, hi]
        rw [pyListGet_nonneg xs hi, e1, e2]
        simp only [hi, if_true]
        cases xs[i.toNat]? with
        | none => exact trivial
        | some v => exact ⟨represents_child_idx hr hi v, trivial⟩
      · by_cases hl : -(xs.length : Int) ≤ i
        · have e1 : normIndex i xs.length = xs.length + i := by simp [normIndex]; omega
          have e2 : Rfc.normalize i xs.length = xs.length + i := by simp [Rfc.normalize, hi]
          have h0 : (0 : Int) ≤ xs.length + i := by omega
          rw [e1, e2]
          simp only [pyListGet, hi, hl, h0, if_true, if_false]
          cases xs[((xs.length : Int) + i).toNat]? with
          | none => exact trivial
          | some v => exact ⟨represents_child_idx hr h0 v, trivial⟩
        · have e2 : Rfc.normalize i xs.length = xs.length + i := by simp [Rfc.normalize, hi]
          have h0 : ¬ (0 : Int) ≤ xs.length + i := by omega
          rw [e2]
          simp only [pyListGet, hi, hl, h0, if_false]
          exact trivial
    · rename_i kvs
      simp only
      cases dictGet kvs (intStr i) with
      | none => exact trivial
      | some v =>
        refine ⟨?_, trivial⟩
        have := represents_child hr (.name (intStr i)) v
        simpa [partOfStep, Rfc.normalStep, normalName_intStr, bracket] using this
  | slice start stop step =>
    simp only [evalSel, Rfc.evalSel, hv]
    cases r.val <;> try exact trivial
    rename_i xs
    simp only
    have hc := slice_refines_rfc_aux start stop step xs.length
    unfold codeSlice at hc
    by_cases h0 : step.getD 1 = 0
    · have : Rfc.sliceIndices start stop step xs.length = [] := by
        rw [← hc]; simp [h0]
      simp [h0, this]
    · simp only [h0, if_false] at hc ⊢
      rw [hc]
      apply representsAll_filterMap
      intro i hi
      have hb := slice_in_range_aux start stop step xs.length i hi
      rw [pyListGet_nonneg xs hb.1]
      simp only [hb.1, if_true]
      cases xs[i.toNat]? with
      | none => left; exact ⟨rfl, rfl⟩
      | some v => right; exact ⟨_, _, rfl, rfl, represents_child_idx hr hb.1 v⟩
  | wild =>
    simp only [evalSel, Rfc.evalSel, Rfc.children, hv]
    cases r.val <;> try exact trivial
    · rename_i xs
      simp only
      apply representsAll_map
      intro x _
      have := represents_child hr (.index x.1) x.2
      simpa [partOfStep, bracket_natStr] using this
    · rename_i kvs
      simp only
      apply representsAll_map
      intro x _
      have := represents_child hr (.name x.1) x.2
      simpa [partOfStep, bracket_canonicalString] using this
end JP.Lemmas
