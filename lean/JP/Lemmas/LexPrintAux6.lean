/-
  LexPrint helpers, part 6: the atoms and the simultaneous induction over the AST.
-/
import JP.Lemmas.LexPrintAux5
set_option linter.unusedSimpArgs false
namespace JP.Lemmas.LexPrint
open JP JP.Query JP.Surface JP.Lex JP.Lemmas

/-! ### atoms -/

theorem eh_intStr (i : Int) : eh (intStr i) = true := by
  obtain ⟨c, t, h, hc⟩ := intText_head (intText_intStr i)
  rw [h]; exact ehc_of_intHead hc

theorem eh_fltStr (m : Int) : eh (fltStr m) = true := by
  obtain ⟨w, hw, he, _⟩ := fltText_fltStr m
  obtain ⟨c, t, h, hc⟩ := intText_head hw
  rw [he, h]; exact ehc_of_intHead hc

theorem allP_nil (uw : Char → Bool) : AllP uw .nil :=
  AllP.of_atom (by simp only [pstrE, ptoksE]; exact CE.of_emit (emit_nil uw) (fun _ h => h) rfl)
    (fun p => by simp only [pstrCanon]) (fun p => by simp only [ptoksCanon])

theorem allP_undefined (uw : Char → Bool) : AllP uw .undefined :=
  AllP.of_atom (by simp only [pstrE, ptoksE]; exact CE.of_emit (emit_undefined uw) (fun _ h => h) rfl)
    (fun p => by simp only [pstrCanon]) (fun p => by simp only [ptoksCanon])

theorem allP_bool (uw : Char → Bool) (b : Bool) : AllP uw (.bool b) :=
  AllP.of_atom (by
      cases b
      · simp only [pstrE, ptoksE, Bool.false_eq_true, if_false]
        exact CE.of_emit (emit_false uw) (fun _ h => h) rfl
      · simp only [pstrE, ptoksE, if_true]
        exact CE.of_emit (emit_true uw) (fun _ h => h) rfl)
    (fun p => by simp only [pstrCanon]) (fun p => by simp only [ptoksCanon])

theorem allP_int (uw : Char → Bool) (i : Int) : AllP uw (.int i) :=
  AllP.of_atom (by simp only [pstrE, ptoksE]; exact CE.of_emit (emit_int uw i) (fun _ h => h) (eh_intStr i))
    (fun p => by simp only [pstrCanon]) (fun p => by simp only [ptoksCanon])

theorem allP_flt (uw : Char → Bool) (m : Int) (h : fltOK m = true) : AllP uw (.flt m) :=
  AllP.of_atom (by simp only [pstrE, ptoksE]; exact CE.of_emit (emit_flt uw m h) (fun _ h => h) (eh_fltStr m))
    (fun p => by simp only [pstrCanon]) (fun p => by simp only [ptoksCanon])

theorem allP_str (uw : Char → Bool) (s : Str) : AllP uw (.str s) :=
  AllP.of_atom (by simp only [pstrE, ptoksE]; exact CE.of_emit (emit_str uw s) anyS_of rfl)
    (fun p => by simp only [pstrCanon]) (fun p => by simp only [ptoksCanon])

theorem allP_regex (uw : Char → Bool) (p f : Str) (hp : rePatOK p = true) (hf : reFlagsOK f = true) :
    AllP uw (.regex p f) :=
  AllP.of_atom (by simp only [pstrE, ptoksE]; exact CE.of_emit (emit_regex uw p f hp hf) (fun _ h => h) rfl)
    (fun p => by simp only [pstrCanon]) (fun p => by simp only [ptoksCanon])

theorem allP_key (uw : Char → Bool) : AllP uw .key :=
  AllP.of_atom (by simp only [pstrE, ptoksE, dflt]; exact CE.of_emit (emit_key uw) anyS_of rfl)
    (fun p => by simp only [pstrCanon]) (fun p => by simp only [ptoksCanon])

/-- arguments and list items -/
def ArgsP (uw : Char → Bool) (es : List Expr) : Prop :=
  es = [] ∨ CE uw (pstrArgs dflt es) (ptoksArgs es)

theorem ArgsP.corr {uw : Char → Bool} {es : List Expr} (h : ArgsP uw es) :
    Corr uw (pstrArgs dflt es) (ptoksArgs es) ∧ (pstrArgs dflt es = [] ∨ eh (pstrArgs dflt es) = true) := by
  rcases h with rfl | h
  · refine ⟨?_, .inl ?_⟩
    · simp only [pstrArgs, ptoksArgs]; exact Corr.nil uw
    · simp only [pstrArgs]
  · exact ⟨h.2, .inr h.1⟩

theorem allP_list (uw : Char → Bool) (items : List Expr) (h : ArgsP uw items) : AllP uw (.list items) :=
  AllP.of_atom (by
      have e1 : pstrE dflt (.list items) = '[' :: (pstrArgs dflt items ++ [']']) := by
        simp only [pstrE, List.cons_append]
      have e2 : ptoksE (.list items) = .lbracket :: (ptoksArgs items ++ [.rbracket]) := by
        simp only [ptoksE, List.cons_append, List.nil_append]
      rw [e1, e2]
      exact h.corr.1.bracket)
    (fun p => by simp only [pstrCanon]) (fun p => by simp only [ptoksCanon])

theorem allP_func (uw : Char → Bool) (name : Str) (args : List Expr) (hn : funcNameOK name = true)
    (h : ArgsP uw args) : AllP uw (.func name args) :=
  AllP.of_atom (by
      have e1 : pstrE dflt (.func name args) = name ++ '(' :: (pstrArgs dflt args ++ [')']) := by
        simp only [pstrE, List.cons_append, List.append_assoc]
      have e2 : ptoksE (.func name args) = .func name :: (ptoksArgs args ++ [.rparen]) := by
        simp only [ptoksE, List.cons_append, List.nil_append]
      rw [e1, e2]
      exact CE.call hn h.corr.1 h.corr.2)
    (fun p => by simp only [pstrCanon]) (fun p => by simp only [ptoksCanon])

theorem allP_self (uw : Char → Bool) (q : List Seg) (h : CS uw (pstrSegs dflt q) (ptoksSegs q)) : AllP uw (.self q) :=
  AllP.of_atom (by
      have e1 : pstrE dflt (.self q) = '@' :: pstrSegs dflt q := by
        simp only [pstrE, dflt, List.cons_append, List.nil_append]
      rw [e1]; simp only [ptoksE]
      exact CE.query (emit_self uw) (by decide) h)
    (fun p => by simp only [pstrCanon]) (fun p => by simp only [ptoksCanon])

theorem allP_ctx (uw : Char → Bool) (q : List Seg) (h : CS uw (pstrSegs dflt q) (ptoksSegs q)) : AllP uw (.ctx q) :=
  AllP.of_atom (by
      have e1 : pstrE dflt (.ctx q) = '_' :: pstrSegs dflt q := by
        simp only [pstrE, dflt, List.cons_append, List.nil_append]
      rw [e1]; simp only [ptoksE]
      exact CE.query (emit_fctx uw) (by decide) h)
    (fun p => by simp only [pstrCanon]) (fun p => by simp only [ptoksCanon])

theorem allP_root (uw : Char → Bool) (q : List Seg) (fake : Bool) (h : CS uw (pstrSegs dflt q) (ptoksSegs q)) :
    AllP uw (.root q fake) :=
  AllP.of_atom (by
      cases fake
      · have e1 : pstrE dflt (.root q false) = '$' :: pstrSegs dflt q := by
          simp only [pstrE, dflt, List.cons_append, List.nil_append, Bool.false_eq_true, if_false]
        rw [e1]; simp only [ptoksE, Bool.false_eq_true, if_false]
        exact CE.query (emit_root uw) (by decide) h
      · have e1 : pstrE dflt (.root q true) = '^' :: pstrSegs dflt q := by
          simp only [pstrE, dflt, List.cons_append, List.nil_append, if_true]
        rw [e1]; simp only [ptoksE, if_true]
        exact CE.query (emit_fakeRoot uw) (by decide) h)
    (fun p => by simp only [pstrCanon]) (fun p => by simp only [ptoksCanon])

/-! ### selectors -/

def SelsP (uw : Char → Bool) (ss : List Sel) : Prop :=
  ss = [] ∨ CSel uw (pstrSels dflt ss) (ptoksSels ss)

theorem SelsP.corr {uw : Char → Bool} {ss : List Sel} (h : SelsP uw ss) :
    Corr uw (pstrSels dflt ss) (ptoksSels ss) := by
  rcases h with rfl | h
  · simp only [pstrSels, ptoksSels]; exact Corr.nil uw
  · exact h.1

theorem csel_name (uw : Char → Bool) (s : Str) : CSel uw (pstrSel dflt (.name s)) (ptoksSel (.name s)) := by
  simp only [pstrSel, ptoksSel]
  exact CSel.of_corr (Corr.of_emit (emit_str uw s) anyS_of) (by simp [canonicalString])
    (by simp [canonicalString, nb, isPyBlank])

theorem csel_index (uw : Char → Bool) (i : Int) : CSel uw (pstrSel dflt (.index i)) (ptoksSel (.index i)) := by
  simp only [pstrSel, ptoksSel]
  exact CSel.of_corr (Corr.of_emit (emit_int uw i) (fun _ h => h)) (eh_ne_nil (eh_intStr i)) (nb_of_eh (eh_intStr i))

theorem csel_slice (uw : Char → Bool) (a b c : Option Int) :
    CSel uw (pstrSel dflt (.slice a b c)) (ptoksSel (.slice a b c)) := by
  simp only [pstrSel, ptoksSel]
  exact CSel.slice uw a b (c.getD 1)

theorem csel_wild (uw : Char → Bool) : CSel uw (pstrSel dflt .wild) (ptoksSel .wild) := by
  simp only [pstrSel, ptoksSel]
  exact CSel.of_corr (Corr.of_emit (emit_wild uw) anyS_of) (by simp) (by simp [nb, isPyBlank])

theorem csel_keys (uw : Char → Bool) : CSel uw (pstrSel dflt .keys) (ptoksSel .keys) := by
  simp only [pstrSel, ptoksSel, dflt]
  exact CSel.of_corr (Corr.of_emit (emit_keys uw) anyS_of) (by simp) (by simp [nb, isPyBlank])

theorem csel_filter (uw : Char → Bool) (e : Expr) (h : AllP uw e) :
    CSel uw (pstrSel dflt (.filter e)) (ptoksSel (.filter e)) := by
  simp only [pstrSel, ptoksSel]
  exact CSel.filter (h.2 1)

/-! ### the simultaneous induction -/

mutual
theorem lexE (uw : Char → Bool) (e : Expr) (h : printableE e = true) : AllP uw e :=
  match e, h with
  | .nil, _ => allP_nil uw
  | .undefined, _ => allP_undefined uw
  | .bool b, _ => allP_bool uw b
  | .int i, _ => allP_int uw i
  | .flt m, h => by
    simp only [printableE] at h
    exact allP_flt uw m h
  | .str s, _ => allP_str uw s
  | .regex p f, h => by
    simp only [printableE, Bool.and_eq_true] at h
    exact allP_regex uw p f h.1 h.2
  | .key, _ => allP_key uw
  | .list items, h => by
    simp only [printableE] at h
    exact allP_list uw items (lexArgs uw items h)
  | .not e, h => by
    simp only [printableE] at h
    exact (lexE uw e h).not
  | .infix l op r, h => by
    simp only [printableE, Bool.and_eq_true] at h
    exact AllP.infix op (lexE uw l h.1) (lexE uw r h.2)
  | .self q, h => by
    simp only [printableE] at h
    exact allP_self uw q (lexSegs uw q h)
  | .root q fake, h => by
    simp only [printableE] at h
    exact allP_root uw q fake (lexSegs uw q h)
  | .ctx q, h => by
    simp only [printableE] at h
    exact allP_ctx uw q (lexSegs uw q h)
  | .func name args, h => by
    simp only [printableE, Bool.and_eq_true] at h
    exact allP_func uw name args h.1 (lexArgs uw args h.2)
termination_by sizeOf e
theorem lexArgs (uw : Char → Bool) (es : List Expr) (h : printableEs es = true) : ArgsP uw es :=
  match es, h with
  | [], _ => .inl rfl
  | [e], h => by
    simp only [printableEs, Bool.and_true] at h
    refine .inr ?_
    simp only [pstrArgs, ptoksArgs]
    exact (lexE uw e h).1
  | e :: e' :: es, h => by
    rw [printableEs, Bool.and_eq_true] at h
    refine .inr ?_
    have h2 := lexArgs uw (e' :: es) h.2
    rcases h2 with h2 | h2
    · cases h2
    · have e1 : pstrArgs dflt (e :: e' :: es) = pstrE dflt e ++ commaSp ++ pstrArgs dflt (e' :: es) := by
        rw [pstrArgs]; exact List.cons_ne_nil _ _
      have e2 : ptoksArgs (e :: e' :: es) = ptoksE e ++ [.comma] ++ ptoksArgs (e' :: es) := by
        rw [ptoksArgs]; exact List.cons_ne_nil _ _
      rw [e1, e2]
      exact (lexE uw e h.1).1.comma h2
termination_by sizeOf es
theorem lexSel (uw : Char → Bool) (s : Sel) (h : printableSel s = true) : CSel uw (pstrSel dflt s) (ptoksSel s) :=
  match s, h with
  | .filter e, h => by
    simp only [printableSel] at h
    exact csel_filter uw e (lexE uw e h)
  | .name s, _ => csel_name uw s
  | .index i, _ => csel_index uw i
  | .slice a b c, _ => csel_slice uw a b c
  | .wild, _ => csel_wild uw
  | .keys, _ => csel_keys uw
termination_by sizeOf s
theorem lexSels (uw : Char → Bool) (ss : List Sel) (h : printableSels ss = true) : SelsP uw ss :=
  match ss, h with
  | [], _ => .inl rfl
  | [s], h => by
    simp only [printableSels, Bool.and_true] at h
    refine .inr ?_
    simp only [pstrSels, ptoksSels]
    exact lexSel uw s h
  | s :: s' :: ss, h => by
    rw [printableSels, Bool.and_eq_true] at h
    refine .inr ?_
    have h2 := lexSels uw (s' :: ss) h.2
    rcases h2 with h2 | h2
    · cases h2
    · have e1 : pstrSels dflt (s :: s' :: ss) = pstrSel dflt s ++ commaSp ++ pstrSels dflt (s' :: ss) := by
        rw [pstrSels]; exact List.cons_ne_nil _ _
      have e2 : ptoksSels (s :: s' :: ss) = ptoksSel s ++ [.comma] ++ ptoksSels (s' :: ss) := by
        rw [ptoksSels]; exact List.cons_ne_nil _ _
      rw [e1, e2]
      exact (lexSel uw s h.1).comma h2
termination_by sizeOf ss
theorem lexSegs (uw : Char → Bool) (q : List Seg) (h : printableSegs q = true) :
    CS uw (pstrSegs dflt q) (ptoksSegs q) :=
  match q, h with
  | [], _ => by simp only [pstrSegs, ptoksSegs]; exact CS.nil uw
  | .desc :: q, h => by
    simp only [printableSegs] at h
    simp only [pstrSegs, ptoksSegs]
    exact (lexSegs uw q h).desc
  | .child sels :: q, h => by
    simp only [printableSegs, Bool.and_eq_true] at h
    have e1 : pstrSegs dflt (.child sels :: q) = '[' :: (pstrSels dflt sels ++ ']' :: pstrSegs dflt q) := by
      simp only [pstrSegs, List.cons_append]
    have e2 : ptoksSegs (.child sels :: q) = .lbracket :: (ptoksSels sels ++ .rbracket :: ptoksSegs q) := by
      simp only [ptoksSegs, List.cons_append, List.nil_append, List.append_assoc]
    rw [e1, e2]
    exact CS.child (lexSels uw sels h.1).corr (lexSegs uw q h.2)
termination_by sizeOf q
end

end JP.Lemmas.LexPrint
