/-
  Helper lemmas for C13 (documented extensions, on the evaluator model). Statements used by JP/Props/C13.lean.
-/
import JP.Lemmas.QueryDefs
namespace JP.Lemmas
open JP JP.Query

theorem keys_spec (env : Env) (n : Node) :
    (evalSel env n .keys).map (·.val) =
      (match n.val with
       | .obj kvs => kvs.map (fun kv => J.str kv.1)
       | _ => []) := by
  sorry

theorem fake_root_spec (rx : Rx) (segs : List Seg) (doc extra : J) :
    (finditer rx ⟨segs, true⟩ doc extra).map (·.val) =
      (evalSegs { rx := rx, root := doc, extra := extra } segs [⟨[], ['$'], .arr [doc]⟩]).map (·.val) := by
  sorry

theorem fake_root_in_filter (env : Env) (cur : J) (key : Option Part) (q : List Seg) :
    evalExpr env cur key (.root q true) = .nodes (evalSegs env q [⟨[], env.rootTok, .arr [env.root]⟩]) := by
  sorry

theorem current_key_spec (env : Env) (cur : J) :
    (∀ k, evalExpr env cur (some (.key k)) .key = .val (.str k)) ∧
    (∀ i, evalExpr env cur (some (.idx i)) .key = .val (.int i)) ∧
    evalExpr env cur none .key = .undef := by
  sorry

theorem filter_binds_current_key (env : Env) (n : Node) (e : Expr) (kvs : List (Str × J)) (xs : List J) :
    (n.val = .obj kvs → (evalSel env n (.filter e)).map (·.val) =
        (kvs.filter (fun kv => isTruthy (evalExpr env kv.2 (some (.key kv.1)) e))).map (·.2)) ∧
    (n.val = .arr xs → (evalSel env n (.filter e)).map (·.val) =
        ((enumFrom 0 xs).filter (fun iv => isTruthy (evalExpr env iv.2 (some (.idx iv.1)) e))).map (·.2)) := by
  sorry

theorem filter_context_any_depth (env : Env) (cur : J) (key : Option Part) (q : List Seg) :
    evalExpr env cur key (.ctx q) = .nodes (evalSegs env q [⟨[], env.rootTok, env.extra⟩]) := by
  sorry

theorem in_contains_converse (rx : Rx) (a b : V) :
    compare rx a .in_ b = compare rx b .contains a := by
  sorry

theorem membership_spec (rx : Rx) (item : J) :
    (∀ xs, compare rx (.val item) .in_ (.val (.arr xs)) = xs.any (fun x => pyEq item x)) ∧
    (∀ s t, compare rx (.val (.str t)) .in_ (.val (.str s)) = isInfix t s) ∧
    (∀ kvs k, compare rx (.val (.str k)) .in_ (.val (.obj kvs)) = dictHas kvs k) := by
  sorry

theorem isInfix_spec (t s : Str) : isInfix t s = true ↔ ∃ pre post, s = pre ++ t ++ post := by
  sorry

theorem regex_fullmatch_flags (rx : Rx) (p f s : Str) :
    compare rx (.val (.str s)) .re (.rx p f) = (rx.fullmatch p f s).getD false := by
  sorry

theorem lg_eq_ne (rx : Rx) (a b : V) : compare rx a .lg b = compare rx a .ne b := by
  sorry

theorem undefined_singular (env : Env) (cur : J) (key : Option Part) (q : List Seg)
    (hs : Rfc.singularSegs q = true) :
    evalExpr env cur key (.infix (.self q) .eq .undefined) = .val (.bool (!isTruthy (evalExpr env cur key (.self q)))) ∧
    evalExpr env cur key (.infix (.self q) .ne .undefined) = .val (.bool (isTruthy (evalExpr env cur key (.self q)))) := by
  sorry

end JP.Lemmas
