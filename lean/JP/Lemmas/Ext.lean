/-
  Helper lemmas for C13 (documented extensions, on the evaluator model). Statements used by JP/Props/C13.lean.
-/
import JP.Lemmas.QueryDefs
import JP.Lemmas.Filter
namespace JP.Lemmas
open JP JP.Query

/-! ### Auxiliary list facts -/

theorem ext_enumFrom_map_snd {α β} (f : α → β) (xs : List α) (i : Nat) :
    (enumFrom i xs).map (fun p => f p.2) = xs.map f := by
  induction xs generalizing i with
  | nil => rfl
  | cons x xs ih => simp only [enumFrom, List.map_cons, ih]

theorem ext_filterMap_ite {α β} (p : α → Bool) (f : α → β) (xs : List α) :
    xs.filterMap (fun x => if p x = true then some (f x) else none) = (xs.filter p).map f := by
  induction xs with
  | nil => rfl
  | cons x xs ih =>
    cases h : p x
    · simp only [List.filterMap_cons, h, List.filter_cons, ih]
      simp
    · simp only [List.filterMap_cons, h, List.filter_cons, ih]
      simp

theorem keys_spec (env : Env) (n : Node) :
    (evalSel env n .keys).map (·.val) =
      (match n.val with
       | .obj kvs => kvs.map (fun kv => J.str kv.1)
       | _ => []) := by
  rw [evalSel]
  cases h : n.val with
  | obj kvs =>
    simp only [List.map_map]
    exact ext_enumFrom_map_snd (fun kv : Str × J => J.str kv.1) kvs 0
  | _ => rfl

theorem fake_root_spec (rx : Rx) (segs : List Seg) (doc extra : J) :
    (finditer rx ⟨segs, true⟩ doc extra).map (·.val) =
      (evalSegs { rx := rx, root := doc, extra := extra } segs [⟨[], ['$'], .arr [doc]⟩]).map (·.val) := by
  rfl

theorem fake_root_in_filter (env : Env) (cur : J) (key : Option Part) (q : List Seg) :
    evalExpr env cur key (.root q true) = .nodes (evalSegs env q [⟨[], env.rootTok, .arr [env.root]⟩]) := by
  rw [evalExpr]; rfl

theorem current_key_spec (env : Env) (cur : J) :
    (∀ k, evalExpr env cur (some (.key k)) .key = .val (.str k)) ∧
    (∀ i, evalExpr env cur (some (.idx i)) .key = .val (.int i)) ∧
    evalExpr env cur none .key = .undef := by
  refine ⟨fun k => ?_, fun i => ?_, ?_⟩ <;> rw [evalExpr]

theorem filter_binds_current_key (env : Env) (n : Node) (e : Expr) (kvs : List (Str × J)) (xs : List J) :
    (n.val = .obj kvs → (evalSel env n (.filter e)).map (·.val) =
        (kvs.filter (fun kv => isTruthy (evalExpr env kv.2 (some (.key kv.1)) e))).map (·.2)) ∧
    (n.val = .arr xs → (evalSel env n (.filter e)).map (·.val) =
        ((enumFrom 0 xs).filter (fun iv => isTruthy (evalExpr env iv.2 (some (.idx iv.1)) e))).map (·.2)) := by
  constructor
  · intro h
    rw [evalSel, h]
    simp only
    rw [ext_filterMap_ite (fun kv : Str × J => isTruthy (evalExpr env kv.2 (some (.key kv.1)) e))
      (fun kv : Str × J => childNode n (.key kv.1) (bracket (canonicalString kv.1)) kv.2) kvs]
    rw [List.map_map]; rfl
  · intro h
    rw [evalSel, h]
    simp only
    rw [ext_filterMap_ite (fun iv : Nat × J => isTruthy (evalExpr env iv.2 (some (.idx iv.1)) e))
      (fun iv : Nat × J => childNode n (.idx iv.1) (bracket (natStr iv.1)) iv.2) (enumFrom 0 xs)]
    rw [List.map_map]; rfl

theorem filter_context_any_depth (env : Env) (cur : J) (key : Option Part) (q : List Seg) :
    evalExpr env cur key (.ctx q) = .nodes (evalSegs env q [⟨[], env.rootTok, env.extra⟩]) := by
  rw [evalExpr]

theorem in_contains_converse (rx : Rx) (a b : V) :
    compare rx a .in_ b = compare rx b .contains a := by
  rfl

theorem membership_spec (rx : Rx) (item : J) :
    (∀ xs, compare rx (.val item) .in_ (.val (.arr xs)) = xs.any (fun x => item.eqv x)) ∧
    (∀ s t, compare rx (.val (.str t)) .in_ (.val (.str s)) = isInfix t s) ∧
    (∀ kvs k, compare rx (.val (.str k)) .in_ (.val (.obj kvs)) = dictHas kvs k) := by
  refine ⟨fun xs => ?_, fun s t => ?_, fun kvs k => ?_⟩ <;> rfl

theorem isInfix_spec (t s : Str) : isInfix t s = true ↔ ∃ pre post, s = pre ++ t ++ post := by
  induction s with
  | nil =>
    simp only [isInfix, List.isEmpty_iff]
    constructor
    · intro h; exact ⟨[], [], by simp [h]⟩
    · rintro ⟨pre, post, h⟩
      have h' := congrArg List.length h
      simp only [List.length_nil, List.length_append] at h'
      exact List.eq_nil_of_length_eq_zero (by omega)
  | cons c cs ih =>
    simp only [isInfix, Bool.or_eq_true, ih, List.isPrefixOf_iff_prefix]
    constructor
    · rintro (⟨post, h⟩ | ⟨pre, post, h⟩)
      · exact ⟨[], post, by simp [h]⟩
      · exact ⟨c :: pre, post, by simp [h]⟩
    · rintro ⟨pre, post, h⟩
      cases pre with
      | nil => left; exact ⟨post, by simpa using h.symm⟩
      | cons d pre =>
        right
        simp only [List.cons_append, List.cons.injEq] at h
        exact ⟨pre, post, h.2⟩

theorem regex_fullmatch_flags (rx : Rx) (p f s : Str) :
    compare rx (.val (.str s)) .re (.rx p f) = (rx.fullmatch p f s).getD false := by
  rfl

theorem lg_eq_ne (rx : Rx) (a b : V) : compare rx a .lg b = compare rx a .ne b := by
  rfl

theorem undefined_singular (env : Env) (cur : J) (key : Option Part) (q : List Seg)
    (hs : Rfc.singularSegs q = true) :
    evalExpr env cur key (.infix (.self q) .eq .undefined) = .val (.bool (!isTruthy (evalExpr env cur key (.self q)))) ∧
    evalExpr env cur key (.infix (.self q) .ne .undefined) = .val (.bool (isTruthy (evalExpr env cur key (.self q)))) := by
  have hle := singular_at_most_one env q ⟨[], env.rootTok, cur⟩ hs
  have hself : evalExpr env cur key (.self q) = .nodes (evalSegs env q [⟨[], env.rootTok, cur⟩]) := by
    rw [evalExpr]
  have hund : evalExpr env cur key .undefined = .undef := by rw [evalExpr]
  generalize hns : evalSegs env q [⟨[], env.rootTok, cur⟩] = ns at hle hself
  constructor
  · rw [evalExpr, hself, hund]
    match ns, hle with
    | [], _ => rfl
    | [n], _ => rfl
    | _ :: _ :: _, h => simp at h
  · rw [evalExpr, hself, hund]
    match ns, hle with
    | [], _ => rfl
    | [n], _ => rfl
    | _ :: _ :: _, h => simp at h

end JP.Lemmas
