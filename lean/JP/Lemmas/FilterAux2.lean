/-
  Auxiliary lemmas for C02: per-constructor steps of the simultaneous induction and the
  descendant segment for arbitrary (per-node refined) selector lists.
-/
import JP.Lemmas.FilterAux
namespace JP.Lemmas
open JP JP.Query
set_option linter.unusedSimpArgs false

theorem representsAll_length : ∀ {ns : List Node} {rs : List Rfc.RNode},
    RepresentsAll ns rs → ns.length = rs.length
  | [], [], _ => rfl
  | _ :: ns, _ :: rs, h => by simp [representsAll_length (ns := ns) (rs := rs) h.2]
  | [], _ :: _, h => absurd h (by simp [RepresentsAll])
  | _ :: _, [], h => absurd h (by simp [RepresentsAll])

theorem representsAll_isEmpty {ns : List Node} {rs : List Rfc.RNode}
    (h : RepresentsAll ns rs) : ns.isEmpty = rs.isEmpty := by
  have := representsAll_length h
  cases ns <;> cases rs <;> simp_all

/-- every query evaluates related node lists to related node lists -/
def SegsOK (env : Env) (renv : Rfc.REnv) (q : List Seg) : Prop :=
  ∀ ns rs, RepresentsAll ns rs → RepresentsAll (evalSegs env q ns) (Rfc.evalSegs renv q rs)

def NodesOK (env : Env) (renv : Rfc.REnv) (cur : J) (key : Option Part) (e : Expr) : Prop :=
  ∃ ns, evalExpr env cur key e = .nodes ns ∧ RepresentsAll ns (Rfc.nodesOfArg renv cur e)

theorem represents_start {env : Env} {renv : Rfc.REnv} (hag : EnvAgree env renv) (v : J) :
    RepresentsAll [⟨[], env.rootTok, v⟩] [⟨[], v⟩] := by
  refine ⟨⟨rfl, ?_, rfl⟩, trivial⟩
  simp [hag.2.2, Rfc.normalizedPath]

/-! ### values -/

/-- what `_unpack_node_lists` turns an RFC value into -/
def optV : Option J → V
  | some j => .val j
  | none => .undef

theorem unpack_of_repV {v : V} {o : Option J} (h : RepV (unwrapSingle v) o) :
    unpackValue v = optV o := by
  cases v with
  | nodes ns =>
    match ns, h with
    | [], h => cases o <;> simp [RepV, unwrapSingle, unpackValue, optV] at h ⊢
    | [n], h => cases o <;> simp [RepV, unwrapSingle, unpackValue, optV] at h ⊢ <;> exact h
    | _ :: _ :: _, h => cases o <;> simp [RepV, unwrapSingle] at h
  | val j => cases o <;> simp [RepV, unwrapSingle, unpackValue, optV] at h ⊢ <;> exact h
  | undef => cases o <;> simp [RepV, unwrapSingle, unpackValue, optV] at h ⊢
  | rx p f => cases o <;> simp [RepV, unwrapSingle] at h

/-- the value of a node list used as a comparable: its only node's value, else Nothing -/
def singleVal : List Rfc.RNode → Option J
  | [r] => some r.val
  | _ => none

theorem repV_nodes {ns : List Node} {rs : List Rfc.RNode} (h : RepresentsAll ns rs)
    (hl : ns.length ≤ 1) : RepV (unwrapSingle (.nodes ns)) (singleVal rs) := by
  match ns, rs, h, hl with
  | [], [], _, _ => simp [RepV, unwrapSingle, singleVal]
  | [n], [r], h, _ => simp [RepV, unwrapSingle, singleVal, h.1.2.2]
  | [], _ :: _, h, _ => exact absurd h (by simp [RepresentsAll])
  | _ :: _, [], h, _ => exact absurd h (by simp [RepresentsAll])
  | [_], _ :: _ :: _, h, _ => exact absurd h.2 (by simp [RepresentsAll])
  | _ :: _ :: _, _, _, hl => simp at hl

theorem valueOf_self (renv : Rfc.REnv) (cur : J) (q : List Seg) :
    Rfc.valueOf renv cur (.self q) = singleVal (Rfc.evalSegs renv q [⟨[], cur⟩]) := by
  rw [Rfc.valueOf]; unfold singleVal; split <;> simp_all

theorem valueOf_root (renv : Rfc.REnv) (cur : J) (q : List Seg) (fake : Bool) :
    Rfc.valueOf renv cur (.root q fake) = singleVal (Rfc.evalSegs renv q [⟨[], renv.root⟩]) := by
  rw [Rfc.valueOf]; unfold singleVal; split <;> simp_all

section Steps
variable {env : Env} {renv : Rfc.REnv} (hag : EnvAgree env renv)
include hag

/-! ### queries inside filter expressions -/

theorem start_self (q : List Seg) (hS : SegsOK env renv q) (cur : J) :
    RepresentsAll (evalSegs env q [⟨[], env.rootTok, cur⟩]) (Rfc.evalSegs renv q [⟨[], cur⟩]) :=
  hS _ _ (represents_start hag cur)

theorem start_root (q : List Seg) (hS : SegsOK env renv q) :
    RepresentsAll (evalSegs env q [⟨[], env.rootTok, env.root⟩])
      (Rfc.evalSegs renv q [⟨[], renv.root⟩]) := by
  have := hS _ _ (represents_start hag env.root)
  rw [← hag.1]; exact this

theorem nodes_self_step (q : List Seg) (hS : SegsOK env renv q) (cur : J) (key : Option Part) :
    NodesOK env renv cur key (.self q) :=
  ⟨evalSegs env q [⟨[], env.rootTok, cur⟩], by simp [evalExpr],
    by simpa [Rfc.nodesOfArg] using start_self hag q hS cur⟩

theorem nodes_root_step (q : List Seg) (hS : SegsOK env renv q) (cur : J) (key : Option Part) :
    NodesOK env renv cur key (.root q false) :=
  ⟨evalSegs env q [⟨[], env.rootTok, env.root⟩], by simp [evalExpr],
    by simpa [Rfc.nodesOfArg] using start_root hag q hS⟩

theorem logical_self_step (q : List Seg) (hS : SegsOK env renv q) (cur : J) (key : Option Part) :
    isTruthy (evalExpr env cur key (.self q)) = Rfc.logical renv cur (.self q) := by
  have := representsAll_isEmpty (start_self hag q hS cur)
  simp [evalExpr, isTruthy, Rfc.logical, this]

theorem logical_root_step (q : List Seg) (hS : SegsOK env renv q) (cur : J) (key : Option Part) :
    isTruthy (evalExpr env cur key (.root q false)) = Rfc.logical renv cur (.root q false) := by
  have := representsAll_isEmpty (start_root hag q hS)
  simp [evalExpr, isTruthy, Rfc.logical, this]

theorem value_self_step (q : List Seg) (hs : Rfc.singularSegs q = true) (hS : SegsOK env renv q)
    (cur : J) (key : Option Part) :
    RepV (unwrapSingle (evalExpr env cur key (.self q))) (Rfc.valueOf renv cur (.self q)) := by
  have := repV_nodes (start_self hag q hS cur) (singular_le_one env q _ hs (by simp))
  rw [valueOf_self]
  simpa [evalExpr] using this

theorem value_root_step (q : List Seg) (hs : Rfc.singularSegs q = true) (hS : SegsOK env renv q)
    (cur : J) (key : Option Part) :
    RepV (unwrapSingle (evalExpr env cur key (.root q false)))
      (Rfc.valueOf renv cur (.root q false)) := by
  have := repV_nodes (start_root hag q hS) (singular_le_one env q _ hs (by simp))
  rw [valueOf_root]
  simpa [evalExpr] using this

end Steps
section Steps2
variable {env : Env} {renv : Rfc.REnv} (hag : EnvAgree env renv)

@[simp] theorem isTruthy_bool (b : Bool) : isTruthy (.val (.bool b)) = b := rfl

theorem logical_not_step (e : Expr) (cur : J) (key : Option Part)
    (ih : isTruthy (evalExpr env cur key e) = Rfc.logical renv cur e) :
    isTruthy (evalExpr env cur key (.not e)) = Rfc.logical renv cur (.not e) := by
  simp [evalExpr, Rfc.logical, ih]

theorem logical_and_step (l r : Expr) (cur : J) (key : Option Part)
    (ihl : isTruthy (evalExpr env cur key l) = Rfc.logical renv cur l)
    (ihr : isTruthy (evalExpr env cur key r) = Rfc.logical renv cur r) :
    isTruthy (evalExpr env cur key (.infix l .and r)) = Rfc.logical renv cur (.infix l .and r) := by
  simp [evalExpr, Rfc.logical, Query.compare, ihl, ihr]

theorem logical_or_step (l r : Expr) (cur : J) (key : Option Part)
    (ihl : isTruthy (evalExpr env cur key l) = Rfc.logical renv cur l)
    (ihr : isTruthy (evalExpr env cur key r) = Rfc.logical renv cur r) :
    isTruthy (evalExpr env cur key (.infix l .or r)) = Rfc.logical renv cur (.infix l .or r) := by
  simp [evalExpr, Rfc.logical, Query.compare, ihl, ihr]

theorem evalExpr_cmp (l r : Expr) (op : CmpOp) (hop : isCmpOp op = true) (cur : J) (key : Option Part) :
    evalExpr env cur key (.infix l op r) =
      .val (.bool (Query.compare env.rx (unwrapSingle (evalExpr env cur key l)) op
        (unwrapSingle (evalExpr env cur key r)))) := by
  have h : (op == CmpOp.and || op == CmpOp.or) = false := by
    cases op <;> simp [isCmpOp] at hop <;> rfl
  simp only [evalExpr, h]
  congr 3 <;> (simp only [unwrapSingle]; split <;> simp_all)

theorem logical_cmp_step (l r : Expr) (op : CmpOp) (hop : isCmpOp op = true) (cur : J)
    (key : Option Part)
    (ihl : RepV (unwrapSingle (evalExpr env cur key l)) (Rfc.valueOf renv cur l))
    (ihr : RepV (unwrapSingle (evalExpr env cur key r)) (Rfc.valueOf renv cur r)) :
    isTruthy (evalExpr env cur key (.infix l op r)) = Rfc.logical renv cur (.infix l op r) := by
  rw [evalExpr_cmp l r op hop, isTruthy_bool, compare_refines_rfc_aux env.rx op hop _ _ _ _ ihl ihr]
  cases op <;> simp [isCmpOp] at hop <;> simp [Rfc.logical]

end Steps2
section Steps3
variable {env : Env} {renv : Rfc.REnv} (hag : EnvAgree env renv)

theorem ne_cl : "count".toList ≠ "length".toList := by decide
theorem ne_vl : "value".toList ≠ "length".toList := by decide
theorem ne_vc : "value".toList ≠ "count".toList := by decide
theorem ne_ml : "match".toList ≠ "length".toList := by decide
theorem ne_mc : "match".toList ≠ "count".toList := by decide
theorem ne_mv : "match".toList ≠ "value".toList := by decide
theorem ne_sl : "search".toList ≠ "length".toList := by decide
theorem ne_sc : "search".toList ≠ "count".toList := by decide
theorem ne_sv : "search".toList ≠ "value".toList := by decide
theorem ne_sm : "search".toList ≠ "match".toList := by decide

theorem value_length_step (a : Expr) (cur : J) (key : Option Part)
    (ih : RepV (unwrapSingle (evalExpr env cur key a)) (Rfc.valueOf renv cur a)) :
    RepV (unwrapSingle (evalExpr env cur key (.func "length".toList [a])))
      (Rfc.valueOf renv cur (.func "length".toList [a])) := by
  have hu := unpack_of_repV ih
  simp only [evalExpr, applyFn, evalArgs, Rfc.valueOf, if_true, hu]
  cases h : Rfc.valueOf renv cur a with
  | none => simp [fnLength, unwrapSingle, RepV, optV]
  | some j => cases j <;> simp [fnLength, unwrapSingle, RepV, optV]

theorem value_count_step (a : Expr) (cur : J) (key : Option Part)
    (ih : NodesOK env renv cur key a) :
    RepV (unwrapSingle (evalExpr env cur key (.func "count".toList [a])))
      (Rfc.valueOf renv cur (.func "count".toList [a])) := by
  obtain ⟨ns, h1, h2⟩ := ih
  simp only [evalExpr, applyFn, evalArgs, Rfc.valueOf, if_true, h1, ne_cl, if_false]
  simp [fnCount, unwrapSingle, RepV, representsAll_length h2]

theorem value_value_step (a : Expr) (cur : J) (key : Option Part)
    (ih : NodesOK env renv cur key a) :
    RepV (unwrapSingle (evalExpr env cur key (.func "value".toList [a])))
      (Rfc.valueOf renv cur (.func "value".toList [a])) := by
  obtain ⟨ns, h1, h2⟩ := ih
  simp only [evalExpr, applyFn, evalArgs, Rfc.valueOf, if_true, h1, ne_vl, ne_vc, if_false]
  generalize Rfc.nodesOfArg renv cur a = rs at h2
  match ns, rs, h2 with
  | [], [], _ => simp [fnValue, unwrapSingle, RepV]
  | [n], [r], h => simp [fnValue, unwrapSingle, RepV, h.1.2.2]
  | [], _ :: _, h => exact absurd h (by simp [RepresentsAll])
  | _ :: _, [], h => exact absurd h (by simp [RepresentsAll])
  | [_], _ :: _ :: _, h => exact absurd h.2 (by simp [RepresentsAll])
  | _ :: _ :: _, [_], h => exact absurd h.2 (by simp [RepresentsAll])
  | _ :: _ :: _, _ :: _ :: _, h => simp [fnValue, unwrapSingle, RepV]

end Steps3
section Steps4
variable {env : Env} {renv : Rfc.REnv} (hag : EnvAgree env renv)

include hag in
theorem logical_match_step (a b : Expr) (cur : J) (key : Option Part)
    (iha : RepV (unwrapSingle (evalExpr env cur key a)) (Rfc.valueOf renv cur a))
    (ihb : RepV (unwrapSingle (evalExpr env cur key b)) (Rfc.valueOf renv cur b)) :
    isTruthy (evalExpr env cur key (.func "match".toList [a, b])) =
      Rfc.logical renv cur (.func "match".toList [a, b]) := by
  have ha := unpack_of_repV iha
  have hb := unpack_of_repV ihb
  simp only [evalExpr, applyFn, evalArgs, Rfc.logical, if_true, ha, hb, ne_ml, ne_mc, ne_mv, if_false,
    true_or, hag.2.1]
  cases Rfc.valueOf renv cur a with
  | none => simp [fnMatch, optV]
  | some ja =>
    cases Rfc.valueOf renv cur b with
    | none => cases ja <;> simp [fnMatch, optV]
    | some jb => cases ja <;> cases jb <;> simp [fnMatch, optV]

include hag in
theorem logical_search_step (a b : Expr) (cur : J) (key : Option Part)
    (iha : RepV (unwrapSingle (evalExpr env cur key a)) (Rfc.valueOf renv cur a))
    (ihb : RepV (unwrapSingle (evalExpr env cur key b)) (Rfc.valueOf renv cur b)) :
    isTruthy (evalExpr env cur key (.func "search".toList [a, b])) =
      Rfc.logical renv cur (.func "search".toList [a, b]) := by
  have ha := unpack_of_repV iha
  have hb := unpack_of_repV ihb
  simp only [evalExpr, applyFn, evalArgs, Rfc.logical, if_true, ha, hb, ne_sl, ne_sc, ne_sv, ne_sm, if_false,
    or_true, hag.2.1]
  cases Rfc.valueOf renv cur a with
  | none => simp [fnMatch, optV]
  | some ja =>
    cases Rfc.valueOf renv cur b with
    | none => cases ja <;> simp [fnMatch, optV]
    | some jb => cases ja <;> cases jb <;> simp [fnMatch, optV]

include hag in
theorem logical_func_step (name : Str) (args : List Expr) (cur : J) (key : Option Part)
    (hwt : Rfc.wtLogical (.func name args) = true)
    (ihV : ∀ a ∈ args, Rfc.wtComparable a = true →
      RepV (unwrapSingle (evalExpr env cur key a)) (Rfc.valueOf renv cur a)) :
    isTruthy (evalExpr env cur key (.func name args)) = Rfc.logical renv cur (.func name args) := by
  by_cases hn : name = "match".toList ∨ name = "search".toList
  · match args, hwt, ihV with
    | [a, b], hwt, ihV =>
      simp only [Rfc.wtLogical, hn, if_true, Bool.and_eq_true] at hwt
      have iha := ihV a (by simp) hwt.1
      have ihb := ihV b (by simp) hwt.2
      rcases hn with rfl | rfl
      · exact logical_match_step hag a b cur key iha ihb
      · exact logical_search_step hag a b cur key iha ihb
    | [], hwt, _ => simp [Rfc.wtLogical] at hwt
    | [_], hwt, _ => simp [Rfc.wtLogical] at hwt
    | _ :: _ :: _ :: _, hwt, _ => simp [Rfc.wtLogical] at hwt
  · rw [Rfc.wtLogical.eq_def] at hwt; simp only [hn, if_false] at hwt; cases hwt

theorem value_func_step (name : Str) (args : List Expr) (cur : J) (key : Option Part)
    (hwt : Rfc.wtComparable (.func name args) = true)
    (ihV : ∀ a ∈ args, Rfc.wtComparable a = true →
      RepV (unwrapSingle (evalExpr env cur key a)) (Rfc.valueOf renv cur a))
    (ihN : ∀ a ∈ args, Rfc.wtNodesArg a = true → NodesOK env renv cur key a) :
    RepV (unwrapSingle (evalExpr env cur key (.func name args)))
      (Rfc.valueOf renv cur (.func name args)) := by
  by_cases h1 : name = "length".toList
  · subst h1
    match args, hwt, ihV with
    | [a], hwt, ihV =>
      simp only [Rfc.wtComparable, if_true] at hwt
      exact value_length_step a cur key (ihV a (by simp) hwt)
    | [], hwt, _ => simp [Rfc.wtComparable] at hwt
    | _ :: _ :: _, hwt, _ => simp [Rfc.wtComparable] at hwt
  · by_cases hn : name = "count".toList ∨ name = "value".toList
    · match args, hwt, ihN with
      | [a], hwt, ihN =>
        simp only [Rfc.wtComparable, h1, hn, if_true, if_false] at hwt
        have := ihN a (by simp) hwt
        rcases hn with rfl | rfl
        · exact value_count_step a cur key this
        · exact value_value_step a cur key this
      | [], hwt, _ => rw [Rfc.wtComparable.eq_def] at hwt; simp only [h1, hn, if_true, if_false] at hwt; cases hwt
      | _ :: _ :: _, hwt, _ =>
        rw [Rfc.wtComparable.eq_def] at hwt; simp only [h1, hn, if_true, if_false] at hwt; cases hwt
    · rw [Rfc.wtComparable.eq_def] at hwt; simp only [h1, hn, if_false] at hwt; cases hwt

end Steps4
end JP.Lemmas
