/-
  Generic `Except` plumbing and the pointer-side error-class lemmas for C06.
-/
import JP.Patch
import JP.RelPointer
namespace JP.Lemmas
open JP JP.Pointer

/-! ### `Except` plumbing -/

theorem sf_bind_err {ε α β} {a : Except ε α} {f : α → Except ε β} {e : ε}
    (h : (a >>= f) = .error e) : a = .error e ∨ ∃ x, a = .ok x ∧ f x = .error e := by
  cases a with
  | error e' =>
    left
    have h' : (Except.error e' : Except ε β) = .error e := h
    cases h'; rfl
  | ok x => exact Or.inr ⟨x, rfl, h⟩

theorem sf_bind_pure {ε α β} (x : α) (f : α → Except ε β) :
    ((pure x : Except ε α) >>= f) = f x := rfl
theorem sf_bind_throw {ε α β} (e : ε) (f : α → Except ε β) :
    ((throw e : Except ε α) >>= f) = Except.error e := rfl
theorem sf_bind_ok_eq {ε α β} (x : α) (f : α → Except ε β) : (Except.ok x >>= f) = f x := rfl
theorem sf_bind_error_eq {ε α β} (e : ε) (f : α → Except ε β) :
    (Except.error e >>= f) = Except.error e := rfl
theorem sf_pure_eq {ε α} (a : α) : (pure a : Except ε α) = Except.ok a := rfl
theorem sf_throw_eq {ε α} (e : ε) : (throw e : Except ε α) = Except.error e := rfl

/-- Normalise a hypothesis about a `do` block in `Except`. -/
macro "err_norm" h:ident : tactic =>
  `(tactic| ((try dsimp only at $h:ident);
             (try simp only [sf_bind_pure, sf_bind_throw, sf_pure_eq, sf_throw_eq, sf_bind_ok_eq,
               sf_bind_error_eq] at $h:ident)))

/-- Split a hypothesis `… = .error e` along every `if`/`match`; constant leaves are closed
    automatically, the remaining ones by `t`. -/
macro "err_leaves" h:ident " with " t:tacticSeq : tactic =>
  `(tactic| ((repeat' (first
        | split at $h:ident
        | simp only [sf_bind_pure, sf_bind_throw, sf_pure_eq, sf_throw_eq, sf_bind_ok_eq,
            sf_bind_error_eq] at $h:ident)) <;>
      first | (cases $h:ident; done) | (cases $h:ident; rfl) | (cases $h:ident; simp; done) | ($t)))

theorem sf_mapM_err {ε α β} (f : α → Except ε β) (xs : List α) (e : ε)
    (h : xs.mapM f = .error e) : ∃ x, x ∈ xs ∧ f x = .error e := by
  induction xs with
  | nil => rw [List.mapM_nil] at h; cases h
  | cons x xs ih =>
    rw [List.mapM_cons] at h
    rcases sf_bind_err h with h1 | ⟨y, _, h2⟩
    · exact ⟨x, List.mem_cons_self, h1⟩
    · rcases sf_bind_err h2 with h3 | ⟨ys, _, h4⟩
      · obtain ⟨x', hx', hf⟩ := ih h3
        exact ⟨x', List.mem_cons_of_mem _ hx', hf⟩
      · cases h4

theorem sf_foldlM_err {ε α β} (f : β → α → Except ε β) (xs : List α) (a : β) (e : ε)
    (h : xs.foldlM f a = .error e) : ∃ b x, x ∈ xs ∧ f b x = .error e := by
  induction xs generalizing a with
  | nil => rw [List.foldlM_nil] at h; cases h
  | cons x xs ih =>
    rw [List.foldlM_cons] at h
    rcases sf_bind_err h with h1 | ⟨y, _, h2⟩
    · exact ⟨a, x, List.mem_cons_self, h1⟩
    · obtain ⟨b, x', hx', hf⟩ := ih y h2
      exact ⟨b, x', List.mem_cons_of_mem _ hx', hf⟩

/-! ### pointer primitives -/

theorem sf_unicodeEscape_err (dec : EscDec) (s : Str) (e : Err)
    (h : unicodeEscape dec s = .error e) : e = .ptr := by
  unfold unicodeEscape at h
  err_norm h
  err_leaves h with skip

theorem sf_indexOf_err (s : Str) (e : Err) (h : indexOf s = .error e) : e = .ptrIndex := by
  unfold indexOf at h
  err_norm h
  err_leaves h with skip

theorem sf_indexOf_mapM_err (ts : List Str) (e : Err)
    (h : ts.mapM (fun p => indexOf (unescapeTok p)) = .error e) : e = .ptrIndex := by
  obtain ⟨x, _, hx⟩ := sf_mapM_err _ _ _ h
  exact sf_indexOf_err _ _ hx

theorem sf_parse_err (dec : EscDec) (ue : Bool) (s : Str) (err : Err)
    (h : Pointer.parse dec ue s = .error err) : err = .ptr ∨ err = .ptrIndex := by
  unfold Pointer.parse at h
  err_norm h
  split at h
  · rcases sf_bind_err h with h1 | ⟨s', _, h2⟩
    · exact Or.inl (sf_unicodeEscape_err _ _ _ h1)
    · err_leaves h2 with exact Or.inr (sf_indexOf_mapM_err _ _ h2)
  · err_leaves h with exact Or.inr (sf_indexOf_mapM_err _ _ h)

theorem sf_isRes_ptrIndex {e : Err} (h : e = .ptrIndex) : e.isPointerResolution = true := by
  subst h; rfl

theorem sf_getitem_err (v : J) (p : Part) (err : Err)
    (h : getitem v p = .error err) : err.isPointerResolution = true := by
  unfold getitem at h
  err_norm h
  err_leaves h with
    (rcases sf_bind_err h with h1 | ⟨q, _, h2⟩
     · exact sf_isRes_ptrIndex (sf_indexOf_err _ _ h1)
     · err_leaves h2 with skip)

theorem sf_resolveParts_err (doc : J) (ps : List Part) (err : Err)
    (h : resolveParts doc ps = .error err) : err.isPointerResolution = true := by
  unfold resolveParts at h
  obtain ⟨b, x, _, hf⟩ := sf_foldlM_err _ _ _ _ h
  exact sf_getitem_err _ _ _ hf

theorem sf_resolveParent_err (doc : J) (ps : List Part) (err : Err)
    (h : resolveParent doc ps = .error err) : err.isPointerResolution = true := by
  unfold resolveParent at h
  split at h
  · cases h
  · rcases sf_bind_err h with h1 | ⟨parent, _, h2⟩
    · exact sf_resolveParts_err _ _ _ h1
    · split at h2
      · cases h2
      · cases h2
      · cases h2
      · rename_i e hg
        cases h2
        exact sf_getitem_err _ _ _ hg

theorem sf_existsIn_ok (doc : J) (ps : List Part) : ∃ b, existsIn doc ps = .ok b := by
  unfold existsIn
  split
  · exact ⟨true, rfl⟩
  · rename_i e he
    have := sf_resolveParts_err _ _ _ he
    rw [this]; exact ⟨false, rfl⟩

theorem sf_truediv_err (dec : EscDec) (ps : List Part) (other : Str) (err : Err)
    (h : truediv dec ps other = .error err) : err = .ptr ∨ err = .ptrIndex := by
  unfold truediv at h
  rcases sf_bind_err h with h1 | ⟨o, _, h2⟩
  · exact Or.inl (sf_unicodeEscape_err _ _ _ h1)
  · split at h2
    · exact sf_parse_err _ _ _ _ h2
    · rcases sf_bind_err h2 with h3 | ⟨m, _, h4⟩
      · exact Or.inr (sf_indexOf_mapM_err _ _ h3)
      · cases h4

theorem sf_fromParts_err (dec : EscDec) (ue : Bool) (ps : List Part) (err : Err)
    (h : fromParts dec ue ps = .error err) : err = .ptr := by
  unfold fromParts at h
  obtain ⟨p, _, hp⟩ := sf_mapM_err _ _ _ h
  err_norm hp
  split at hp
  · rcases sf_bind_err hp with h1 | ⟨s, _, h2⟩
    · exact sf_unicodeEscape_err _ _ _ h1
    · cases h2
  · cases hp

/-! ### relative pointers -/

theorem sf_zeroOrPositive_err (s : Str) (e : Err)
    (h : RelPointer.zeroOrPositive s = .error e) : e = .relSyntax := by
  unfold RelPointer.zeroOrPositive at h
  err_norm h
  err_leaves h with skip

theorem sf_rel_parse_err (dec : EscDec) (ue : Bool) (s : Str) (err : Err)
    (h : RelPointer.parse dec ue s = .error err) :
    err = .relSyntax ∨ err = .ptr ∨ err = .ptrIndex := by
  unfold RelPointer.parse at h
  err_norm h
  have tail : ∀ (r : Res RelPointer.Rel) (f : List Part → RelPointer.Rel) (t : Str),
      ((do let ps ← Pointer.parse dec ue t; Except.ok (f ps)) : Res RelPointer.Rel) = .error err →
      err = .relSyntax ∨ err = .ptr ∨ err = .ptrIndex := by
    intro _ f t ht
    rcases sf_bind_err ht with h1 | ⟨ps, _, h2⟩
    · exact Or.inr (sf_parse_err _ _ _ _ h1)
    · cases h2
  split at h
  · cases h; exact Or.inl rfl
  · rcases sf_bind_err h with h1 | ⟨origin, _, h2⟩
    · exact Or.inl (sf_zeroOrPositive_err _ _ h1)
    · split at h2
      · split at h2
        · cases h2
        · exact tail (.error err) _ _ h2
      · rcases sf_bind_err h2 with h3 | ⟨n, _, h4⟩
        · exact Or.inl (sf_zeroOrPositive_err _ _ h3)
        · split at h4
          · cases h4; exact Or.inl rfl
          · split at h4
            · cases h4
            · exact tail (.error err) _ _ h4

theorem sf_rel_apply_err (dec : EscDec) (ue : Bool) (r : RelPointer.Rel) (base : List Part)
    (err : Err) (h : RelPointer.applyTo dec ue r base = .error err) :
    err = .relIndex ∨ err = .ptr := by
  unfold RelPointer.applyTo at h
  err_norm h
  err_leaves h with exact Or.inr (sf_fromParts_err _ _ _ _ h)

/-! ### building patches -/

theorem sf_opPointer_err (dec : EscDec) (ue : Bool) (kvs : List (Str × J)) (key : Str) (e : Err)
    (h : Patch.opPointer dec ue kvs key = .error e) : e = .patch := by
  unfold Patch.opPointer at h
  err_norm h
  split at h
  · cases h; rfl
  · split at h
    · cases h
    · rename_i e' hp
      rcases sf_parse_err _ _ _ _ hp with rfl | rfl
      · cases h; rfl
      · cases h; rfl
  · cases h; rfl

theorem sf_opValue_err (kvs : List (Str × J)) (key : Str) (e : Err)
    (h : Patch.opValue kvs key = .error e) : e = .patch := by
  unfold Patch.opValue at h
  err_norm h
  err_leaves h with skip

theorem sf_build2 {γ} (dec : EscDec) (ue : Bool) (kvs : List (Str × J)) (k1 k2 : Str)
    (f : List Part → J → γ) (e : Err)
    (h : ((do let p ← Patch.opPointer dec ue kvs k1; let v ← Patch.opValue kvs k2; pure (f p v)) :
      Res γ) = .error e) : e = .patch := by
  rcases sf_bind_err h with h1 | ⟨p, _, h2⟩
  · exact sf_opPointer_err _ _ _ _ _ h1
  · rcases sf_bind_err h2 with h3 | ⟨v, _, h4⟩
    · exact sf_opValue_err _ _ _ h3
    · cases h4

theorem sf_build2p {γ} (dec : EscDec) (ue : Bool) (kvs : List (Str × J)) (k1 k2 : Str)
    (f : List Part → List Part → γ) (e : Err)
    (h : ((do let p ← Patch.opPointer dec ue kvs k1; let v ← Patch.opPointer dec ue kvs k2;
              pure (f p v)) : Res γ) = .error e) : e = .patch := by
  rcases sf_bind_err h with h1 | ⟨p, _, h2⟩
  · exact sf_opPointer_err _ _ _ _ _ h1
  · rcases sf_bind_err h2 with h3 | ⟨v, _, h4⟩
    · exact sf_opPointer_err _ _ _ _ _ h3
    · cases h4

theorem sf_build1 {γ} (dec : EscDec) (ue : Bool) (kvs : List (Str × J)) (k1 : Str)
    (f : List Part → γ) (e : Err)
    (h : ((do let p ← Patch.opPointer dec ue kvs k1; pure (f p)) : Res γ) = .error e) :
    e = .patch := by
  rcases sf_bind_err h with h1 | ⟨p, _, h2⟩
  · exact sf_opPointer_err _ _ _ _ _ h1
  · cases h2

theorem sf_buildOp_err (dec : EscDec) (ue : Bool) (operation : J) (e : Err)
    (h : Patch.buildOp dec ue operation = .error e) : e = .patch := by
  unfold Patch.buildOp at h
  split at h
  · split at h
    · cases h; rfl
    · split at h
      · exact sf_build2 _ _ _ _ _ _ _ h
      · split at h
        · exact sf_build2 _ _ _ _ _ _ _ h
        · split at h
          · exact sf_build2 _ _ _ _ _ _ _ h
          · split at h
            · exact sf_build1 _ _ _ _ _ _ h
            · split at h
              · exact sf_build2 _ _ _ _ _ _ _ h
              · split at h
                · exact sf_build2p _ _ _ _ _ _ _ h
                · split at h
                  · exact sf_build2p _ _ _ _ _ _ _ h
                  · split at h
                    · exact sf_build2 _ _ _ _ _ _ _ h
                    · cases h; rfl
    · cases h; rfl
  · cases h; rfl

theorem sf_build_err (dec : EscDec) (ue : Bool) (ops : J) (e : Err)
    (h : Patch.build dec ue ops = .error e) : e = .patch := by
  unfold Patch.build at h
  split at h
  · cases h
  · split at h
    · obtain ⟨x, _, hx⟩ := sf_mapM_err _ _ _ h
      exact sf_buildOp_err _ _ _ _ hx
    · cases h; rfl

end JP.Lemmas
