/-
  The pointer string of a location (C03): `encode (locParts loc)` is the RFC 6901 spelling, and
  resolving it gives the value at the location.
-/
import JP.Lemmas.LocateAux1
namespace JP.Lemmas
open JP JP.Pointer

/-- the RFC 6901 step of an RFC 9535 location step -/
def ptrStep : Rfc.LStep → Step
  | .name k => .name k
  | .index n => .index n

theorem ptrStep_eq (s : Rfc.LStep) :
    (match s with | .name k => Step.name k | .index n => Step.index n) = ptrStep s := by
  cases s <;> rfl

theorem partStr_partOfStep (s : Rfc.LStep) : partStr (partOfStep s) = stepToken (ptrStep s) := by
  cases s <;> rfl

theorem encode_locParts_aux (loc : List Rfc.LStep) :
    encode (locParts loc) = spell (loc.map ptrStep) := by
  cases loc with
  | nil => rfl
  | cons s a =>
    unfold spell
    rw [List.map_cons, List.map_cons, ← slash_joinWith_eq_spellTokens, locParts_cons, encode_cons]
    simp only [List.map_cons, List.map_map, locParts]
    rw [partStr_partOfStep]
    congr 3
    apply List.map_congr_left
    intro x _
    simp [partStr_partOfStep]

theorem valueAt_map_ptrStep (doc : J) (loc : List Rfc.LStep) :
    valueAt doc (loc.map ptrStep) = locValue doc loc := by
  induction loc generalizing doc with
  | nil => cases doc <;> rfl
  | cons s a ih =>
    cases doc <;> cases s <;> try rfl
    case obj.name kvs k =>
      simp only [List.map_cons, ptrStep, valueAt, locValue_obj_name]
      cases dictGet kvs k with
      | none => rfl
      | some c => exact ih c
    case arr.index xs n =>
      simp only [List.map_cons, ptrStep, valueAt, locValue_arr_index]
      cases xs[n]? with
      | none => rfl
      | some c => exact ih c

theorem pointer_string_of_location_aux (dec : EscDec) (ue : Bool) (doc v : J) (loc : List Rfc.LStep)
    (h : locValue doc loc = some v)
    (hr : ∀ s ∈ loc, StepInRange (ptrStep s))
    (hb : ue = true → (encode (locParts loc)).contains '\\' = false) :
    resolveText dec ue (encode (locParts loc)) doc = .ok v := by
  rw [encode_locParts_aux] at hb ⊢
  apply resolveText_spell dec ue doc v _ _ _ hb
  · rw [valueAt_map_ptrStep]; exact h
  · intro p hp
    obtain ⟨s, hs, rfl⟩ := List.mem_map.1 hp
    exact hr s hs

end JP.Lemmas
