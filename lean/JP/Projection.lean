/-
  JP.Projection — code-shaped model of `Query.select` (fluent_api.py): `_select`, `_patch_obj`,
  `_fix_sparse_arrays`.

  The intermediate object is a Python dict keyed by `int` (array index) or `str` (member name), in
  insertion order, whose values are again such dicts or *leaves* (copies of selected values).
  Navigating into a leaf (an earlier, wider selection) is the overlapping-selections case: the
  model answers `none` there ("outside the model"); the property's theorems assume disjoint selections.
-/
import JP.Pointer
namespace JP
namespace Projection

inductive T where
  | leaf (v : J)
  | node (kvs : List (Part × T))
  deriving Inhabited

/-- `d[k]` on the intermediate dict -/
def getT : List (Part × T) → Part → Option T
  | [], _ => none
  | (q, t) :: rest, p => if q = p then some t else getT rest p

/-- `d[k] = t`: an existing key keeps its position, a new key goes last -/
def setT : List (Part × T) → Part → T → List (Part × T)
  | [], p, t => [(p, t)]
  | (q, u) :: rest, p, t => if q = p then (p, t) :: rest else (q, u) :: setT rest p t

/-- `_patch_obj(parts, obj, value)` -/
def patch : List Part → List (Part × T) → J → Option (List (Part × T))
  | [], _, _ => none                                   -- `parts[-1]` on an empty tuple: IndexError
  | [p], kvs, v => some (setT kvs p (.leaf v))
  | p :: q :: rest, kvs, v =>
    match getT kvs p with
    | none => (patch (q :: rest) [] v).map (fun sub => setT kvs p (.node sub))
    | some (.node sub) => (patch (q :: rest) sub v).map (fun sub' => setT kvs p (.node sub'))
    | some (.leaf _) => none                            -- overlapping selections: outside the model

/-- `_fix_sparse_arrays` on a JSON value (a selected leaf): rebuilds lists and dicts, changes nothing -/
def fixJ : J → J
  | .arr xs => if xs.isEmpty then .arr xs else .arr (fixList xs)
  | .obj kvs => if kvs.isEmpty then .obj kvs else .obj (fixMembers kvs)
  | v => v
where
  fixList : List J → List J
    | [] => []
    | x :: xs => fixJ x :: fixList xs
  fixMembers : List (Str × J) → List (Str × J)
    | [] => []
    | (k, v) :: rest => (k, fixJ v) :: fixMembers rest

/-- `_fix_sparse_arrays` on the intermediate object: a dict whose first key is an `int` becomes the
    list of its values (insertion order), any other dict keeps its keys -/
def fix : T → J
  | .leaf v => fixJ v
  | .node [] => .obj []
  | .node ((p, t) :: rest) =>
    match p with
    | .idx _ => .arr (fix t :: fixVals rest)
    | .key _ => .obj ((Pointer.partStr p, fix t) :: fixMembers rest)
where
  fixVals : List (Part × T) → List J
    | [] => []
    | (_, t) :: rest => fix t :: fixVals rest
  fixMembers : List (Part × T) → List (Str × J)
    | [] => []
    | (p, t) :: rest => (Pointer.partStr p, fix t) :: fixMembers rest

/-- all selections patched into a fresh `{}`, in selection order -/
def patchAll : List (List Part × J) → List (Part × T) → Option (List (Part × T))
  | [], kvs => some kvs
  | (ps, v) :: rest, kvs => (patch ps kvs v).bind (patchAll rest)

/-- Python truthiness of a projection result (`filter(bool, …)`) -/
def truthyJ : J → Bool
  | .null => false
  | .bool b => b
  | .int i => i != 0
  | .flt m => m != 0
  | .str s => !s.isEmpty
  | .arr xs => !xs.isEmpty
  | .obj kvs => !kvs.isEmpty

inductive Style where
  | relative | flat | root
  deriving DecidableEq, Repr

/-- `Query._select(match, …)` given the selections (relative parts, value) found below the match:
    `none` = no projection for this match; `some none` = outside the model (overlapping). -/
def select (style : Style) (matchParts : List Part) (matchVal : J) (sels : List (List Part × J)) :
    Option (Option J) :=
  if !matchVal.isContainer then none
  else
    match style with
    | .flat =>
      let r := J.arr (sels.map (·.2))
      if truthyJ r then some (some r) else none
    | .relative =>
      match patchAll sels [] with
      | none => some none
      | some kvs => let r := fix (.node kvs); if truthyJ r then some (some r) else none
    | .root =>
      match patchAll (sels.map (fun (ps, v) => (matchParts ++ ps, v))) [] with
      | none => some none
      | some kvs => let r := fix (.node kvs); if truthyJ r then some (some r) else none

/-! ## Specification vocabulary -/

/-- follow parts through the intermediate object -/
def getPath : T → List Part → Option T
  | t, [] => some t
  | .node kvs, p :: rest => (getT kvs p).bind (getPath · rest)
  | .leaf _, _ :: _ => none

/-- the leaves of the intermediate object, in order -/
def leaves : T → List J
  | .leaf v => [v]
  | .node kvs => leavesL kvs
where
  leavesL : List (Part × T) → List J
    | [] => []
    | (_, t) :: rest => leaves t ++ leavesL rest

/-- position of a key among the keys of a dict (its rank, when indices were inserted in ascending order) -/
def keyPos : List (Part × T) → Part → Option Nat
  | [], _ => none
  | (q, _) :: rest, p => if q = p then some 0 else (keyPos rest p).map (· + 1)

/-- the location in the *fixed* value that corresponds to parts in the intermediate object: an array
    index is replaced by its position among the indices selected in that array -/
def rankPath : T → List Part → Option (List Part)
  | _, [] => some []
  | .node kvs, p :: rest =>
    match getT kvs p, keyPos kvs p with
    | some t, some n =>
      (rankPath t rest).map (fun r =>
        (match kvs with
         | (.idx _, _) :: _ => Part.idx n
         | _ => Part.key (Pointer.partStr p)) :: r)
    | _, _ => none
  | .leaf _, _ :: _ => none

/-- lookup in a JSON value by parts (`.idx n` on arrays, `.key k` on objects) -/
def lookupJ : J → List Part → Option J
  | v, [] => some v
  | .arr xs, .idx n :: rest => if 0 ≤ n then (xs[n.toNat]?).bind (lookupJ · rest) else none
  | .obj kvs, .key k :: rest => (dictGet kvs k).bind (lookupJ · rest)
  | _, _ => none

/-- no selected location is a prefix of (or equal to) another -/
def Disjoint (sels : List (List Part)) : Prop :=
  sels.Pairwise (fun a b => ¬ a <+: b ∧ ¬ b <+: a)

/-- homogeneous keys: a dict's keys are all indices or all names (a location never mixes them) -/
def homogeneous : T → Bool
  | .leaf _ => true
  | .node kvs => (kvs.all (fun kv => match kv.1 with | .idx _ => true | .key _ => false) ||
                  kvs.all (fun kv => match kv.1 with | .idx _ => false | .key _ => true)) && homL kvs
where
  homL : List (Part × T) → Bool
    | [] => true
    | (_, t) :: rest => homogeneous t && homL rest

end Projection
end JP
