/-
  JP.Projection — code-shaped model of `Query.select` (fluent_api.py): `_select`, `_patch_obj`,
  `_fix_sparse_arrays`.

  The intermediate object is a Python dict keyed by `int` (array index) or `str` (member name), in
  insertion order, whose values are again such dicts or *leaves* (copies of selected values).
  Navigating into a leaf (an earlier, wider selection) is the overlapping-selections case: `patch`
  (the disjoint fragment, kept for the theorems that assume disjoint selections) answers `none` there;
  `patchO` is the whole of `_patch_obj`: it walks on into the copied JSON value (`setJ`) and assigns
  there. `select` uses `patchO`; `patch_extends` (Lemmas) shows `patchO` agrees with `patch` wherever
  `patch` is defined.
-/
import JP.Pointer
namespace JP
namespace Projection

inductive T where
  | leaf (v : J)
  | node (kvs : List (Part × T))
  deriving Inhabited

/-- `d[k]` on the intermediate dict -/
def getT : List (Part × T) → Part → Option T
  | [], _ => none
  | (q, t) :: rest, p => if q = p then some t else getT rest p

/-- `d[k] = t`: an existing key keeps its position, a new key goes last -/
def setT : List (Part × T) → Part → T → List (Part × T)
  | [], p, t => [(p, t)]
  | (q, u) :: rest, p, t => if q = p then (p, t) :: rest else (q, u) :: setT rest p t

/-- `_patch_obj(parts, obj, value)` -/
def patch : List Part → List (Part × T) → J → Option (List (Part × T))
  | [], _, _ => none                                   -- `parts[-1]` on an empty tuple: IndexError
  | [p], kvs, v => some (setT kvs p (.leaf v))
  | p :: q :: rest, kvs, v =>
    match getT kvs p with
    | none => (patch (q :: rest) [] v).map (fun sub => setT kvs p (.node sub))
    | some (.node sub) => (patch (q :: rest) sub v).map (fun sub' => setT kvs p (.node sub'))
    | some (.leaf _) => none                            -- overlapping selections: outside the model

/-- `_obj = _obj[part]` for every part but the last, then `_obj[parts[-1]] = value`, inside a *copied JSON
    value* (a leaf written by an earlier, wider selection). Lists are indexed (no membership test, no `{}`
    put in), dicts must already have the member: a missing member would make `_patch_obj` put an empty
    intermediate dict into the copied value, which never happens for selections taken from one document
    (`setJ_same`) and is outside the model (`none`), as are negative indices (normalized paths have none),
    an index beyond the list (IndexError) and a part of the wrong kind (TypeError / KeyError). -/
def setJ : J → List Part → J → Option J
  | _, [], _ => none
  | .obj kvs, [.key k], v => some (.obj (dictSet kvs k v))
  | .arr xs, [.idx n], v => if 0 ≤ n ∧ n.toNat < xs.length then some (.arr (xs.set n.toNat v)) else none
  | .obj kvs, .key k :: q :: rest, v =>
    match dictGet kvs k with
    | some c => (setJ c (q :: rest) v).map (fun c' => .obj (dictSet kvs k c'))
    | none => none
  | .arr xs, .idx n :: q :: rest, v =>
    if 0 ≤ n then
      match xs[n.toNat]? with
      | some c => (setJ c (q :: rest) v).map (fun c' => .arr (xs.set n.toNat c'))
      | none => none
    else none
  | _, _, _ => none

/-- `_patch_obj(parts, obj, value)`, overlapping selections included -/
def patchO : List Part → List (Part × T) → J → Option (List (Part × T))
  | [], _, _ => none
  | [p], kvs, v => some (setT kvs p (.leaf v))
  | p :: q :: rest, kvs, v =>
    match getT kvs p with
    | none => (patchO (q :: rest) [] v).map (fun sub => setT kvs p (.node sub))
    | some (.node sub) => (patchO (q :: rest) sub v).map (fun sub' => setT kvs p (.node sub'))
    | some (.leaf w) => (setJ w (q :: rest) v).map (fun w' => setT kvs p (.leaf w'))

/-- `_fix_sparse_arrays` on a JSON value (a selected leaf): rebuilds lists and dicts, changes nothing -/
def fixJ : J → J
  | .arr xs => if xs.isEmpty then .arr xs else .arr (fixList xs)
  | .obj kvs => if kvs.isEmpty then .obj kvs else .obj (fixMembers kvs)
  | v => v
where
  fixList : List J → List J
    | [] => []
    | x :: xs => fixJ x :: fixList xs
  fixMembers : List (Str × J) → List (Str × J)
    | [] => []
    | (k, v) :: rest => (k, fixJ v) :: fixMembers rest

/-- `_fix_sparse_arrays` on the intermediate object: a dict whose first key is an `int` becomes the
    list of its values (insertion order), any other dict keeps its keys -/
def fix : T → J
  | .leaf v => fixJ v
  | .node [] => .obj []
  | .node ((p, t) :: rest) =>
    match p with
    | .idx _ => .arr (fix t :: fixVals rest)
    | .key _ => .obj ((Pointer.partStr p, fix t) :: fixMembers rest)
where
  fixVals : List (Part × T) → List J
    | [] => []
    | (_, t) :: rest => fix t :: fixVals rest
  fixMembers : List (Part × T) → List (Str × J)
    | [] => []
    | (p, t) :: rest => (Pointer.partStr p, fix t) :: fixMembers rest

/-- all selections patched into a fresh `{}`, in selection order -/
def patchAll : List (List Part × J) → List (Part × T) → Option (List (Part × T))
  | [], kvs => some kvs
  | (ps, v) :: rest, kvs => (patch ps kvs v).bind (patchAll rest)

def patchAllO : List (List Part × J) → List (Part × T) → Option (List (Part × T))
  | [], kvs => some kvs
  | (ps, v) :: rest, kvs => (patchO ps kvs v).bind (patchAllO rest)

/-- Python truthiness of a projection result (`filter(bool, …)`) -/
def truthyJ : J → Bool
  | .null => false
  | .bool b => b
  | .int i => i != 0
  | .flt m => m != 0
  | .str s => !s.isEmpty
  | .arr xs => !xs.isEmpty
  | .obj kvs => !kvs.isEmpty

inductive Style where
  | relative | flat | root
  deriving DecidableEq, Repr

/-- `Query._select(match, …)` given the selections (relative parts, value) found below the match:
    `none` = no projection for this match; `some none` = outside the model. -/
def select (style : Style) (matchParts : List Part) (matchVal : J) (sels : List (List Part × J)) :
    Option (Option J) :=
  if !matchVal.isContainer then none
  else
    match style with
    | .flat =>
      let r := J.arr (sels.map (·.2))
      if truthyJ r then some (some r) else none
    | .relative =>
      match patchAllO sels [] with
      | none => some none
      | some kvs => let r := fix (.node kvs); if truthyJ r then some (some r) else none
    | .root =>
      match patchAllO (sels.map (fun (ps, v) => (matchParts ++ ps, v))) [] with
      | none => some none
      | some kvs => let r := fix (.node kvs); if truthyJ r then some (some r) else none

/-! ## Specification vocabulary -/

/-- follow parts through the intermediate object -/
def getPath : T → List Part → Option T
  | t, [] => some t
  | .node kvs, p :: rest => (getT kvs p).bind (getPath · rest)
  | .leaf _, _ :: _ => none

/-- the leaves of the intermediate object, in order -/
def leaves : T → List J
  | .leaf v => [v]
  | .node kvs => leavesL kvs
where
  leavesL : List (Part × T) → List J
    | [] => []
    | (_, t) :: rest => leaves t ++ leavesL rest

/-- position of a key among the keys of a dict (its rank, when indices were inserted in ascending order) -/
def keyPos : List (Part × T) → Part → Option Nat
  | [], _ => none
  | (q, _) :: rest, p => if q = p then some 0 else (keyPos rest p).map (· + 1)

/-- the location in the *fixed* value that corresponds to parts in the intermediate object: an array
    index is replaced by its position among the indices selected in that array -/
def rankPath : T → List Part → Option (List Part)
  | _, [] => some []
  | .node kvs, p :: rest =>
    match getT kvs p, keyPos kvs p with
    | some t, some n =>
      (rankPath t rest).map (fun r =>
        (match kvs with
         | (.idx _, _) :: _ => Part.idx n
         | _ => Part.key (Pointer.partStr p)) :: r)
    | _, _ => none
  | .leaf _, _ :: _ => none

/-- lookup in a JSON value by parts (`.idx n` on arrays, `.key k` on objects) -/
def lookupJ : J → List Part → Option J
  | v, [] => some v
  | .arr xs, .idx n :: rest => if 0 ≤ n then (xs[n.toNat]?).bind (lookupJ · rest) else none
  | .obj kvs, .key k :: rest => (dictGet kvs k).bind (lookupJ · rest)
  | _, _ => none

/-- follow parts through the intermediate object and on into a copied value: what is found at a location
    that lies at or below a leaf (`none` when the location ends on an intermediate dict) -/
def getDeep : T → List Part → Option J
  | .leaf v, ps => lookupJ v ps
  | .node _, [] => none
  | .node kvs, p :: rest => (getT kvs p).bind (getDeep · rest)

/-- the part that replaces `p` in the fixed value: its position `n` among the keys when the level is an
    array (first key an index), its name otherwise -/
def rankHead (kvs : List (Part × T)) (p : Part) (n : Nat) : Part :=
  match kvs with
  | (.idx _, _) :: _ => Part.idx n
  | _ => Part.key (Pointer.partStr p)

/-- `rankPath` continued into a copied value, where nothing is compacted -/
def rankDeep : T → List Part → Option (List Part)
  | .leaf _, ps => some ps
  | .node _, [] => some []
  | .node kvs, p :: rest =>
    (getT kvs p).bind fun t => (keyPos kvs p).bind fun n => (rankDeep t rest).map (rankHead kvs p n :: ·)

/-- the intermediate object is a pruning of the value `w`: every leaf holds the value `w` has at the leaf's
    location, every dict level sits where `w` has a container with those members / elements -/
def Sub : T → J → Prop
  | .leaf v, w => v = w
  | .node kvs, w => SubL kvs w
where
  SubL : List (Part × T) → J → Prop
    | [], _ => True
    | (p, t) :: rest, w => (∃ c, lookupJ w [p] = some c ∧ Sub t c) ∧ SubL rest w

/-- no selected location is a prefix of (or equal to) another -/
def Disjoint (sels : List (List Part)) : Prop :=
  sels.Pairwise (fun a b => ¬ a <+: b ∧ ¬ b <+: a)

/-- homogeneous keys: a dict's keys are all indices or all names (a location never mixes them) -/
def homogeneous : T → Bool
  | .leaf _ => true
  | .node kvs => (kvs.all (fun kv => match kv.1 with | .idx _ => true | .key _ => false) ||
                  kvs.all (fun kv => match kv.1 with | .idx _ => false | .key _ => true)) && homL kvs
where
  homL : List (Part × T) → Bool
    | [] => true
    | (_, t) :: rest => homogeneous t && homL rest

end Projection
end JP
