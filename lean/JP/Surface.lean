/-
  JP.Surface — the surface syntax of compiled queries at the *token* level:

  * `Tok` — the token kinds of `jsonpath/token.py` that the parser consumes (string tokens carry
    their decoded value, number tokens their value: lexing and literal decoding are tied to
    `lex.py` by the correspondence run, not modelled here);
  * `ptoks*` — the token sequence of the serializer's output (`__str__` of `JSONPath`, the
    selectors, `BooleanExpression._canonical_string`, `InfixExpression`/`PrefixExpression.__str__`,
    literals, functions), i.e. what `tokenize(str(query))` yields;
  * `parse*` — a model of the parser (`parse.py`: `parse_path`, `parse_selector_list`,
    `parse_slice`, `parse_filter`, the Pratt loop `parse_filter_selector` / `parse_infix_expression`,
    `parse_prefix_expression`, `parse_grouped_expression`, `parse_function_extension`,
    `parse_list_literal`) in functional style (input list in, remaining list out), parametrised
    by the precedence table the translator regenerates from `Parser.PRECEDENCES`;
  * `str*` — the serializer at the character level, for comparing the printed text itself.
-/
import JP.Query
import JP.Generated.Tables
namespace JP
namespace Surface
open Query

inductive Tok where
  | root | fakeRoot | self | key | ctx | keys
  | wild | filter | lbracket | rbracket | comma | lparen | rparen | ddot
  | op (o : CmpOp)          -- EQ NE LG LE GE RE LT GT AND OR IN CONTAINS
  | not
  | true_ | false_ | nil | undefined
  | prop (s : Str)          -- `.name`
  | bare (s : Str)          -- bare name
  | str (s : Str)           -- quoted string (either quote style), decoded
  | int (i : Int) | flt (m : Int)
  | slice (a b c : Option Int)   -- SLICE_START, SLICE_STOP, SLICE_STEP as one unit
  | re (pattern flags : Str)     -- RE_PATTERN followed by RE_FLAGS
  | func (name : Str)            -- `name(`
  deriving Repr, DecidableEq, Inhabited

/-- precedence levels (`Parser.PRECEDENCE_*`) per operator, as a function -/
structure Prec where
  lowest : Nat
  prefix_ : Nat
  ofOp : CmpOp → Nat

def tokenNameOfOp : CmpOp → String
  | .eq => "TOKEN_EQ" | .ne => "TOKEN_NE" | .lt => "TOKEN_LT" | .gt => "TOKEN_GT" | .le => "TOKEN_LE" | .ge => "TOKEN_GE"
  | .lg => "TOKEN_LG" | .and => "TOKEN_AND" | .or => "TOKEN_OR" | .in_ => "TOKEN_IN" | .contains => "TOKEN_CONTAINS"
  | .re => "TOKEN_RE"

/-- the precedence table as the source declares it -/
def precOfGenerated (consts : List (String × Nat)) (tbl : List (String × Nat)) : Prec :=
  let lowest := (consts.lookup "PRECEDENCE_LOWEST").getD 1
  { lowest := lowest
    prefix_ := (consts.lookup "PRECEDENCE_PREFIX").getD 7
    ofOp := fun o => (tbl.lookup (tokenNameOfOp o)).getD lowest }

/-! ## The serializer, as tokens -/

def isLogical (op : CmpOp) : Bool := op == .and || op == .or

mutual
  /-- `str(expr)` (the class `__str__` methods) -/
  def ptoksE : Expr → List Tok
    | .nil => [.nil]
    | .undefined => [.undefined]
    | .bool b => [if b then .true_ else .false_]
    | .int i => [.int i]
    | .flt m => [.flt m]
    | .str s => [.str s]
    | .regex p f => [.re p f]
    | .list items => [.lbracket] ++ ptoksArgs items ++ [.rbracket]
    | .not e =>
      match e with
      | .infix l op r =>
        if isLogical op then .not :: ptoksE (.infix l op r)          -- logical: `__str__` parenthesises itself
        else .not :: .lparen :: ptoksE (.infix l op r) ++ [.rparen]    -- comparison: parenthesised by the prefix
      | e => .not :: ptoksE e
    | .infix l op r =>
      if isLogical op then [.lparen] ++ ptoksE l ++ [.op op] ++ ptoksE r ++ [.rparen]
      else ptoksOperand l ++ [.op op] ++ ptoksOperand r
    | .self q => .self :: ptoksSegs q
    | .root q fake => (if fake then .fakeRoot else .root) :: ptoksSegs q
    | .ctx q => .ctx :: ptoksSegs q
    | .func name args => [.func name] ++ ptoksArgs args ++ [.rparen]
    | .key => [.key]

  /-- `InfixExpression._operand`: a comparison used as an operand of a comparison keeps its grouping -/
  def ptoksOperand : Expr → List Tok
    | .infix l op r =>
      if isLogical op then ptoksE (.infix l op r)
      else [.lparen] ++ ptoksE (.infix l op r) ++ [.rparen]
    | e => ptoksE e

  def ptoksArgs : List Expr → List Tok
    | [] => []
    | [e] => ptoksE e
    | e :: es => ptoksE e ++ [.comma] ++ ptoksArgs es

  /-- `BooleanExpression._canonical_string(expr, parent_precedence)`; precedence constants of filter.py:
      LOWEST 1, LOGICAL_OR 3, LOGICAL_AND 4, PREFIX 7 -/
  def ptoksCanon (parent : Nat) : Expr → List Tok
    | .infix l .and r =>
      let inner := ptoksCanon 4 l ++ [.op .and] ++ ptoksCanon 4 r
      if parent ≥ 4 then [.lparen] ++ inner ++ [.rparen] else inner
    | .infix l .or r =>
      let inner := ptoksCanon 3 l ++ [.op .or] ++ ptoksCanon 3 r
      if parent ≥ 3 then [.lparen] ++ inner ++ [.rparen] else inner
    | .not e =>
      let operand := ptoksCanon 7 e
      let operand := match e with
        | .infix _ op _ => if isLogical op then operand else [.lparen] ++ operand ++ [.rparen]
        | _ => operand
      let inner := .not :: operand
      if parent > 7 then [.lparen] ++ inner ++ [.rparen] else inner
    | e => ptoksE e

  def ptoksSel : Sel → List Tok
    | .name s => [.str s]
    | .index i => [.int i]
    | .slice a b c => [.slice a b (some (c.getD 1))]       -- `SliceSelector.__str__` prints step 1 for None
    | .wild => [.wild]
    | .keys => [.keys]
    | .filter e => .filter :: ptoksCanon 1 e

  def ptoksSels : List Sel → List Tok
    | [] => []
    | [s] => ptoksSel s
    | s :: ss => ptoksSel s ++ [.comma] ++ ptoksSels ss

  def ptoksSegs : List Seg → List Tok
    | [] => []
    | .child sels :: rest => [.lbracket] ++ ptoksSels sels ++ [.rbracket] ++ ptoksSegs rest
    | .desc :: rest => .ddot :: ptoksSegs rest
end

def ptoksPath (p : Path) : List Tok := (if p.fake then Tok.fakeRoot else Tok.root) :: ptoksSegs p.segs

/-! ## The parser -/

def opOfTok : Tok → Option CmpOp
  | .op o => some o
  | _ => none

inductive PErr where
  | syntax | fuel
  deriving Repr, DecidableEq

abbrev P (α : Type) := Except PErr α

def literalOfTok : Tok → Option Expr
  | .true_ => some (.bool true)
  | .false_ => some (.bool false)
  | .nil => some .nil
  | .str s => some (.str s)
  | .int i => some (.int i)
  | .flt m => some (.flt m)
  | _ => none

mutual
  /-- `parse_path(stream, in_filter=…)`: segments until a token that does not start one -/
  def parsePath (pr : Prec) : Nat → List Tok → P (List Seg × List Tok)
    | 0, _ => .error .fuel
    | fuel + 1, toks =>
      match toks with
      | .prop s :: rest => do
        let (segs, rest') ← parsePath pr fuel rest
        pure (.child [.name s] :: segs, rest')
      | .bare s :: rest => do
        let (segs, rest') ← parsePath pr fuel rest
        pure (.child [.name s] :: segs, rest')
      | .slice a b c :: rest => do
        let (segs, rest') ← parsePath pr fuel rest
        pure (.child [.slice a b c] :: segs, rest')
      | .wild :: rest => do
        let (segs, rest') ← parsePath pr fuel rest
        pure (.child [.wild] :: segs, rest')
      | .keys :: rest => do
        let (segs, rest') ← parsePath pr fuel rest
        pure (.child [.keys] :: segs, rest')
      | .ddot :: rest => do
        let (segs, rest') ← parsePath pr fuel rest
        pure (.desc :: segs, rest')
      | .lbracket :: rest => do
        let (sels, rest') ← parseSelList pr fuel rest
        let (segs, rest'') ← parsePath pr fuel rest'
        pure (.child sels :: segs, rest'')
      | _ => pure ([], toks)

  /-- `parse_selector_list`: after `[`, up to and including `]`; at least one item, no trailing comma -/
  def parseSelList (pr : Prec) : Nat → List Tok → P (List Sel × List Tok)
    | 0, _ => .error .fuel
    | fuel + 1, toks => do
      let (s, rest) ← parseSelItem pr fuel toks
      match rest with
      | .rbracket :: rest' => pure ([s], rest')
      | .comma :: rest' =>
        match rest' with
        | .rbracket :: _ => .error .syntax          -- trailing comma
        | _ => do
          let (ss, rest'') ← parseSelList pr fuel rest'
          pure (s :: ss, rest'')
      | _ => .error .syntax

  def parseSelItem (pr : Prec) : Nat → List Tok → P (Sel × List Tok)
    | 0, _ => .error .fuel
    | fuel + 1, toks =>
      match toks with
      | .int i :: rest => pure (.index i, rest)
      | .bare s :: rest => pure (.name s, rest)
      | .keys :: rest => pure (.keys, rest)
      | .str s :: rest => pure (.name s, rest)
      | .slice a b c :: rest => pure (.slice a b c, rest)
      | .wild :: rest => pure (.wild, rest)
      | .filter :: rest => do
        let (e, rest') ← parseExpr pr fuel pr.lowest rest
        pure (.filter e, rest')
      | _ => .error .syntax

  /-- `parse_filter_selector(stream, precedence)`: prefix parse, then the Pratt loop -/
  def parseExpr (pr : Prec) : Nat → Nat → List Tok → P (Expr × List Tok)
    | 0, _, _ => .error .fuel
    | fuel + 1, prec, toks => do
      let (left, rest) ← parsePrefix pr fuel toks
      parseLoop pr fuel prec left rest

  /-- the `while True:` loop of `parse_filter_selector` -/
  def parseLoop (pr : Prec) : Nat → Nat → Expr → List Tok → P (Expr × List Tok)
    | 0, _, _, _ => .error .fuel
    | fuel + 1, prec, left, toks =>
      match toks with
      | [] => pure (left, [])
      | .rbracket :: _ => pure (left, toks)
      | t :: rest =>
        match opOfTok t with
        | none => pure (left, toks)                       -- not a binary operator: return left
        | some o =>
          if pr.ofOp o < prec then pure (left, toks)      -- binds less tightly than the context: break
          else do
            -- parse_infix_expression: the right operand is parsed at the operator's own precedence
            let (right, rest') ← parseExpr pr fuel (pr.ofOp o) rest
            parseLoop pr fuel prec (.infix left o right) rest'

  /-- `token_map[kind](stream)` -/
  def parsePrefix (pr : Prec) : Nat → List Tok → P (Expr × List Tok)
    | 0, _ => .error .fuel
    | fuel + 1, toks =>
      match toks with
      | .true_ :: rest => pure (.bool true, rest)
      | .false_ :: rest => pure (.bool false, rest)
      | .nil :: rest => pure (.nil, rest)
      | .undefined :: rest => pure (.undefined, rest)
      | .str s :: rest => pure (.str s, rest)
      | .int i :: rest => pure (.int i, rest)
      | .flt m :: rest => pure (.flt m, rest)
      | .re p f :: rest => pure (.regex p f, rest)
      | .key :: rest => pure (.key, rest)
      | .not :: rest => do
        -- parse_prefix_expression: operand parsed at PRECEDENCE_PREFIX
        let (e, rest') ← parseExpr pr fuel pr.prefix_ rest
        pure (.not e, rest')
      | .lparen :: rest => do
        -- parse_grouped_expression
        let (e, rest') ← parseExpr pr fuel pr.lowest rest
        match rest' with
        | .rparen :: rest'' => pure (e, rest'')
        | _ => .error .syntax
      | .lbracket :: rest => do
        let (items, rest') ← parseListItems pr fuel rest
        pure (.list items, rest')
      | .self :: rest => do
        let (segs, rest') ← parsePath pr fuel rest
        pure (.self segs, rest')
      | .root :: rest => do
        let (segs, rest') ← parsePath pr fuel rest
        pure (.root segs false, rest')
      | .fakeRoot :: rest => do
        let (segs, rest') ← parsePath pr fuel rest
        pure (.root segs true, rest')
      | .ctx :: rest => do
        let (segs, rest') ← parsePath pr fuel rest
        pure (.ctx segs, rest')
      | .func name :: rest => do
        let (args, rest') ← parseArgs pr fuel rest
        pure (.func name args, rest')
      | _ => .error .syntax

  /-- `parse_list_literal`: literal items separated by commas, up to and including `]` -/
  def parseListItems (pr : Prec) : Nat → List Tok → P (List Expr × List Tok)
    | 0, _ => .error .fuel
    | fuel + 1, toks =>
      match toks with
      | .rbracket :: rest => pure ([], rest)
      | t :: rest =>
        match literalOfTok t with
        | none => .error .syntax
        | some e =>
          match rest with
          | .rbracket :: rest' => pure ([e], rest')
          | .comma :: rest' => do
            let (es, rest'') ← parseListItems pr fuel rest'
            pure (e :: es, rest'')
          | _ => .error .syntax
      | [] => .error .syntax

  /-- `parse_function_extension`: arguments separated by commas, up to and including `)` -/
  def parseArgs (pr : Prec) : Nat → List Tok → P (List Expr × List Tok)
    | 0, _ => .error .fuel
    | fuel + 1, toks =>
      match toks with
      | .rparen :: rest => pure ([], rest)
      | _ => do
        let (e, rest) ← parseArg pr fuel toks
        match rest with
        | .rparen :: rest' => pure ([e], rest')
        | .comma :: rest' => do
          let (es, rest'') ← parseArgs pr fuel rest'
          pure (e :: es, rest'')
        | _ => .error .syntax

  /-- one function argument: `function_argument_map[kind](stream)` followed by any infix operators -/
  def parseArg (pr : Prec) : Nat → List Tok → P (Expr × List Tok)
    | 0, _ => .error .fuel
    | fuel + 1, toks =>
      match toks with
      | .not :: _ | .lparen :: _ | .lbracket :: _ | .undefined :: _ | .re _ _ :: _ => .error .syntax
      | _ => do
        let (left, rest) ← parsePrefix pr fuel toks
        parseArgLoop pr fuel left rest

  def parseArgLoop (pr : Prec) : Nat → Expr → List Tok → P (Expr × List Tok)
    | 0, _, _ => .error .fuel
    | fuel + 1, left, toks =>
      match toks with
      | t :: rest =>
        match opOfTok t with
        | some o => do
          let (right, rest') ← parseExpr pr fuel (pr.ofOp o) rest
          parseArgLoop pr fuel (.infix left o right) rest'
        | none => pure (left, toks)
      | [] => pure (left, toks)
end

/-- `Parser.parse` for one path: optional root identifier, segments, then end of input -/
def parseQuery (pr : Prec) (toks : List Tok) : P Path :=
  let fuel := 4 * toks.length + 8
  match toks with
  | .root :: rest =>
    match parsePath pr fuel rest with
    | .ok (segs, []) => .ok ⟨segs, false⟩
    | .ok _ => .error .syntax
    | .error e => .error e
  | .fakeRoot :: rest =>
    match parsePath pr fuel rest with
    | .ok (segs, []) => .ok ⟨segs, true⟩
    | .ok _ => .error .syntax
    | .error e => .error e
  | _ =>
    match parsePath pr fuel toks with
    | .ok (segs, []) => .ok ⟨segs, false⟩
    | .ok _ => .error .syntax
    | .error e => .error e

/-! ## Normal form: what printing then parsing does to an AST -/

mutual
  /-- the only thing the round trip changes: an omitted slice step is printed as the step 1 -/
  def normE : Expr → Expr
    | .list items => .list (normEs items)
    | .not e => .not (normE e)
    | .infix l op r => .infix (normE l) op (normE r)
    | .self q => .self (normSegs q)
    | .root q f => .root (normSegs q) f
    | .ctx q => .ctx (normSegs q)
    | .func name args => .func name (normEs args)
    | e => e
  def normEs : List Expr → List Expr
    | [] => []
    | e :: es => normE e :: normEs es
  def normSel : Sel → Sel
    | .slice a b c => .slice a b (some (c.getD 1))
    | .filter e => .filter (normE e)
    | s => s
  def normSels : List Sel → List Sel
    | [] => []
    | s :: ss => normSel s :: normSels ss
  def normSegs : List Seg → List Seg
    | [] => []
    | .child sels :: rest => .child (normSels sels) :: normSegs rest
    | .desc :: rest => .desc :: normSegs rest
end

mutual
  /-- ASTs the default environment's parser produces: list literals hold literals; function arguments
      are literals, queries, the current key or function calls; no empty bracketed selection -/
  def parsedE : Expr → Bool
    | .list items => items.all (fun e => (literalOfExpr e)) && parsedEs items
    | .not e => parsedE e
    | .infix l _ r => parsedE l && parsedE r
    | .self q | .root q _ | .ctx q => parsedSegs q
    | .func _ args => args.all argShape && parsedEs args
    | _ => true
  def parsedEs : List Expr → Bool
    | [] => true
    | e :: es => parsedE e && parsedEs es
  def parsedSel : Sel → Bool
    | .filter e => parsedE e
    | _ => true
  def parsedSels : List Sel → Bool
    | [] => true
    | s :: ss => parsedSel s && parsedSels ss
  def parsedSegs : List Seg → Bool
    | [] => true
    | .child sels :: rest => !sels.isEmpty && parsedSels sels && parsedSegs rest
    | .desc :: rest => parsedSegs rest
  def literalOfExpr : Expr → Bool
    | .nil | .bool _ | .int _ | .flt _ | .str _ => true
    | _ => false
  def argShape : Expr → Bool
    | .nil | .bool _ | .int _ | .flt _ | .str _ | .key => true
    | .self _ | .root _ _ | .ctx _ | .func _ _ => true
    | _ => false
end

/-! ## Side conditions on the translated tables -/

def allOps : List CmpOp := [.eq, .ne, .lt, .gt, .le, .ge, .lg, .and, .or, .in_, .contains, .re]

/-- What the round-trip proof needs of the parser's precedence table: `||` binds less tightly than
    `&&`, which binds less tightly than every comparison / membership / match operator, and the prefix
    operator binds more tightly than every binary operator; nothing is below the lowest level. -/
def precOK (pr : Prec) : Bool :=
  decide (pr.lowest ≤ pr.ofOp .or) && decide (pr.ofOp .or < pr.ofOp .and) &&
  allOps.all (fun o => isLogical o || decide (pr.ofOp .and < pr.ofOp o)) &&
  allOps.all (fun o => decide (pr.ofOp o < pr.prefix_)) &&
  allOps.all (fun o => decide (pr.lowest ≤ pr.ofOp o))

/-- the serializer's own precedence constants (filter.py) are the ones `ptoksCanon` hard-codes -/
def serializerConstsOK (consts : List (String × Nat)) : Bool :=
  consts.lookup "PRECEDENCE_LOWEST" == some 1 && consts.lookup "PRECEDENCE_LOGICAL_OR" == some 3 &&
  consts.lookup "PRECEDENCE_LOGICAL_AND" == some 4 && consts.lookup "PRECEDENCE_PREFIX" == some 7

/-- the operator spellings of the parser table are the ones the model's `CmpOp` stands for -/
def binaryOperatorsOK (tbl : List (String × String)) : Bool :=
  tbl.lookup "TOKEN_AND" == some "&&" && tbl.lookup "TOKEN_OR" == some "||" && tbl.lookup "TOKEN_EQ" == some "==" &&
  tbl.lookup "TOKEN_NE" == some "!=" && tbl.lookup "TOKEN_LT" == some "<" && tbl.lookup "TOKEN_GT" == some ">" &&
  tbl.lookup "TOKEN_LE" == some "<=" && tbl.lookup "TOKEN_GE" == some ">=" && tbl.lookup "TOKEN_LG" == some "<>" &&
  tbl.lookup "TOKEN_IN" == some "in" && tbl.lookup "TOKEN_CONTAINS" == some "contains" && tbl.lookup "TOKEN_RE" == some "=~" &&
  tbl.length == 12

end Surface
end JP
