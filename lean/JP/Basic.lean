/-
  JP.Basic — shared foundations of the model: JSON values, error classes, the Python
  primitives the library leans on (decimal conversion, list indexing with negative wrap,
  list.insert clamping, dict get/set/del on insertion-ordered association lists,
  str.split / str.replace on single characters).

  Model files import core Lean only (no Mathlib) so that the driver links.
-/
namespace JP

/-- Model strings are lists of Unicode scalar values (no lone surrogates). -/
abbrev Str := List Char

/-- JSON-shaped Python values. `int i` is a Python `int`, `flt m` is the Python `float`
    `m / 8` (every such value of moderate size is exact in binary floating point).
    Objects keep member order (Python `dict`). -/
inductive J where
  | null : J
  | bool (b : Bool) : J
  | int (i : Int) : J
  | flt (m : Int) : J
  | str (s : Str) : J
  | arr (xs : List J) : J
  | obj (kvs : List (Str × J)) : J
  deriving Repr, Inhabited, BEq

/-- Built-in exception kinds that the library must never leak. -/
inductive PyExc where
  | valueError | typeError | keyError | indexError | overflowError | reError
  | unicodeError | attributeError | recursionError | assertionError
  deriving Repr, DecidableEq, Inhabited

/-- Exception classes. Everything except `builtin` is a documented error family member. -/
inductive Err where
  | pathSyntax | pathType | pathIndex | pathName | pathRecursion
  | ptr            -- JSONPointerError (base class: malformed pointer text)
  | ptrIndex | ptrKey | ptrType            -- JSONPointerResolutionError subclasses
  | relIndex | relSyntax                    -- RelativeJSONPointerError subclasses
  | patch | patchTest                       -- JSONPatchError, JSONPatchTestFailure
  | builtin (e : PyExc)
  deriving Repr, DecidableEq, Inhabited

abbrev Res (α : Type) := Except Err α

def Err.isPointerResolution : Err → Bool
  | .ptrIndex | .ptrKey | .ptrType => true
  | _ => false

def Err.isPointerFamily : Err → Bool
  | .ptr | .ptrIndex | .ptrKey | .ptrType => true
  | _ => false

def Err.isRelFamily : Err → Bool
  | .relIndex | .relSyntax => true
  | _ => false

def Err.isPatchFamily : Err → Bool
  | .patch | .patchTest => true
  | _ => false

def Err.isPathFamily : Err → Bool
  | .pathSyntax | .pathType | .pathIndex | .pathName | .pathRecursion => true
  | _ => false

def Err.isBuiltin : Err → Bool
  | .builtin _ => true
  | _ => false

def Err.name : Err → String
  | .pathSyntax => "JSONPathSyntaxError" | .pathType => "JSONPathTypeError"
  | .pathIndex => "JSONPathIndexError" | .pathName => "JSONPathNameError"
  | .pathRecursion => "JSONPathRecursionError"
  | .ptr => "JSONPointerError" | .ptrIndex => "JSONPointerIndexError"
  | .ptrKey => "JSONPointerKeyError" | .ptrType => "JSONPointerTypeError"
  | .relIndex => "RelativeJSONPointerIndexError" | .relSyntax => "RelativeJSONPointerSyntaxError"
  | .patch => "JSONPatchError" | .patchTest => "JSONPatchTestFailure"
  | .builtin .valueError => "ValueError" | .builtin .typeError => "TypeError"
  | .builtin .keyError => "KeyError" | .builtin .indexError => "IndexError"
  | .builtin .overflowError => "OverflowError" | .builtin .reError => "error"
  | .builtin .unicodeError => "UnicodeDecodeError" | .builtin .attributeError => "AttributeError"
  | .builtin .recursionError => "RecursionError" | .builtin .assertionError => "AssertionError"

/-! ## Decimal text -/

/-- `str(n)` for a non-negative Python int. -/
def natStr (n : Nat) : Str := Nat.toDigits 10 n

/-- `str(i)` for a Python int. -/
def intStr : Int → Str
  | .ofNat n => natStr n
  | .negSucc n => '-' :: natStr (n + 1)

def isAsciiDigit (c : Char) : Bool := c.isDigit

/-- Canonical decimal: `0` or `[1-9][0-9]*`. -/
def isCanonNat : Str → Bool
  | [] => false
  | ['0'] => true
  | c :: cs => c != '0' && isAsciiDigit c && cs.all isAsciiDigit

/-- Value of a string of ASCII digits. -/
def digitsVal (s : Str) : Nat := Nat.ofDigitChars 10 s 0

/-- `[0-9]+` -/
def isDigits (s : Str) : Bool := !s.isEmpty && s.all isAsciiDigit

/-- The pattern `RE_INDEX_TOKEN = (?:0|-?[1-9][0-9]*)` of `pointer.py`, with the value
    `int()` gives the matched text. -/
def parseIndexToken : Str → Option Int
  | '-' :: cs => if isCanonNat cs && cs != ['0'] then some (- (digitsVal cs : Int)) else none
  | cs => if isCanonNat cs then some (digitsVal cs : Int) else none

/-! ## Python `str` helpers on single-character separators -/

/-- `s.split(sep)` for a one-character separator: always at least one piece. -/
def splitOn (sep : Char) : Str → List Str
  | [] => [[]]
  | c :: cs =>
    if c = sep then [] :: splitOn sep cs
    else match splitOn sep cs with
      | [] => [[c]]          -- unreachable: `splitOn` never returns `[]`
      | p :: ps => (c :: p) :: ps

/-- `sep.join(parts)` for a one-character separator. -/
def joinWith (sep : Char) : List Str → Str
  | [] => []
  | [p] => p
  | p :: ps => p ++ sep :: joinWith sep ps

/-- `s.replace(c, r)` for a one-character pattern. -/
def replaceChar (c : Char) (r : Str) (s : Str) : Str :=
  s.flatMap (fun x => if x = c then r else [x])

/-- `s.replace(a+b, r)` for a two-character pattern and a one-character replacement
    (left to right, non-overlapping — Python's `str.replace`), as a scanner whose flag
    says "the previous character was `a` and has not been emitted yet". -/
def replace2Aux (a b r : Char) : Bool → Str → Str
  | false, [] => []
  | true, [] => [a]
  | false, x :: rest =>
    if x = a then replace2Aux a b r true rest else x :: replace2Aux a b r false rest
  | true, x :: rest =>
    if x = b then r :: replace2Aux a b r false rest
    else if x = a then a :: replace2Aux a b r true rest
    else a :: x :: replace2Aux a b r false rest

def replace2 (a b r : Char) (s : Str) : Str := replace2Aux a b r false s

/-- `str.isspace` for one character (the code points Python strips with `lstrip()`). -/
def isPyBlank (c : Char) : Bool :=
  let n := c.toNat
  (9 ≤ n && n ≤ 13) || (28 ≤ n && n ≤ 32) || n = 0x85 || n = 0xa0 || n = 0x1680
  || (0x2000 ≤ n && n ≤ 0x200a) || n = 0x2028 || n = 0x2029 || n = 0x202f || n = 0x205f
  || n = 0x3000

/-- `s.lstrip()` -/
def lstrip : Str → Str
  | [] => []
  | c :: cs => if isPyBlank c then lstrip cs else c :: cs

/-- `s.strip()` -/
def strip (s : Str) : Str := (lstrip (lstrip s).reverse).reverse

/-! ## Python containers -/

/-- `xs[i]` for a Python list: negative indices wrap once; out of range is `none` (IndexError). -/
def pyListGet {α} (xs : List α) (i : Int) : Option α :=
  if 0 ≤ i then xs[i.toNat]? else
  if -(xs.length : Int) ≤ i then xs[(xs.length + i).toNat]? else none

/-- Normalised position of a Python index (for `del xs[i]`, `xs[i] = v`), when in range. -/
def pyIndexPos (len : Nat) (i : Int) : Option Nat :=
  if 0 ≤ i then (if i.toNat < len then some i.toNat else none)
  else if -(len : Int) ≤ i then some (len + i).toNat else none

/-- `xs.insert(i, v)`: Python clamps the position into `0..len`. -/
def pyListInsert {α} (xs : List α) (i : Int) (v : α) : List α :=
  let pos : Nat :=
    if 0 ≤ i then min i.toNat xs.length
    else if -(xs.length : Int) ≤ i then (xs.length + i).toNat else 0
  xs.take pos ++ v :: xs.drop pos

/-- `d[k]` -/
def dictGet {α} (kvs : List (Str × α)) (k : Str) : Option α :=
  match kvs with
  | [] => none
  | (k', v) :: rest => if k' = k then some v else dictGet rest k

/-- `d[k] = v`: an existing key keeps its position, a new key goes last. -/
def dictSet {α} (kvs : List (Str × α)) (k : Str) (v : α) : List (Str × α) :=
  match kvs with
  | [] => [(k, v)]
  | (k', v') :: rest => if k' = k then (k, v) :: rest else (k', v') :: dictSet rest k v

/-- `del d[k]` (the first and, in a well-formed object, only occurrence). -/
def dictErase {α} (kvs : List (Str × α)) (k : Str) : List (Str × α) :=
  match kvs with
  | [] => []
  | (k', v') :: rest => if k' = k then rest else (k', v') :: dictErase rest k

def dictHas {α} (kvs : List (Str × α)) (k : Str) : Bool := (dictGet kvs k).isSome

/-! ## JSON value helpers -/

def J.isContainer : J → Bool
  | .arr _ | .obj _ => true
  | _ => false

/-- No duplicate member names at any depth (what `json.loads` produces). -/
def J.wf : J → Bool
  | .arr xs => wfList xs
  | .obj kvs => noDupKeys (kvs.map (·.1)) && wfMembers kvs
  | _ => true
where
  wfList : List J → Bool
    | [] => true
    | x :: xs => x.wf && wfList xs
  wfMembers : List (Str × J) → Bool
    | [] => true
    | (_, v) :: rest => v.wf && wfMembers rest
  noDupKeys : List Str → Bool
    | [] => true
    | k :: ks => !ks.contains k && noDupKeys ks

/-- RFC 8259 value equality as used by RFC 6902 `test` and RFC 9535 `==`:
    numbers by value, booleans never equal numbers, arrays element-wise in order,
    objects as unordered maps with equal sizes. (For well-formed objects.) -/
def J.eqv : J → J → Bool
  | .null, .null => true
  | .bool a, .bool b => a == b
  | .int a, .int b => a == b
  | .int a, .flt b => 8 * a == b
  | .flt a, .int b => a == 8 * b
  | .flt a, .flt b => a == b
  | .str a, .str b => a == b
  | .arr xs, .arr ys => eqvList xs ys
  | .obj xs, .obj ys => xs.length == ys.length && eqvMembers xs ys
  | _, _ => false
where
  eqvList : List J → List J → Bool
    | [], [] => true
    | x :: xs, y :: ys => x.eqv y && eqvList xs ys
    | _, _ => false
  /-- every member of the left object has an equal member of the same name on the right -/
  eqvMembers : List (Str × J) → List (Str × J) → Bool
    | [], _ => true
    | (k, v) :: rest, ys =>
      (match dictGet ys k with
       | some v' => v.eqv v'
       | none => false) && eqvMembers rest ys

end JP
