/-
  JP.Query — code-shaped model of JSONPath evaluation:
  `selectors.py` (every `resolve`), `path.py` (`JSONPath._resolve`, `finditer`), `filter.py`
  (every `evaluate`), `env.py` (`compare`, `_eq`, `_eq_values`, `_lt`, `_contains`, `is_truthy`)
  and the five standard function extensions.

  The AST is the *compiled* query as the implementation builds it (the harness dumps it from the
  real parser's output); shorthand flags and token positions, which do not affect evaluation, are
  dropped: a top-level shorthand selector is the one-item bracketed list.
-/
import JP.Pointer
namespace JP

/-- Abstract regular-expression engine (Python `re`): `none` = `re.error`. -/
structure Rx where
  /-- `re.fullmatch(pattern, subject)` with flags -/
  fullmatch : Str → Str → Str → Option Bool
  /-- `re.search(pattern, subject)` -/
  search : Str → Str → Option Bool

inductive CmpOp where
  | eq | ne | lt | gt | le | ge | lg      -- == != < > <= >= <>
  | and | or
  | in_ | contains | re                    -- in, contains, =~
  deriving Repr, DecidableEq, Inhabited

mutual
  inductive Expr where
    | nil
    | undefined
    | bool (b : Bool)
    | int (i : Int)
    | flt (m : Int)
    | str (s : Str)
    | regex (pattern : Str) (flags : Str)
    | list (items : List Expr)
    | not (e : Expr)
    | infix (l : Expr) (op : CmpOp) (r : Expr)
    | self (q : List Seg)
    | root (q : List Seg) (fake : Bool)
    | ctx (q : List Seg)
    | func (name : Str) (args : List Expr)
    | key
  inductive Sel where
    | name (s : Str)
    | index (i : Int)
    | slice (start stop step : Option Int)
    | wild
    | keys
    | filter (e : Expr)
  inductive Seg where
    | child (sels : List Sel)
    | desc                      -- RecursiveDescentSelector ("..")
end

/-- A JSONPath: its segments and whether it starts at the fake root. -/
structure Path where
  segs : List Seg
  fake : Bool := false

/-- A compound query: `p0 (| or &) p1 …` -/
structure Compound where
  first : Path
  rest : List (Bool × Path)    -- `true` = union, `false` = intersection

/-- A match: location parts, path string, value. -/
structure Node where
  parts : List Part
  path : Str
  val : J
  deriving Repr, Inhabited, BEq

/-- Values that filter expressions evaluate to (Python objects). -/
inductive V where
  | nodes (ns : List Node)        -- NodeList
  | val (j : J)                    -- JSON-like Python value (incl. bool results, list literals)
  | undef                          -- UNDEFINED
  | rx (pattern flags : Str)       -- compiled regular expression
  deriving Repr, Inhabited

namespace Query

/-! ## serialize.canonical_string -/

def hexDigit (n : Nat) : Char := if n < 10 then Char.ofNat (48 + n) else Char.ofNat (87 + n)

/-- `json.dumps(s, ensure_ascii=False)[1:-1]` -/
def jsonEscape : Str → Str
  | [] => []
  | c :: cs =>
    (if c = '"' then ['\\', '"']
     else if c = '\\' then ['\\', '\\']
     else if c = '\n' then ['\\', 'n']
     else if c = '\r' then ['\\', 'r']
     else if c = '\t' then ['\\', 't']
     else if c = '\x08' then ['\\', 'b']
     else if c = '\x0c' then ['\\', 'f']
     else if c.toNat < 0x20 then ['\\', 'u', '0', '0', hexDigit (c.toNat / 16), hexDigit (c.toNat % 16)]
     else [c]) ++ jsonEscape cs

/-- `canonical_string(value)`: single-quoted, canonical escapes. -/
def canonicalString (s : Str) : Str :=
  '\'' :: (replaceChar '\'' ['\\', '\''] (replace2 '\\' '"' '"' (jsonEscape s))) ++ ['\'']

/-! ## Python comparison primitives on JSON-like values -/

/-- Python `==` on JSON-like values (`True == 1`, `1 == 1.0`, deep, dicts unordered). -/
def pyEq : J → J → Bool
  | .null, .null => true
  | .bool a, .bool b => a == b
  | .bool a, .int b => (if a then 1 else 0) == b
  | .int a, .bool b => a == (if b then 1 else 0)
  | .bool a, .flt b => (if a then 8 else 0) == b
  | .flt a, .bool b => a == (if b then 8 else 0)
  | .int a, .int b => a == b
  | .int a, .flt b => 8 * a == b
  | .flt a, .int b => a == 8 * b
  | .flt a, .flt b => a == b
  | .str a, .str b => a == b
  | .arr xs, .arr ys => pyEqList xs ys
  | .obj xs, .obj ys => xs.length == ys.length && pyEqMembers xs ys
  | _, _ => false
where
  pyEqList : List J → List J → Bool
    | [], [] => true
    | x :: xs, y :: ys => pyEq x y && pyEqList xs ys
    | _, _ => false
  pyEqMembers : List (Str × J) → List (Str × J) → Bool
    | [], _ => true
    | (k, v) :: rest, ys =>
      (match dictGet ys k with
       | some v' => pyEq v v'
       | none => false) && pyEqMembers rest ys

/-- value of a JSON number scaled by 8, if it is a number (bool excluded) -/
def num8 : J → Option Int
  | .int i => some (8 * i)
  | .flt m => some m
  | _ => none

/-- Python `str < str`: lexicographic by code point. -/
def strLt : Str → Str → Bool
  | [], [] => false
  | [], _ :: _ => true
  | _ :: _, [] => false
  | a :: as, b :: bs => if a.toNat < b.toNat then true else if a.toNat > b.toNat then false else strLt as bs

/-- `s in t` for Python strings (substring). -/
def isInfix (s : Str) : Str → Bool
  | [] => s.isEmpty
  | c :: cs => s.isPrefixOf (c :: cs) || isInfix s cs

/-- `JSONPathEnvironment.is_truthy` -/
def isTruthy : V → Bool
  | .nodes ns => !ns.isEmpty
  | .undef => false
  | .rx _ _ => true
  | .val .null => true
  | .val (.bool b) => b
  | .val (.int i) => i != 0
  | .val (.flt m) => m != 0
  | .val (.str s) => !s.isEmpty
  | .val (.arr xs) => !xs.isEmpty
  | .val (.obj kvs) => !kvs.isEmpty

/-- `JSONPathEnvironment._eq` (after `InfixExpression.evaluate` unwrapped single-node lists). -/
def eqV (l r : V) : Bool :=
  -- if isinstance(right, NodeList): left, right = right, left
  let (l, r) := match r with
    | .nodes _ => (r, l)
    | _ => (l, r)
  match l with
  | .nodes ls =>
    match r with
    | .nodes rs => ls.isEmpty && rs.isEmpty    -- list equality of match objects: only [] == []
    | .undef => ls.isEmpty                      -- left.empty() and right is UNDEFINED
    | _ => false                                -- a match object never equals a value
  | .undef =>
    match r with
    | .undef => true
    | _ => false
  | .val a =>
    match r with
    | .val b => a.eqv b
    | _ => false
  | .rx p f =>
    match r with
    | .rx p' f' => p == p' && f == f'
    | _ => false

/-- `JSONPathEnvironment._lt` -/
def ltV (l r : V) : Bool :=
  match l, r with
  | .val (.str a), .val (.str b) => strLt a b
  | .val a, .val b =>
    match num8 a, num8 b with
    | some x, some y => x < y
    | _, _ => false
  | _, _ => false

/-- `self._eq_values(item, elem)` where `item` is any filter value and `elem` an element of a JSON array: the
    equality `==` uses (booleans are not numbers, deep); a node list - nothing, or several nodes - is not a value
    and `_contains` answers `False` for it before looking at the container. -/
def eqVJ (item : V) (elem : J) : Bool :=
  match item with
  | .val a => a.eqv elem
  | _ => false

/-- `JSONPathEnvironment._contains(container, item)`; `none` when `container` is neither a
    Mapping nor a Sequence (the caller then returns False). -/
def containsV (container item : V) : Option Bool :=
  match container with
  | .val (.str s) =>
    match item with
    | .val (.str t) => some (isInfix t s)
    | _ => some false
  | .val (.arr xs) => some (xs.any (eqVJ item))
  | .val (.obj kvs) =>
    match item with
    | .val (.str k) => some (dictHas kvs k)
    | _ => some false          -- other hashables are never keys; unhashables raise TypeError → False
  | .nodes _ => some false     -- a NodeList of match objects never contains a value
  | _ => none

/-- `JSONPathEnvironment.compare` -/
def compare (rx : Rx) (l : V) (op : CmpOp) (r : V) : Bool :=
  match op with
  | .and => isTruthy l && isTruthy r
  | .or => isTruthy l || isTruthy r
  | .eq => eqV l r
  | .ne => !eqV l r
  | .lg => !eqV l r
  | .lt => ltV l r
  | .gt => ltV r l
  | .ge => ltV r l || eqV l r
  | .le => ltV l r || eqV l r
  | .in_ => (containsV r l).getD false
  | .contains => (containsV l r).getD false
  | .re =>
    match r, l with
    | .rx p f, .val (.str s) => (rx.fullmatch p f s).getD false
    | _, _ => false

/-! ## Function extensions -/

/-- `FunctionExtension._unpack_node_lists` for a parameter that is not of NodesType. -/
def unpackValue : V → V
  | .nodes [] => .undef
  | .nodes [n] => .val n.val
  | v => v

def fnLength : V → V
  | .val (.str s) => .val (.int s.length)
  | .val (.arr xs) => .val (.int xs.length)
  | .val (.obj kvs) => .val (.int kvs.length)
  | .nodes ns => .val (.int ns.length)
  | _ => .undef

def fnCount : V → V
  | .nodes ns => .val (.int ns.length)
  | .val (.str s) => .val (.int s.length)
  | .val (.arr xs) => .val (.int xs.length)
  | .val (.obj kvs) => .val (.int kvs.length)
  | _ => .undef     -- `len()` of a non-sized object: TypeError (not reachable when well-typed)

def fnValue : V → V
  | .nodes [n] => .val n.val
  | _ => .undef

def fnMatch (rx : Rx) (full : Bool) (s p : V) : V :=
  match s, p with
  | .val (.str s), .val (.str p) =>
    .val (.bool ((if full then rx.fullmatch p [] s else rx.search p s).getD false))
  | _, _ => .val (.bool false)

/-- the JSON name of a value's type, as `typeof` / `type` report it (`single_number_type=True`) -/
def typeName : J → Str
  | .null => "null".toList
  | .bool _ => "boolean".toList
  | .int _ | .flt _ => "number".toList
  | .str _ => "string".toList
  | .arr _ => "array".toList
  | .obj _ => "object".toList

/-- `NodeList.values_or_singular()` on the nodes' values: the one node's value, or the list of the values -/
def valuesOrSingular (vs : List J) : J :=
  match vs with
  | [v] => v
  | _ => .arr vs

/-- `TypeOf.__call__` on the values of the node list: "undefined" for a query that selects nothing -/
def typeofVals (vs : List J) : Str :=
  if vs.isEmpty then "undefined".toList else typeName (valuesOrSingular vs)

/-- `TypeOf.__call__(nodes)` (typeof.py). The argument is nodes-typed: anything but a node list is refused at compile
    time (`.undef` here: not reachable when well-typed). -/
def fnTypeof : V → V
  | .nodes ns => .val (.str (typeofVals (ns.map (·.val))))
  | _ => .undef

/-- the names `isinstance` / `is` accept for a value's type (is_instance.py) -/
def typeAliases : J → List Str
  | .null => ["null".toList, "nil".toList, "None".toList, "none".toList]
  | .str _ => ["str".toList, "string".toList]
  | .arr _ => ["array".toList, "list".toList, "sequence".toList, "tuple".toList]
  | .obj _ => ["object".toList, "dict".toList, "mapping".toList]
  | .bool _ => ["bool".toList, "boolean".toList]
  | .int _ => ["number".toList, "int".toList]
  | .flt _ => ["number".toList, "float".toList]

/-- the type names that fit the values of a node list -/
def aliasesOfVals (vs : List J) : List Str :=
  if vs.isEmpty then ["undefined".toList, "missing".toList] else typeAliases (valuesOrSingular vs)

/-- `IsInstance.__call__(nodes, t)`: `t` is value-typed (a string names a type; anything else names none). -/
def fnIsInstance : V → V → V
  | .nodes ns, t =>
    match t with
    | .val (.str s) => .val (.bool ((aliasesOfVals (ns.map (·.val))).contains s))
    | _ => .val (.bool false)
  | _, _ => .undef

/-- `FunctionExtension.evaluate` after the arguments have been evaluated: the registered function applied to the
    (unpacked) arguments; an unknown name, or a wrong number of arguments, is `UNDEFINED` (refused at compile time) -/
def applyFn (rx : Rx) (name : Str) (vs : List V) : V :=
  if name = "length".toList then
    match vs with
    | [a] => fnLength (unpackValue a)
    | _ => .undef
  else if name = "count".toList then
    match vs with
    | [a] => fnCount a
    | _ => .undef
  else if name = "value".toList then
    match vs with
    | [a] => fnValue a
    | _ => .undef
  else if name = "match".toList then
    match vs with
    | [a, b] => fnMatch rx true (unpackValue a) (unpackValue b)
    | _ => .undef
  else if name = "search".toList then
    match vs with
    | [a, b] => fnMatch rx false (unpackValue a) (unpackValue b)
    | _ => .undef
  else if name = "typeof".toList ∨ name = "type".toList then
    match vs with
    | [a] => fnTypeof a
    | _ => .undef
  else if name = "isinstance".toList ∨ name = "is".toList then
    match vs with
    | [a, b] => fnIsInstance a (unpackValue b)
    | _ => .undef
  else .undef

/-! ## Selectors -/

structure Env where
  rx : Rx
  root : J
  extra : J           -- the caller-supplied filter context (a mapping)
  rootTok : Str := ['$']
  keysTok : Str := ['~']

/-- `IndexSelector._normalized_index` -/
def normIndex (i : Int) (len : Nat) : Int :=
  if i < 0 ∧ (len : Int) ≥ -i then len + i else i

/-- `slice(start, stop, step).indices(len)` for a non-zero step (CPython `PySlice_AdjustIndices`). -/
def sliceIndices (start stop : Option Int) (step : Int) (len : Nat) : Int × Int :=
  let n : Int := len
  if step > 0 then
    let s := match start with
      | none => 0
      | some s => if s < 0 then max (s + n) 0 else min s n
    let e := match stop with
      | none => n
      | some e => if e < 0 then max (e + n) 0 else min e n
    (s, e)
  else
    let s := match start with
      | none => n - 1
      | some s => if s < 0 then max (s + n) (-1) else min s (n - 1)
    let e := match stop with
      | none => -1
      | some e => if e < 0 then max (e + n) (-1) else min e (n - 1)
    (s, e)

/-- `range(start, stop, step)` (step ≠ 0), as a list; `fuel` bounds the length. -/
def pyRange (start stop step : Int) : List Int :=
  let count : Nat :=
    if step > 0 then (if start < stop then ((stop - start + step - 1) / step).toNat else 0)
    else if step < 0 then (if start > stop then ((start - stop - step - 1) / (-step)).toNat else 0)
    else 0
  (List.range count).map (fun (k : Nat) => start + step * (k : Int))

def childNode (n : Node) (p : Part) (pathSuffix : Str) (v : J) : Node :=
  ⟨n.parts ++ [p], n.path ++ pathSuffix, v⟩

def bracket (s : Str) : Str := '[' :: s ++ [']']

/-- `RecursiveDescentSelector._expand`: container children, pre-order. -/
def expand (n : Node) : List Node :=
  go n.parts n.path n.val
where
  go (parts : List Part) (path : Str) : J → List Node
    | .obj kvs => goMembers parts path kvs
    | .arr xs => goElems parts path 0 xs
    | _ => []
  goMembers (parts : List Part) (path : Str) : List (Str × J) → List Node
    | [] => []
    | (k, v) :: rest =>
      (if v.isContainer then
        let c : Node := ⟨parts ++ [.key k], path ++ bracket (canonicalString k), v⟩
        c :: go c.parts c.path v
       else []) ++ goMembers parts path rest
  goElems (parts : List Part) (path : Str) (i : Nat) : List J → List Node
    | [] => []
    | v :: rest =>
      (if v.isContainer then
        let c : Node := ⟨parts ++ [.idx i], path ++ bracket (natStr i), v⟩
        c :: go c.parts c.path v
       else []) ++ goElems parts path (i + 1) rest

def enumFrom {α} (i : Nat) : List α → List (Nat × α)
  | [] => []
  | x :: xs => (i, x) :: enumFrom (i + 1) xs

mutual
  /-- `FilterExpression.evaluate` -/
  def evalExpr (env : Env) (cur : J) (curKey : Option Part) : Expr → V
    | .nil => .val .null
    | .undefined => .undef
    | .bool b => .val (.bool b)
    | .int i => .val (.int i)
    | .flt m => .val (.flt m)
    | .str s => .val (.str s)
    | .regex p f => .rx p f
    | .list items => .val (.arr (evalLits env cur curKey items))
    | .not e => .val (.bool (!isTruthy (evalExpr env cur curKey e)))
    | .infix l op r =>
      let lv := evalExpr env cur curKey l
      let rv := evalExpr env cur curKey r
      let logical := op == .and || op == .or
      let unwrap : V → V := fun v =>
        if logical then v else
        match v with
        | .nodes [n] => .val n.val
        | v => v
      .val (.bool (compare env.rx (unwrap lv) op (unwrap rv)))
    | .self q => .nodes (evalSegs env q [⟨[], env.rootTok, cur⟩])
    | .root q fake =>
      .nodes (evalSegs env q [⟨[], env.rootTok, if fake then .arr [env.root] else env.root⟩])
    | .ctx q => .nodes (evalSegs env q [⟨[], env.rootTok, env.extra⟩])
    | .func name args =>
      applyFn env.rx name (evalArgs env cur curKey args)
    | .key =>
      match curKey with
      | none => .undef
      | some (.idx i) => .val (.int i)
      | some (.key k) => .val (.str k)

  /-- items of a `ListLiteral` (literals only), as Python values -/
  def evalLits (env : Env) (cur : J) (curKey : Option Part) : List Expr → List J
    | [] => []
    | e :: es =>
      (match evalExpr env cur curKey e with
       | .val j => j
       | _ => .null) :: evalLits env cur curKey es

  def evalArgs (env : Env) (cur : J) (curKey : Option Part) : List Expr → List V
    | [] => []
    | e :: es => evalExpr env cur curKey e :: evalArgs env cur curKey es

  /-- `<selector>.resolve([node])` -/
  def evalSel (env : Env) (n : Node) : Sel → List Node
    | .name k =>
      match n.val with
      | .obj kvs =>
        match dictGet kvs k with
        | some v => [childNode n (.key k) (bracket (canonicalString k)) v]
        | none => []
      | _ => []
    | .index i =>
      match n.val with
      | .obj kvs =>
        match dictGet kvs (intStr i) with
        | some v => [childNode n (.key (intStr i)) (bracket ('\'' :: intStr i ++ ['\''])) v]
        | none => []
      | .arr xs =>
        match pyListGet xs i with
        | some v =>
          let ni := normIndex i xs.length
          [childNode n (.idx ni) (bracket (intStr ni)) v]
        | none => []
      | _ => []
    | .slice start stop step =>
      match n.val with
      | .arr xs =>
        let st := step.getD 1
        if st = 0 then []
        else
          let (s, e) := sliceIndices start stop st xs.length
          (pyRange s e st).filterMap (fun i =>
            match pyListGet xs i with
            | some v => some (childNode n (.idx i) (bracket (intStr i)) v)
            | none => none)
      | _ => []
    | .wild =>
      match n.val with
      | .obj kvs => kvs.map (fun (k, v) => childNode n (.key k) (bracket (canonicalString k)) v)
      | .arr xs => (enumFrom 0 xs).map (fun (i, v) => childNode n (.idx i) (bracket (natStr i)) v)
      | _ => []
    | .keys =>
      match n.val with
      | .obj kvs =>
        (enumFrom 0 kvs).map (fun (i, (k, _)) =>
          childNode n (.key (env.keysTok ++ k)) (bracket env.keysTok ++ bracket (natStr i)) (.str k))
      | _ => []
    | .filter e =>
      match n.val with
      | .obj kvs =>
        kvs.filterMap (fun (k, v) =>
          if isTruthy (evalExpr env v (some (.key k)) e)
          then some (childNode n (.key k) (bracket (canonicalString k)) v) else none)
      | .arr xs =>
        (enumFrom 0 xs).filterMap (fun (i, v) =>
          if isTruthy (evalExpr env v (some (.idx i)) e)
          then some (childNode n (.idx i) (bracket (natStr i)) v) else none)
      | _ => []

  /-- `ListSelector.resolve([node])`: every item applied to the node, in order -/
  def evalSels (env : Env) (n : Node) : List Sel → List Node
    | [] => []
    | s :: ss => evalSel env n s ++ evalSels env n ss

  /-- the selectors of a `JSONPath` folded over the node list -/
  def evalSegs (env : Env) : List Seg → List Node → List Node
    | [], ns => ns
    | .child sels :: rest, ns => evalSegs env rest (ns.flatMap (fun n => evalSels env n sels))
    | .desc :: rest, ns => evalSegs env rest (ns.flatMap (fun n => n :: expand n))
end

/-- `JSONPath.finditer(doc, filter_context=extra)` -/
def finditer (rx : Rx) (p : Path) (doc extra : J) : List Node :=
  let env : Env := { rx := rx, root := doc, extra := extra }
  evalSegs env p.segs [⟨[], env.rootTok, if p.fake then .arr [doc] else doc⟩]

/-- `JSONPath.findall` -/
def findall (rx : Rx) (p : Path) (doc extra : J) : List J := (finditer rx p doc extra).map (·.val)

/-! ## Compound queries (`CompoundJSONPath`) -/

/-- `self._found(obj, _objs)`: some value of the right result equals `obj` with the equality of `==` in a filter
    (`_eq_values`: booleans are not numbers, deep) -/
def inObjs (v : J) (objs : List J) : Bool := objs.any (fun o => v.eqv o)

/-- `CompoundJSONPath.finditer`: `itertools.chain` for union; `_intersection(matches, objs)` for
    intersection, where `objs` is bound when the helper is called (once per operand). -/
def compoundFinditer (rx : Rx) (c : Compound) (doc extra : J) : List Node :=
  c.rest.foldl (fun acc (isUnion, p) =>
      let more := finditer rx p doc extra
      if isUnion then acc ++ more
      else
        let objs := more.map (·.val)
        acc.filter (fun m => inObjs m.val objs))
    (finditer rx c.first doc extra)

/-- `CompoundJSONPath.findall`: the list-based twin (`extend` / list comprehension). -/
def compoundFindall (rx : Rx) (c : Compound) (doc extra : J) : List J :=
  c.rest.foldl (fun objs (isUnion, p) =>
      let more := findall rx p doc extra
      if isUnion then objs ++ more
      else objs.filter (fun o => inObjs o more))
    (findall rx c.first doc extra)

/-- The pre-repair `finditer`: every intersection filter was a generator expression whose free
    variable `_objs` was looked up when the generator was consumed, i.e. after the loop had finished:
    all filters saw the objects of the *last* intersection operand. Kept as a counter-model. -/
def compoundFinditerLateBound (rx : Rx) (c : Compound) (doc extra : J) : List Node :=
  let lastObjs : List J :=
    match (c.rest.filter (fun (u, _) => !u)).getLast? with
    | some (_, p) => findall rx p doc extra
    | none => []
  c.rest.foldl (fun acc (isUnion, p) =>
      if isUnion then acc ++ finditer rx p doc extra
      else acc.filter (fun m => inObjs m.val lastObjs))
    (finditer rx c.first doc extra)

end Query
end JP
