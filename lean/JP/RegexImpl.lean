/-
  JP.RegexImpl — the concrete regular-expression engine the *driver* plugs into the abstract
  `Rx` parameter of the model. It covers the dialect on which Python `re` and I-Regexp agree
  and to which the generators restrict themselves: literals, `.`, character classes with
  ranges and negation, `* + ?`, alternation, groups, backslash-escaped punctuation, and the
  flags `i` (ASCII case-insensitive) and `s` (dot matches newline).
  Not part of any theorem (every theorem quantifies over all `Rx`).
-/
import JP.Query
namespace JP.RegexImpl

inductive Re where
  | eps
  | chr (c : Char)
  | any
  | cls (neg : Bool) (ranges : List (Char × Char))
  | seq (a b : Re)
  | alt (a b : Re)
  | star (r : Re)
  | plus (r : Re)
  | opt (r : Re)
  deriving Repr, Inhabited

def isMeta (c : Char) : Bool := "\\.[]()*+?|{}^$".toList.contains c

mutual
  /-- alt := seq ('|' seq)* -/
  partial def parseAlt (s : Str) : Option (Re × Str) := do
    let (a, rest) ← parseSeq s
    match rest with
    | '|' :: rest' =>
      let (b, rest'') ← parseAlt rest'
      pure (.alt a b, rest'')
    | _ => pure (a, rest)

  partial def parseSeq (s : Str) : Option (Re × Str) :=
    match s with
    | [] => some (.eps, [])
    | '|' :: _ => some (.eps, s)
    | ')' :: _ => some (.eps, s)
    | _ => do
      let (a, rest) ← parseAtomQ s
      let (b, rest') ← parseSeq rest
      pure (.seq a b, rest')

  partial def parseAtomQ (s : Str) : Option (Re × Str) := do
    let (a, rest) ← parseAtom s
    match rest with
    | '*' :: r => pure (.star a, r)
    | '+' :: r => pure (.plus a, r)
    | '?' :: r => pure (.opt a, r)
    | _ => pure (a, rest)

  partial def parseAtom (s : Str) : Option (Re × Str) :=
    match s with
    | '(' :: rest => do
      let (a, rest') ← parseAlt rest
      match rest' with
      | ')' :: r => pure (a, r)
      | _ => none
    | '[' :: '^' :: rest => do
      let (rs, r) ← parseClass rest []
      pure (.cls true rs, r)
    | '[' :: rest => do
      let (rs, r) ← parseClass rest []
      pure (.cls false rs, r)
    | '.' :: rest => some (.any, rest)
    | '\\' :: c :: rest => if isMeta c || c = '/' || c = '-' then some (.chr c, rest) else none
    | c :: rest => if isMeta c then none else some (.chr c, rest)
    | [] => none

  partial def parseClass (s : Str) (acc : List (Char × Char)) : Option (List (Char × Char) × Str) :=
    match s with
    | ']' :: rest => if acc.isEmpty then none else some (acc.reverse, rest)
    | '\\' :: c :: rest => if isMeta c || c = '-' || c = '/' then parseClass rest ((c, c) :: acc) else none
    | a :: '-' :: b :: rest =>
      if b = ']' then parseClass (b :: rest) (('-', '-') :: (a, a) :: acc)
      else if a.toNat ≤ b.toNat ∧ b ≠ '\\' then parseClass rest ((a, b) :: acc) else none
    | c :: rest => if c = '[' then none else parseClass rest ((c, c) :: acc)
    | [] => none
end

def parse (p : Str) : Option Re :=
  match parseAlt p with
  | some (r, []) => some r
  | _ => none

def lower (c : Char) : Char := if 'A' ≤ c ∧ c ≤ 'Z' then Char.ofNat (c.toNat + 32) else c

partial def m (ci dotall : Bool) : Re → Str → (Str → Bool) → Bool
  | .eps, s, k => k s
  | .chr c, s, k =>
    match s with
    | x :: rest => (if ci then lower x == lower c else x == c) && k rest
    | [] => false
  | .any, s, k =>
    match s with
    | x :: rest => (dotall || x != '\n') && k rest
    | [] => false
  | .cls neg rs, s, k =>
    match s with
    | x :: rest =>
      let hit := rs.any (fun (a, b) =>
        (a.toNat ≤ x.toNat && x.toNat ≤ b.toNat) ||
        (ci && ((a.toNat ≤ (lower x).toNat && (lower x).toNat ≤ b.toNat) ||
                (('a' ≤ x ∧ x ≤ 'z') && a.toNat ≤ x.toNat - 32 && x.toNat - 32 ≤ b.toNat))))
      (hit != neg) && k rest
    | [] => false
  | .seq a b, s, k => m ci dotall a s (fun s' => m ci dotall b s' k)
  | .alt a b, s, k => m ci dotall a s k || m ci dotall b s k
  | .star r, s, k => m ci dotall r s (fun s' => s'.length < s.length && m ci dotall (.star r) s' k) || k s
  | .plus r, s, k => m ci dotall r s (fun s' => m ci dotall (.star r) s' k)
  | .opt r, s, k => m ci dotall r s k || k s

def fullmatch (p flags s : Str) : Option Bool :=
  (parse p).map (fun r => m (flags.contains 'i') (flags.contains 's') r s (fun rest => rest.isEmpty))

def suffixes : Str → List Str
  | [] => [[]]
  | c :: cs => (c :: cs) :: suffixes cs

def search (p s : Str) : Option Bool :=
  (parse p).map (fun r => (suffixes s).any (fun t => m false false r t (fun _ => true)))

def rx : Rx := ⟨fullmatch, search⟩

end JP.RegexImpl
