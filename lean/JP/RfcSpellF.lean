/-
  JP.RfcSpellF — RFC 9535 sections 2.1–2.5: the spellings of a query *with filter selectors*, as a grammar
  (mutually inductive relations between a piece of the abstract query and a text), written from the ABNF:

    selector            =/ filter-selector
    filter-selector     = "?" S logical-expr
    logical-expr        = logical-or-expr
    logical-or-expr     = logical-and-expr *(S "||" S logical-and-expr)
    logical-and-expr    = basic-expr *(S "&&" S basic-expr)
    basic-expr          = paren-expr / comparison-expr / test-expr
    paren-expr          = [logical-not-op S] "(" S logical-expr S ")"
    test-expr           = [logical-not-op S] (filter-query / function-expr)
    filter-query        = rel-query / jsonpath-query          ; "@" segments / "$" segments
    comparison-expr     = comparable S comparison-op S comparable
    comparable          = literal / singular-query / function-expr
    literal             = number / string-literal / true / false / null
    function-expr       = function-name "(" S [function-argument *(S "," S function-argument)] S ")"
    function-argument   = literal / filter-query / logical-expr / function-expr

  The abstract syntax is `Query.Expr` as the library's parser builds it: `||` and `&&` chains associate
  to the RIGHT (the Pratt loop parses the right operand at the operator's own precedence and breaks only on a
  strictly weaker operator; semantically immaterial, both operators are associative), parentheses leave no
  trace, `!` is `.not`. Segments are as in `JP.RfcSpell` plus the filter
  selector. (A singular query is spelled like any other query here: singularity is a typing matter, C07.)
-/
import JP.RfcSpell
namespace JP
namespace RfcSpellF
open Query Lex RfcSpell

/-- `int [frac] [exp]` with `int = "0" / ["-"] DIGIT1 *DIGIT` or `-0`: the text of a number literal -/
def isRfcNumber (w : Str) : Bool :=
  let (sg, r0) := optSign w
  let (d, r1) := r0.span Char.isDigit
  let intOK := !d.isEmpty && (d == ['0'] || d.head? != some '0') && (sg.isEmpty || sg == ['-'])
  match r1 with
  | [] => intOK
  | '.' :: r2 =>
    let (f, r3) := r2.span Char.isDigit
    intOK && !f.isEmpty && (r3.isEmpty || ((optExp r3).1 == r3 && !r3.isEmpty))
  | _ => intOK && ((optExp r1).1 == r1)

/-- the lexer classifies a number text as a float when it has a fraction or a negative exponent -/
def isFloatText (w : Str) : Bool :=
  w.contains '.' || (w.dropWhile (fun c => c == '-' || c.isDigit)).contains '-'

/-- a number literal and the expression it denotes: an integer when it has neither a fraction nor a negative
    exponent (`int()` / `int(float())`), a float otherwise (`float()`), both computed exactly -/
inductive NumSpell : Expr → Str → Prop
  | int (w : Str) (i : Int) (hw : isRfcNumber w = true) (hk : isFloatText w = false) (hv : intLiteral w = .ok i) : NumSpell (.int i) w
  | flt (w : Str) (m : Int) (hw : isRfcNumber w = true) (hk : isFloatText w = true) (hv : fltLiteral w = .ok m) : NumSpell (.flt m) w

/-- `literal` -/
inductive LitSpell : Expr → Str → Prop
  | num (e : Expr) (w : Str) (h : NumSpell e w) : LitSpell e w
  | strSQ (s w : Str) (h : Spells '\'' s w) : LitSpell (.str s) ('\'' :: w ++ ['\''])
  | strDQ (s w : Str) (h : Spells '"' s w) : LitSpell (.str s) ('"' :: w ++ ['"'])
  | true_ : LitSpell (.bool true) "true".toList
  | false_ : LitSpell (.bool false) "false".toList
  | null : LitSpell .nil "null".toList

/-- `comparison-op` -/
def cmpOpText : CmpOp → Option Str
  | .eq => some "==".toList | .ne => some "!=".toList | .lt => some "<".toList | .le => some "<=".toList
  | .gt => some ">".toList | .ge => some ">=".toList | _ => none

/-- `[logical-not-op S]` applied to an expression -/
inductive NotPrefix : Expr → Expr → Str → Prop
  | none (e : Expr) : NotPrefix e e []
  | some (e : Expr) (s : Str) (h : isS s = true) : NotPrefix e (.not e) ('!' :: s)

mutual
  /-- `logical-or-expr`: a right-associated chain of `||` -/
  inductive OrSpell : Expr → Str → Prop
    | one (e : Expr) (w : Str) (h : AndSpell e w) : OrSpell e w
    | more (l r : Expr) (wl wr s1 s2 : Str) (hl : AndSpell l wl) (hr : OrSpell r wr) (h1 : isS s1 = true) (h2 : isS s2 = true) :
        OrSpell (.infix l .or r) (wl ++ s1 ++ '|' :: '|' :: s2 ++ wr)

  /-- `logical-and-expr`: a right-associated chain of `&&` -/
  inductive AndSpell : Expr → Str → Prop
    | one (e : Expr) (w : Str) (h : BasicSpell e w) : AndSpell e w
    | more (l r : Expr) (wl wr s1 s2 : Str) (hl : BasicSpell l wl) (hr : AndSpell r wr) (h1 : isS s1 = true) (h2 : isS s2 = true) :
        AndSpell (.infix l .and r) (wl ++ s1 ++ '&' :: '&' :: s2 ++ wr)

  /-- `basic-expr` -/
  inductive BasicSpell : Expr → Str → Prop
    | paren (e e' : Expr) (n w s1 s2 : Str) (hn : NotPrefix e e' n) (h : OrSpell e w) (h1 : isS s1 = true) (h2 : isS s2 = true) :
        BasicSpell e' (n ++ '(' :: s1 ++ w ++ s2 ++ [')'])
    | test (e e' : Expr) (n w : Str) (hn : NotPrefix e e' n) (h : TestSpell e w) : BasicSpell e' (n ++ w)
    | cmp (l r : Expr) (op : CmpOp) (o wl wr s1 s2 : Str) (ho : cmpOpText op = some o) (hl : ComparableSpell l wl) (hr : ComparableSpell r wr)
        (h1 : isS s1 = true) (h2 : isS s2 = true) : BasicSpell (.infix l op r) (wl ++ s1 ++ o ++ s2 ++ wr)

  /-- `filter-query / function-expr` (the operand of a test) -/
  inductive TestSpell : Expr → Str → Prop
    | rel (q : List Seg) (w : Str) (h : FSegsSpell q w) : TestSpell (.self q) ('@' :: w)
    | abs (q : List Seg) (w : Str) (h : FSegsSpell q w) : TestSpell (.root q false) ('$' :: w)
    | func (e : Expr) (w : Str) (h : FuncSpell e w) : TestSpell e w

  /-- `comparable` -/
  inductive ComparableSpell : Expr → Str → Prop
    | lit (e : Expr) (w : Str) (h : LitSpell e w) : ComparableSpell e w
    | rel (q : List Seg) (w : Str) (h : FSegsSpell q w) : ComparableSpell (.self q) ('@' :: w)
    | abs (q : List Seg) (w : Str) (h : FSegsSpell q w) : ComparableSpell (.root q false) ('$' :: w)
    | func (e : Expr) (w : Str) (h : FuncSpell e w) : ComparableSpell e w

  /-- `function-expr` -/
  inductive FuncSpell : Expr → Str → Prop
    | call (name : Str) (args : List Expr) (w s1 s2 : Str) (hn : funcNameOK name = true) (ha : ArgsSpell args w)
        (h1 : isS s1 = true) (h2 : isS s2 = true) :
        FuncSpell (.func name args) (name ++ '(' :: s1 ++ w ++ s2 ++ [')'])

  /-- `[function-argument *(S "," S function-argument)]` -/
  inductive ArgsSpell : List Expr → Str → Prop
    | nil : ArgsSpell [] []
    | one (e : Expr) (w : Str) (h : ArgSpell e w) : ArgsSpell [e] w
    | cons (e : Expr) (w : Str) (h : ArgSpell e w) (e2 : Expr) (es : List Expr) (ws s1 s2 : Str) (h1 : isS s1 = true) (h2 : isS s2 = true)
        (rest : ArgsSpell (e2 :: es) ws) : ArgsSpell (e :: e2 :: es) (w ++ s1 ++ ',' :: s2 ++ ws)

  /-- `function-argument = literal / filter-query / logical-expr / function-expr`.
      An argument that begins with `!` or `(` is of logical type; none of the five standard functions has a
      logical-typed parameter, so such a call is ill-typed (C07), and the library refuses it already while
      parsing (`function_argument_map` has no entry for `!` / `(`): those spellings are left out here. -/
  inductive ArgSpell : Expr → Str → Prop
    | lit (e : Expr) (w : Str) (h : LitSpell e w) : ArgSpell e w
    | logical (e : Expr) (w : Str) (h : OrSpell e w) (hh : w.head? ≠ some '!' ∧ w.head? ≠ some '(') : ArgSpell e w

  /-- `selector` with the filter selector -/
  inductive FSelSpell : Sel → Str → Prop
    | plain (s : Sel) (w : Str) (h : SelSpell s w) : FSelSpell s w
    | filter (e : Expr) (w s : Str) (h : OrSpell e w) (hs : isS s = true) : FSelSpell (.filter e) ('?' :: s ++ w)

  /-- `selector *(S "," S selector)` -/
  inductive FSelsSpell : List Sel → Str → Prop
    | one (s : Sel) (w : Str) (h : FSelSpell s w) : FSelsSpell [s] w
    | cons (s : Sel) (w : Str) (h : FSelSpell s w) (ss : List Sel) (ws s1 s2 : Str) (h1 : isS s1 = true) (h2 : isS s2 = true)
        (rest : FSelsSpell ss ws) : FSelsSpell (s :: ss) (w ++ s1 ++ ',' :: s2 ++ ws)

  /-- what may follow `.` or `..` -/
  inductive FAfterDots : Seg → Str → Prop
    | bracket (sels : List Sel) (w s1 s2 : Str) (h : FSelsSpell sels w) (h1 : isS s1 = true) (h2 : isS s2 = true) :
        FAfterDots (.child sels) ('[' :: s1 ++ w ++ s2 ++ [']'])
    | wild : FAfterDots (.child [.wild]) ['*']
    | name (n : Str) (h : isShorthand n = true) : FAfterDots (.child [.name n]) n

  /-- `*(S segment)` -/
  inductive FSegsSpell : List Seg → Str → Prop
    | nil : FSegsSpell [] []
    | bracket (sels : List Sel) (w s0 s1 s2 : Str) (h : FSelsSpell sels w) (h0 : isS s0 = true) (h1 : isS s1 = true) (h2 : isS s2 = true)
        (segs : List Seg) (ws : Str) (rest : FSegsSpell segs ws) :
        FSegsSpell (.child sels :: segs) (s0 ++ '[' :: s1 ++ w ++ s2 ++ ']' :: ws)
    | dotWild (s0 : Str) (h0 : isS s0 = true) (segs : List Seg) (ws : Str) (rest : FSegsSpell segs ws) :
        FSegsSpell (.child [.wild] :: segs) (s0 ++ '.' :: '*' :: ws)
    | dotName (n s0 : Str) (hn : isShorthand n = true) (h0 : isS s0 = true) (segs : List Seg) (ws : Str) (rest : FSegsSpell segs ws) :
        FSegsSpell (.child [.name n] :: segs) (s0 ++ '.' :: n ++ ws)
    | ddot (g : Seg) (w s0 : Str) (h : FAfterDots g w) (h0 : isS s0 = true)
        (segs : List Seg) (ws : Str) (rest : FSegsSpell segs ws) :
        FSegsSpell (.desc :: g :: segs) (s0 ++ '.' :: '.' :: w ++ ws)
end

/-- `jsonpath-query` -/
def QuerySpellF (segs : List Seg) (text : Str) : Prop :=
  ∃ w, FSegsSpell segs w ∧ text = '$' :: w

end RfcSpellF
end JP
