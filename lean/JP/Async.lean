/-
  JP.Async — model of asynchronous evaluation (`resolve_async`, `evaluate_async`, `finditer_async`).

  The async API runs the *same evaluation program* as the sync API, except that every item access goes
  through `env.getitem_async` (which awaits `__getitem_async__` when the container provides one) and
  every `async for` / `await` is a point where the coroutine may be suspended and other tasks of the
  event loop may run. The model makes these two ingredients explicit:

  * `Eval α` — an evaluation program as a tree of item requests (the free monad over `getitem`);
    the sync API interprets a request with plain indexing, the async API with an awaitable getter.
  * `Co α` — a resumption (coroutine): either finished, or suspended with a continuation.
  * `runLoop` — an event loop that advances a set of coroutines according to an arbitrary schedule.
-/
import JP.Basic
import JP.Pointer
namespace JP
namespace Async

/-- A coroutine: finished with a value, or suspended at an `await`. -/
inductive Co (α : Type) where
  | done (a : α)
  | pause (k : Unit → Co α)

/-- Run a coroutine to completion on its own (`loop.run_until_complete`). -/
def Co.run {α} : Co α → α
  | .done a => a
  | .pause k => (k ()).run

def Co.bind {α β} : Co α → (α → Co β) → Co β
  | .done a, f => f a
  | .pause k, f => .pause (fun u => (k u).bind f)

/-- one scheduling step: advance past one suspension point (a finished coroutine stays finished) -/
def Co.step {α} : Co α → Co α
  | .done a => .done a
  | .pause k => k ()

/-- An evaluation program: it returns, or asks for `obj[key]` (`none` = KeyError / IndexError, which the
    selectors suppress) and continues. -/
inductive Eval (α : Type) where
  | ret (a : α)
  | get (obj : J) (key : Part) (k : Option J → Eval α)

/-- plain indexing: `env.getitem` -/
def getitemPlain (obj : J) (key : Part) : Option J :=
  match obj, key with
  | .obj kvs, .key k => dictGet kvs k
  | .arr xs, .idx i => pyListGet xs i
  | _, _ => none

/-- the sync API: every request is answered by plain indexing -/
def Eval.runSync {α} : Eval α → α
  | .ret a => a
  | .get obj key k => (k (getitemPlain obj key)).runSync

/-- the async API: every request awaits the getter `g` (`env.getitem_async`), and the coroutine may in
    addition be suspended before each request (`async for` over the upstream generator) -/
def Eval.runAsync {α} (g : J → Part → Co (Option J)) : Eval α → Co α
  | .ret a => .done a
  | .get obj key k => .pause (fun _ => (g obj key).bind (fun r => (k r).runAsync g))

/-- An event loop: advance coroutine `i` by one step for each `i` of the schedule. -/
def runLoop {α} : List Nat → List (Co α) → List (Co α)
  | [], cs => cs
  | i :: sched, cs =>
    match cs[i]? with
    | some c => runLoop sched (cs.set i c.step)
    | none => runLoop sched cs


/-! ## The source's sync/async twins (translated) -/

/-- the `*_async` methods that are NOT their synchronous twin with exactly the async machinery removed, and the
    helpers of the asynchronous paths: a list comprehension around the awaited iterator, the asynchronous helpers
    `_alist` / `_achain` / `_aintersection` in place of a list / `itertools.chain` / `_intersection`, a root match
    yielded from an inner generator, `CurrentKey.evaluate_async` delegating to `evaluate`, the `__getitem_async__`
    hook of `getitem_async`, `Filter.resolve_async` binding the awaited test to a name first, an assertion message.
    For these nothing is claimed from the source text (their agreement with the synchronous twin is decided by the
    correspondence run alone; the digest of the difference as it was read is kept by `harness/twins.py`, and a
    changed digest widens that run). Every OTHER twin must be equal. -/
def inherentlyDifferentTwins : List String := [
  "selectors.py:KeysSelector.resolve", "selectors.py:RecursiveDescentSelector.resolve", "selectors.py:ListSelector.resolve",
  "selectors.py:Filter.resolve", "selectors.py:<helper>._alist", "path.py:JSONPath._resolve", "path.py:CompoundJSONPath.findall",
  "path.py:CompoundJSONPath.finditer", "path.py:<helper>._intersection", "path.py:<helper>._aintersection", "path.py:<helper>._achain",
  "filter.py:SelfPath.evaluate", "filter.py:RootPath.evaluate", "filter.py:FilterContextPath.evaluate", "filter.py:CurrentKey.evaluate",
  "env.py:JSONPathEnvironment.getitem"]

/-- every twin outside that list is the synchronous method with awaits inserted (after the translator's normalisation:
    `async` / `await` / `_async` suffixes / `__getitem_async__` removed, `for v in e: yield v` read as `yield from e`); and
    the evaluation entry points all have twins -/
def twinsOK (tbl : List (String × Bool × String)) : Bool :=
  tbl.all (fun t => t.2.1 || inherentlyDifferentTwins.contains t.1) &&
  ["selectors.py:PropertySelector.resolve", "selectors.py:IndexSelector.resolve", "selectors.py:KeysSelector.resolve",
   "selectors.py:SliceSelector.resolve", "selectors.py:WildSelector.resolve", "selectors.py:RecursiveDescentSelector.resolve",
   "selectors.py:ListSelector.resolve", "selectors.py:Filter.resolve", "path.py:JSONPath.findall", "path.py:JSONPath.finditer",
   "path.py:JSONPath._resolve", "path.py:CompoundJSONPath.findall", "path.py:CompoundJSONPath.finditer",
   "filter.py:InfixExpression.evaluate", "filter.py:PrefixExpression.evaluate", "filter.py:BooleanExpression.evaluate",
   "filter.py:CachingFilterExpression.evaluate", "filter.py:SelfPath.evaluate", "filter.py:RootPath.evaluate",
   "filter.py:FilterContextPath.evaluate", "filter.py:FunctionExtension.evaluate", "filter.py:ListLiteral.evaluate",
   "env.py:JSONPathEnvironment.findall", "env.py:JSONPathEnvironment.finditer", "env.py:JSONPathEnvironment.getitem"].all
    (fun k => tbl.any (fun t => t.1 == k))

end Async
end JP
