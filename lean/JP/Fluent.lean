/-
  JP.Fluent — code-shaped model of `jsonpath/fluent_api.py` class `Query` (the iterator
  operations), and the list specification it is compared with.

  A `Query` holds `self._it`, a Python iterator. The model keeps the iterator protocol explicit:
  `It.src` is a generator/list iterator with its remaining items, `It.islice it n` is
  `itertools.islice(it, n)` (lazy, shares `it`). `deque(it, maxlen=n)`, `list(islice(it, n))`
  and `itertools.tee` drain (part of) the underlying iterator, as in CPython; `tee` children are
  modelled by their buffered contents (what remained when `tee` was called).
-/
namespace JP
namespace Fluent

inductive It (α : Type) where
  | src (xs : List α)
  | islice (it : It α) (n : Nat)
  deriving Repr

/-- `next(it, None)` -/
def It.next {α} : It α → Option α × It α
  | .src [] => (none, .src [])
  | .src (x :: xs) => (some x, .src xs)
  | .islice it 0 => (none, .islice it 0)
  | .islice it (n + 1) =>
    match it.next with
    | (some x, it') => (some x, .islice it' n)
    | (none, it') => (none, .islice it' 0)

/-- `list(it)`: everything the iterator still yields. -/
def It.drain {α} : It α → List α
  | .src xs => xs
  | .islice it n => it.drain.take n

/-- advance `n` times, discarding (the effect of `next(islice(it, n, n), None)`) -/
def It.advance {α} : It α → Nat → It α
  | it, 0 => it
  | it, n + 1 => (it.next.2).advance n

/-- `list(islice(it, n))` together with the advanced iterator -/
def It.takeList {α} : It α → Nat → List α × It α
  | it, 0 => ([], it)
  | it, n + 1 =>
    match it.next with
    | (some x, it') =>
      let (xs, it'') := it'.takeList n
      (x :: xs, it'')
    | (none, it') => ([], it')

/-- `collections.deque(xs, maxlen=n)` as a list: the last `n` items -/
def dequeLast {α} (xs : List α) (n : Nat) : List α := xs.drop (xs.length - n)

inductive Op where
  | limit (n : Int) | head (n : Int) | first (n : Int)
  | drop (n : Int) | skip (n : Int)
  | tail (n : Int) | last (n : Int)
  | take (n : Int)
  | tee (n : Int)
  | firstOne | one | lastOne
  deriving Repr, DecidableEq

inductive Out (α : Type) where
  | valueError                    -- the call raised ValueError and changed nothing
  | taken (xs : List α)           -- `take n`: the matches split off
  | children (xss : List (List α))   -- `tee n`: what the other children (2..n) yield
  | item (x : Option α)           -- first_one / one / last_one
  deriving Repr

/-- One method call on the query whose iterator is `it`: the output (if any) and the new iterator. -/
def step {α} (it : It α) : Op → Option (Out α) × It α
  | .limit n | .head n | .first n =>
    if n < 0 then (some .valueError, it) else (none, .islice it n.toNat)
  | .drop n | .skip n =>
    if n < 0 then (some .valueError, it) else (none, if n > 0 then it.advance n.toNat else it)
  | .tail n | .last n =>
    if n < 0 then (some .valueError, it) else (none, .src (dequeLast it.drain n.toNat))
  | .take n =>
    if n < 0 then (some .valueError, it)        -- islice() raises ValueError before consuming
    else
      let (xs, it') := it.takeList n.toNat
      (some (.taken xs), it')
  | .tee n =>
    if n < 0 then (some .valueError, it)        -- itertools.tee raises ValueError
    else if n = 0 then (some (.children []), .src [])   -- no children: nothing to continue with
    else
      let rest := it.drain
      (some (.children (List.replicate (n.toNat - 1) rest)), .src rest)
  | .firstOne | .one =>
    let (x, it') := it.next
    (some (.item x), it')
  | .lastOne =>
    -- next(iter(self.tail(1)), None)
    let l := dequeLast it.drain 1
    match l with
    | x :: rest => (some (.item (some x)), .src rest)
    | [] => (some (.item none), .src [])

/-- Run a chain of calls; finally list what remains (the `values()` / `locations()` / … views). -/
def run {α} : List Op → It α → List (Out α) × List α
  | [], it => ([], it.drain)
  | op :: ops, it =>
    let (o, it') := step it op
    let (os, fin) := run ops it'
    (match o with
     | some o => o :: os
     | none => os, fin)

/-! ## Specification: list operations on the full match list -/

def specStep {α} (l : List α) : Op → Option (Out α) × List α
  | .limit n | .head n | .first n => if n < 0 then (some .valueError, l) else (none, l.take n.toNat)
  | .drop n | .skip n => if n < 0 then (some .valueError, l) else (none, l.drop n.toNat)
  | .tail n | .last n => if n < 0 then (some .valueError, l) else (none, l.drop (l.length - n.toNat))
  | .take n => if n < 0 then (some .valueError, l) else (some (.taken (l.take n.toNat)), l.drop n.toNat)
  | .tee n =>
    if n < 0 then (some .valueError, l)
    else if n = 0 then (some (.children []), [])
    else (some (.children (List.replicate (n.toNat - 1) l)), l)
  | .firstOne | .one => (some (.item l.head?), l.drop 1)
  | .lastOne => (some (.item l.getLast?), [])

def runSpec {α} : List Op → List α → List (Out α) × List α
  | [], l => ([], l)
  | op :: ops, l =>
    let (o, l') := specStep l op
    let (os, fin) := runSpec ops l'
    (match o with
     | some o => o :: os
     | none => os, fin)

end Fluent
end JP
