/-
  JP.Patch — code-shaped model of `jsonpath/patch.py` and the RFC 6902 specification.

  In-place mutation of the parent container is modelled as "rebuild the document with the
  new parent written back at the parent's location" (`writeBack`); documents are trees
  (no aliasing), which is what `json.loads` and `copy.deepcopy` produce.
-/
import JP.Pointer
namespace JP
namespace Patch
open Pointer

inductive Op where
  | add (path : List Part) (value : J)
  | addne (path : List Part) (value : J)
  | addap (path : List Part) (value : J)
  | remove (path : List Part)
  | replace (path : List Part) (value : J)
  | move (src : List Part) (dest : List Part)
  | copy (src : List Part) (dest : List Part)
  | test (path : List Part) (value : J)
  deriving Repr, Inhabited

/-- `Op.name` -/
def Op.name : Op → String
  | .add .. => "add" | .addne .. => "addne" | .addap .. => "addap" | .remove .. => "remove"
  | .replace .. => "replace" | .move .. => "move" | .copy .. => "copy" | .test .. => "test"

/-- The real child slot that `JSONPointer._getitem parent part` returns, when it returns a
    child of `parent` (and not a key name / index produced by the `#`, `~` extensions). -/
inductive Slot where
  | member (k : Str)
  | elem (n : Nat)
  deriving Repr, DecidableEq

def slotOf (parent : J) (p : Part) : Option Slot :=
  match parent with
  | .obj kvs =>
    let k := partStr p
    if dictHas kvs k then some (.member k) else none
  | .arr xs =>
    match p with
    | .idx i => (pyIndexPos xs.length i).map .elem
    | .key k =>
      match k with
      | '#' :: _ => none
      | _ =>
        match indexOf k with
        | .ok (.idx i) => (pyIndexPos xs.length i).map .elem
        | _ => none
  | _ => none

/-- Replace the node that `reduce(_getitem, ps, doc)` reaches by `new`. -/
def writeBack (doc : J) (ps : List Part) (new : J) : Res J :=
  match ps with
  | [] => pure new
  | p :: rest =>
    match doc, slotOf doc p with
    | .obj kvs, some (.member k) =>
      match dictGet kvs k with
      | some child => do
        let c ← writeBack child rest new
        pure (.obj (dictSet kvs k c))
      | none => throw (.builtin .keyError)
    | .arr xs, some (.elem n) =>
      match xs[n]? with
      | some child => do
        let c ← writeBack child rest new
        pure (.arr (xs.set n c))
      | none => throw (.builtin .indexError)
    | _, _ => throw (.builtin .typeError)

/-- `int(token)` for a parsed part. -/
def tokenInt : Part → Option Int
  | .idx i => some i
  | .key k =>
    match indexOf k with
    | .ok (.idx i) => some i
    | _ => none

/-- `_target(pointer, data)` of patch.py: `(parent, token, obj)`. -/
def target (doc : J) (ps : List Part) : Res (Option J × Part × Option J) := do
  let (parent, obj) ← resolveParent doc ps
  match parent, ps.getLast? with
  | some (.obj kvs), some token =>
    let t := partStr token
    pure (parent, .key t, dictGet kvs t)
  | some _, some (.key ('#' :: rest)) => pure (parent, .key ('#' :: rest), none)
  | some _, some token => pure (parent, token, obj)
  | _, _ => pure (none, .key [], obj)

/-- `_insert(parent, token, obj, value)` of patch.py. -/
def insertArr (xs : List J) (token : Part) (obj : Option J) (v : J) : Res (List J) :=
  match obj with
  | none =>
    if token = .key ['-'] ∨ partStr token = natStr xs.length then pure (xs ++ [v])
    else throw .patch
  | some _ =>
    match tokenInt token with
    | some i => pure (pyListInsert xs i v)
    | none => throw (.builtin .valueError)

/-- `del parent[int(token)]` -/
def delArr (xs : List J) (token : Part) : Res (List J) :=
  match tokenInt token with
  | none => throw (.builtin .valueError)
  | some i =>
    match pyIndexPos xs.length i with
    | some n => pure (xs.eraseIdx n)
    | none => throw (.builtin .indexError)

/-- `parent[int(token)] = v` -/
def setArr (xs : List J) (token : Part) (v : J) : Res (List J) :=
  match tokenInt token with
  | none => throw (.builtin .valueError)
  | some i =>
    match pyIndexPos xs.length i with
    | some n => pure (xs.set n v)
    | none => throw (.builtin .indexError)

/-- `OpAdd.apply` -/
def applyAdd (doc : J) (path : List Part) (v : J) : Res J := do
  let (parent, token, obj) ← target doc path
  match parent with
  | none => pure v
  | some (.arr xs) => do
    let xs' ← insertArr xs token obj v
    writeBack doc path.dropLast (.arr xs')
  | some (.obj kvs) => writeBack doc path.dropLast (.obj (dictSet kvs (partStr token) v))
  | some _ => throw .patch

/-- `OpAddNe.apply` -/
def applyAddNe (doc : J) (path : List Part) (v : J) : Res J := do
  let (parent, token, _) ← target doc path
  match parent with
  | some (.obj kvs) => if dictHas kvs (partStr token) then pure doc else applyAdd doc path v
  | _ => applyAdd doc path v

/-- `OpAddAp.apply` -/
def applyAddAp (doc : J) (path : List Part) (v : J) : Res J := do
  let (parent, _, obj) ← target doc path
  match parent, obj with
  | some (.arr xs), none => writeBack doc path.dropLast (.arr (xs ++ [v]))
  | _, _ => applyAdd doc path v

/-- `OpRemove.apply` -/
def applyRemove (doc : J) (path : List Part) : Res J := do
  let (parent, token, obj) ← target doc path
  match parent with
  | none => throw .patch
  | some (.arr xs) =>
    match obj with
    | none => throw .patch
    | some _ => do
      let xs' ← delArr xs token
      writeBack doc path.dropLast (.arr xs')
  | some (.obj kvs) =>
    match obj with
    | none => throw .patch
    | some _ => writeBack doc path.dropLast (.obj (dictErase kvs (partStr token)))
  | some _ => throw .patch

/-- `OpReplace.apply` -/
def applyReplace (doc : J) (path : List Part) (v : J) : Res J := do
  let (parent, token, obj) ← target doc path
  match parent with
  | none => pure v
  | some (.arr xs) =>
    match obj with
    | none => throw .patch
    | some _ => do
      let xs' ← setArr xs token v
      writeBack doc path.dropLast (.arr xs')
  | some (.obj kvs) =>
    match obj with
    | none => throw .patch
    | some _ => writeBack doc path.dropLast (.obj (dictSet kvs (partStr token) v))
  | some _ => throw .patch

/-- `OpMove.apply` -/
def applyMove (doc : J) (src dest : List Part) : Res J := do
  if isRelativeTo dest src then throw .patch
  let (sparent, stoken, sobj) ← target doc src
  match sobj with
  | none => throw .patch
  | some sv =>
    let doc1 ← match sparent with
      | some (.arr xs) => do
        let xs' ← delArr xs stoken
        writeBack doc src.dropLast (.arr xs')
      | some (.obj kvs) => writeBack doc src.dropLast (.obj (dictErase kvs (partStr stoken)))
      | _ => pure doc
    let (dparent, dtoken, dobj) ← target doc1 dest
    match dparent with
    | none => pure sv
    | some (.arr xs) => do
      let xs' ← insertArr xs dtoken dobj sv
      writeBack doc1 dest.dropLast (.arr xs')
    | some (.obj kvs) => writeBack doc1 dest.dropLast (.obj (dictSet kvs (partStr dtoken) sv))
    | some _ => throw .patch

/-- `OpCopy.apply` -/
def applyCopy (doc : J) (src dest : List Part) : Res J := do
  let (_, _, sobj) ← target doc src
  match sobj with
  | none => throw .patch
  | some sv =>
    let (dparent, dtoken, dobj) ← target doc dest
    match dparent with
    | none => pure sv
    | some (.arr xs) => do
      let xs' ← insertArr xs dtoken dobj sv
      writeBack doc dest.dropLast (.arr xs')
    | some (.obj kvs) => writeBack doc dest.dropLast (.obj (dictSet kvs (partStr dtoken) sv))
    | some _ => throw .patch

/-- `OpTest.apply` (`_equal` is JSON value equality) -/
def applyTest (doc : J) (path : List Part) (v : J) : Res J := do
  let (_, _, obj) ← target doc path
  match obj with
  | none => throw .patchTest
  | some o => if o.eqv v then pure doc else throw .patchTest

def applyOp (doc : J) : Op → Res J
  | .add p v => applyAdd doc p v
  | .addne p v => applyAddNe doc p v
  | .addap p v => applyAddAp doc p v
  | .remove p => applyRemove doc p
  | .replace p v => applyReplace doc p v
  | .move s d => applyMove doc s d
  | .copy s d => applyCopy doc s d
  | .test p v => applyTest doc p v

/-- The exception translation of `JSONPatch.apply`. -/
def translate : Err → Err
  | .patchTest => .patchTest
  | .ptrKey | .ptrIndex | .ptrType | .ptr | .patch => .patch
  | e => e

/-- `JSONPatch.apply` -/
def apply (ops : List Op) (doc : J) : Res J :=
  ops.foldlM (fun d op => (applyOp d op).mapError translate) doc

/-! ## Building a patch from its JSON document form (`JSONPatch._load` / `_build`) -/

def opPointer (dec : EscDec) (unicodeEsc : Bool) (operation : List (Str × J)) (key : Str) :
    Res (List Part) :=
  match dictGet operation key with
  | none => throw .patch
  | some (.str s) =>
    match Pointer.parse dec unicodeEsc s with
    | .ok ps => pure ps
    | .error e => if e.isPointerFamily then throw .patch else throw e
  | some _ => throw .patch

def opValue (operation : List (Str × J)) (key : Str) : Res J :=
  match dictGet operation key with
  | none => throw .patch
  | some v => pure v

def buildOp (dec : EscDec) (unicodeEsc : Bool) (operation : J) : Res Op :=
  match operation with
  | .obj kvs =>
    match dictGet kvs "op".toList with
    | none => throw .patch
    | some (.str name) =>
      if name = "add".toList then do
        let p ← opPointer dec unicodeEsc kvs "path".toList
        let v ← opValue kvs "value".toList
        pure (.add p v)
      else if name = "addne".toList then do
        let p ← opPointer dec unicodeEsc kvs "path".toList
        let v ← opValue kvs "value".toList
        pure (.addne p v)
      else if name = "addap".toList then do
        let p ← opPointer dec unicodeEsc kvs "path".toList
        let v ← opValue kvs "value".toList
        pure (.addap p v)
      else if name = "remove".toList then do
        let p ← opPointer dec unicodeEsc kvs "path".toList
        pure (.remove p)
      else if name = "replace".toList then do
        let p ← opPointer dec unicodeEsc kvs "path".toList
        let v ← opValue kvs "value".toList
        pure (.replace p v)
      else if name = "move".toList then do
        let s ← opPointer dec unicodeEsc kvs "from".toList
        let p ← opPointer dec unicodeEsc kvs "path".toList
        pure (.move s p)
      else if name = "copy".toList then do
        let s ← opPointer dec unicodeEsc kvs "from".toList
        let p ← opPointer dec unicodeEsc kvs "path".toList
        pure (.copy s p)
      else if name = "test".toList then do
        let p ← opPointer dec unicodeEsc kvs "path".toList
        let v ← opValue kvs "value".toList
        pure (.test p v)
      else throw .patch
    | some _ => throw .patch
  -- `operation["op"]` on a non-mapping raises TypeError, translated by `_load`
  | _ => throw .patch

/-- Python truthiness of a JSON value (`if ops:` in `JSONPatch.__init__`). -/
def truthy : J → Bool
  | .null => false
  | .bool b => b
  | .int i => i != 0
  | .flt m => m != 0
  | .str s => !s.isEmpty
  | .arr xs => !xs.isEmpty
  | .obj kvs => !kvs.isEmpty

/-- `JSONPatch(ops)` for `ops` given as a parsed JSON value. -/
def build (dec : EscDec) (unicodeEsc : Bool) (ops : J) : Res (List Op) :=
  if !truthy ops then pure []
  else match ops with
    | .arr xs => xs.mapM (buildOp dec unicodeEsc)
    -- iterating a mapping yields its keys (strings): `"k"["op"]` is a TypeError → JSONPatchError;
    -- numbers / true are not iterable: TypeError → JSONPatchError
    | _ => throw .patch

/-- `Op.asdict` as an ordered member list. -/
def Op.asdict : Op → J
  | .add p v => .obj [("op".toList, .str "add".toList), ("path".toList, .str (encode p)), ("value".toList, v)]
  | .addne p v => .obj [("op".toList, .str "addne".toList), ("path".toList, .str (encode p)), ("value".toList, v)]
  | .addap p v => .obj [("op".toList, .str "addap".toList), ("path".toList, .str (encode p)), ("value".toList, v)]
  | .remove p => .obj [("op".toList, .str "remove".toList), ("path".toList, .str (encode p))]
  | .replace p v => .obj [("op".toList, .str "replace".toList), ("path".toList, .str (encode p)), ("value".toList, v)]
  | .move s p => .obj [("op".toList, .str "move".toList), ("from".toList, .str (encode s)), ("path".toList, .str (encode p))]
  | .copy s p => .obj [("op".toList, .str "copy".toList), ("from".toList, .str (encode s)), ("path".toList, .str (encode p))]
  | .test p v => .obj [("op".toList, .str "test".toList), ("path".toList, .str (encode p)), ("value".toList, v)]

def asdicts (ops : List Op) : J := .arr (ops.map Op.asdict)

/-! ## RFC 6902 on immutable values and reference tokens -/

inductive SpecErr where
  | violation      -- the operation violates RFC 6902 / RFC 6901
  | testFailed     -- a `test` operation whose target exists but differs
  deriving Repr, DecidableEq

abbrev SRes := Except SpecErr J

def arrayIndex (t : Str) (len : Nat) : Option Nat :=
  if isCanonNat t ∧ digitsVal t < len then some (digitsVal t) else none

/-- Apply `f` to the value at the parent location `ts`, rebuilding the document. -/
def rfcUpdate (doc : J) (ts : List Str) (f : J → Option J) : Option J :=
  match ts with
  | [] => f doc
  | t :: rest =>
    match doc with
    | .obj kvs =>
      match dictGet kvs t with
      | some child => (rfcUpdate child rest f).map (fun c => .obj (dictSet kvs t c))
      | none => none
    | .arr xs =>
      match arrayIndex t xs.length with
      | some n =>
        match xs[n]? with
        | some child => (rfcUpdate child rest f).map (fun c => .arr (xs.set n c))
        | none => none
      | none => none
    | _ => none

/-- RFC 6902 §4.1 add at the final token `t` of a container. -/
def rfcAddLast (t : Str) (v : J) (parent : J) : Option J :=
  match parent with
  | .obj kvs => some (.obj (dictSet kvs t v))
  | .arr xs =>
    if t = ['-'] then some (.arr (xs ++ [v]))
    else if isCanonNat t ∧ digitsVal t ≤ xs.length then
      some (.arr (xs.take (digitsVal t) ++ v :: xs.drop (digitsVal t)))
    else none
  | _ => none

def rfcRemoveLast (t : Str) (parent : J) : Option J :=
  match parent with
  | .obj kvs => if dictHas kvs t then some (.obj (dictErase kvs t)) else none
  | .arr xs => (arrayIndex t xs.length).map (fun n => .arr (xs.eraseIdx n))
  | _ => none

def rfcReplaceLast (t : Str) (v : J) (parent : J) : Option J :=
  match parent with
  | .obj kvs => if dictHas kvs t then some (.obj (dictSet kvs t v)) else none
  | .arr xs => (arrayIndex t xs.length).map (fun n => .arr (xs.set n v))
  | _ => none

def rfcAdd (doc : J) (ts : List Str) (v : J) : Option J :=
  match ts.getLast? with
  | none => some v
  | some t => rfcUpdate doc ts.dropLast (rfcAddLast t v)

def rfcRemove (doc : J) (ts : List Str) : Option J :=
  match ts.getLast? with
  | none => none
  | some t => rfcUpdate doc ts.dropLast (rfcRemoveLast t)

def rfcReplace (doc : J) (ts : List Str) (v : J) : Option J :=
  match ts.getLast? with
  | none => some v
  | some t => rfcUpdate doc ts.dropLast (rfcReplaceLast t v)

def properPrefix (a b : List Str) : Bool := a.length < b.length && b.take a.length == a

inductive SOp where
  | add (path : List Str) (value : J)
  | remove (path : List Str)
  | replace (path : List Str) (value : J)
  | move (src dest : List Str)
  | copy (src dest : List Str)
  | test (path : List Str) (value : J)
  deriving Repr

def liftV (o : Option J) : SRes :=
  match o with
  | some d => .ok d
  | none => .error .violation

def rfcApplyOp (doc : J) : SOp → SRes
  | .add p v => liftV (rfcAdd doc p v)
  | .remove p => liftV (rfcRemove doc p)
  | .replace p v => liftV (rfcReplace doc p v)
  | .move s d =>
    if properPrefix s d then .error .violation
    else match rfcEval doc s with
      | none => .error .violation
      | some v =>
        if s.isEmpty then (if d.isEmpty then .ok v else .error .violation)
        else liftV ((rfcRemove doc s).bind (fun d1 => rfcAdd d1 d v))
  | .copy s d =>
    match rfcEval doc s with
    | none => .error .violation
    | some v => liftV (rfcAdd doc d v)
  | .test p v =>
    match rfcEval doc p with
    | none => .error .violation
    | some o => if o.eqv v then .ok doc else .error .testFailed

def rfcApply (ops : List SOp) (doc : J) : SRes := ops.foldlM rfcApplyOp doc

/-! ## Relating the two: RFC operations on reference tokens as patch.py operations -/

/-- The part `JSONPointer._index` makes of a reference token (tokens whose integer value is out
    of range make the constructor raise; they are excluded as extensions where this is used). -/
def toPart (t : Str) : Part :=
  match indexOf t with
  | .ok p => p
  | .error _ => .key t

def toParts (ts : List Str) : List Part := ts.map toPart

def opOfSpec : SOp → Op
  | .add p v => .add (toParts p) v
  | .remove p => .remove (toParts p)
  | .replace p v => .replace (toParts p) v
  | .move s d => .move (toParts s) (toParts d)
  | .copy s d => .copy (toParts s) (toParts d)
  | .test p v => .test (toParts p) v

def SOp.tokens : SOp → List Str
  | .add p _ => p
  | .remove p => p
  | .replace p _ => p
  | .move s d => s ++ d
  | .copy s d => s ++ d
  | .test p _ => p

/-- No token of the operation uses a documented pointer extension. -/
def SOp.standard (op : SOp) : Prop := ∀ t ∈ op.tokens, isExtensionToken t = false

/-- Code result matches spec result: same document on success; `JSONPatchTestFailure` for a failed
    test; some patch-family error for an RFC violation. -/
def Refines (code : Res J) (spec : SRes) : Prop :=
  match spec with
  | .ok d => code = .ok d
  | .error .testFailed => code = .error .patchTest
  | .error .violation => ∃ e, code = .error e ∧ e.isPatchFamily = true

end Patch
end JP
