/-
  JP.Guards — the conversions of caller-supplied text that can raise a built-in exception (`int`, `float`,
  `re.compile` / `re.fullmatch` / `re.search`, `json.loads` in the parser, the unicode-escape codec) and the
  `try` blocks that enclose them, as the translator reads them from parse.py, match.py, search.py, pointer.py
  and patch.py (`Generated.conversionGuards`).

  `guardsOK` says: every such call sits inside handlers for all the built-in exceptions it can raise, or
  is one of the reviewed sites where the argument's shape excludes them (it was matched by the lexer's number
  pattern or by the index-token pattern just before).
-/
namespace JP
namespace Guards

/-- the built-in exceptions a conversion can raise on arbitrary text -/
def needs (callee : String) : List String :=
  if callee == "int" then ["ValueError"]                       -- also "too many digits": a ValueError
  else if callee == "float" then ["ValueError"]
  else if callee == "re.compile" || callee == "re.fullmatch" || callee == "re.search" || callee == "re.match" then
    ["error", "OverflowError", "ValueError"]                   -- bad pattern, oversized repetition, conflicting flags
  else if callee == "json.loads" then ["JSONDecodeError"]
  else if callee == "codecs.decode" || callee == "str.decode" || callee == "str.encode" then ["UnicodeError"]
  else ["<unknown conversion>"]

/-- sites whose argument has been matched against a pattern that makes the conversion total:
    `parse_float_literal` (the lexer's FLOAT rule), `JSONPointer._getitem` (after `_index` accepted the
    token), `RelativeJSONPointer.to` (after `_int_like`), the array branches of the patch operations
    (after `_target` resolved the token as an index of that array) -/
def reviewedUnguarded : List (String × String) :=
  [("parse.py:Parser.parse_float_literal", "float"), ("pointer.py:JSONPointer._getitem", "int"),
   ("pointer.py:RelativeJSONPointer.to", "int"), ("patch.py:_insert", "int"), ("patch.py:OpRemove.apply", "int"),
   ("patch.py:OpReplace.apply", "int"), ("patch.py:OpMove.apply", "int")]

def guardsOK (tbl : List (String × String × List String)) : Bool :=
  tbl.all fun t =>
    (needs t.2.1).all (fun e => t.2.2.contains e || t.2.2.contains "Exception" || t.2.2.contains "BaseException") ||
    reviewedUnguarded.contains (t.1, t.2.1)

/-- the conversions of the query compiler are all there (so that the statement is not vacuous) -/
def compilerSitesPresent (tbl : List (String × String × List String)) : Bool :=
  [("parse.py:Parser._to_int", "int"), ("parse.py:Parser.parse_integer_literal", "int"), ("parse.py:Parser.parse_integer_literal", "float"),
   ("parse.py:Parser.parse_regex", "re.compile"), ("parse.py:Parser._decode_string_literal", "json.loads"),
   ("match.py:Match.__call__", "re.fullmatch"), ("search.py:Search.__call__", "re.search")].all
    fun s => tbl.any (fun t => t.1 == s.1 && t.2.1 == s.2)

end Guards
end JP
