/-
  JP.Guards — the conversions of caller-supplied text that can raise a built-in exception (`int`, `float`,
  `re.compile` / `re.fullmatch` / `re.search`, `json.loads` in the parser, the unicode-escape codec) and the
  `try` blocks that enclose them, as the translator reads them from parse.py, match.py, search.py, pointer.py
  and patch.py (`Generated.conversionGuards`).

  `guardsOK` says: every such call sits inside handlers for all the built-in exceptions it can raise, or
  is one of the reviewed sites where the argument's shape excludes them (it was matched by the lexer's number
  pattern or by the index-token pattern just before).
-/
namespace JP
namespace Guards

/-- the built-in exceptions a conversion can raise on arbitrary text -/
def needs (callee : String) : List String :=
  if callee == "int" then ["ValueError"]                       -- also "too many digits": a ValueError
  else if callee == "float" then ["ValueError"]
  else if callee == "re.compile" || callee == "re.fullmatch" || callee == "re.search" || callee == "re.match" then
    ["error", "OverflowError", "ValueError"]                   -- bad pattern, oversized repetition, conflicting flags
  else if callee == "json.loads" then ["JSONDecodeError"]
  else if callee == "codecs.decode" || callee == "str.decode" || callee == "str.encode" then ["UnicodeError"]
  else ["<unknown conversion>"]

/-- sites whose argument has been matched against a pattern that makes the conversion total:
    `parse_float_literal` (the lexer's FLOAT rule), `JSONPointer._getitem` / `resolve_parent` (after `_index` accepted the
    token), `RelativeJSONPointer.to` (after `_int_like`), the array branches of the patch operations
    (after `_target` resolved the token as an index of that array). A conversion inside a private helper that the helper
    does not guard itself is listed by the translator at the helper's call sites (`_insert` at `OpAdd` / `OpMove` /
    `OpCopy`), so that pulling such a conversion into a helper, or inlining one, leaves this list as it is. -/
def reviewedUnguarded : List (String × String) :=
  [("parse.py:Parser.parse_float_literal", "float"), ("pointer.py:JSONPointer._getitem", "int"), ("pointer.py:JSONPointer.resolve_parent", "int"),
   ("pointer.py:RelativeJSONPointer.to", "int"), ("patch.py:_insert", "int"), ("patch.py:OpAdd.apply", "int"), ("patch.py:OpCopy.apply", "int"),
   ("patch.py:OpRemove.apply", "int"), ("patch.py:OpReplace.apply", "int"), ("patch.py:OpMove.apply", "int")]

def guardsOK (tbl : List (String × String × List String)) : Bool :=
  tbl.all fun t =>
    (needs t.2.1).all (fun e => t.2.2.contains e || t.2.2.contains "Exception" || t.2.2.contains "BaseException") ||
    reviewedUnguarded.contains (t.1, t.2.1)

/-- the conversions of the query compiler are all there (so that the statement is not vacuous): per source file, whatever
    function holds them (`sites` = the (file, conversion) pairs of the table, as the translator lists them) -/
def compilerSitesPresent (sites : List (String × String)) : Bool :=
  [("parse.py", "int"), ("parse.py", "float"), ("parse.py", "re.compile"), ("parse.py", "json.loads"),
   ("match.py", "re.fullmatch"), ("search.py", "re.search")].all sites.contains

end Guards
end JP
