/-
  JP.Cache — code-shaped model of filter-expression caching (`filter.py`):
  `FilterExpression.volatile` (computed bottom-up in `__init__`, with the hard-coded overrides of
  `SelfPath`, `CurrentKey`, `RootPath`, `FilterContextPath`), `BooleanExpression.cache_tree` (which
  nodes are wrapped in a `CachingFilterExpression`), and `CachingFilterExpression.evaluate` (a cell
  that is filled on first use). One `Filter.resolve` call builds one fresh cache tree and threads it
  through all candidates of all its input nodes.
-/
import JP.Query
import JP.Generated.Tables
namespace JP
namespace Cache
open Query

mutual
  /-- `expr.volatile` -/
  def volatile : Expr → Bool
    | .self _ => true                 -- SelfPath.__init__: self.volatile = True
    | .key => true                    -- CurrentKey.__init__: self.volatile = True
    | .root _ _ => false              -- RootPath.__init__: self.volatile = False
    | .ctx _ => false                 -- FilterContextPath.__init__: self.volatile = False
    | .list items => anyVolatile items
    | .not e => volatile e
    | .infix l _ r => volatile l || volatile r
    | .func _ args => anyVolatile args
    | _ => false                      -- literals: no children
  def anyVolatile : List Expr → Bool
    | [] => false
    | e :: es => volatile e || anyVolatile es
end

/-- `expr.FORCE_CACHE` -/
def forceCache : Expr → Bool
  | .root _ _ | .ctx _ => true
  | _ => false

/-- `len(expr.children()) > 0` for the children that `set_children` replaces (a path's nested filter
    expressions are not replaced: `Path.set_children` is a no-op). -/
def hasChildren : Expr → Bool
  | .list items => !items.isEmpty
  | .not _ | .infix _ _ _ => true
  | .func _ args => !args.isEmpty
  | _ => false

/-- `_cache_tree` wraps this node in a `CachingFilterExpression` -/
def cached (e : Expr) : Bool := !volatile e && (forceCache e || hasChildren e)

/-- position of a node in the expression tree -/
abbrev Pos := List Nat
/-- the cells of one cache tree: position ↦ cached value (absent = `_UNSET`) -/
abbrev Cells := List (Pos × V)

def lookupCell (cs : Cells) (p : Pos) : Option V :=
  match cs with
  | [] => none
  | (q, v) :: rest => if q = p then some v else lookupCell rest p

/-! The per-node combination functions of `evaluate` (the same computations as in `Query.evalExpr`). -/

def litOf : V → J
  | .val j => j
  | _ => .null

def combineInfix (env : Env) (op : CmpOp) (lv rv : V) : V :=
  let logical := op == .and || op == .or
  let unwrap : V → V := fun v =>
    if logical then v else
    match v with
    | .nodes [n] => .val n.val
    | v => v
  .val (.bool (Query.compare env.rx (unwrap lv) op (unwrap rv)))

def combineFunc (env : Env) (name : Str) (vs : List V) : V := applyFn env.rx name vs

mutual
  /-- evaluation through the cache tree: `CachingFilterExpression.evaluate` at cached nodes -/
  def evalC (env : Env) (cur : J) (key : Option Part) : Expr → Pos → Cells → V × Cells
    | e, p, cs =>
      if cached e then
        match lookupCell cs p with
        | some v => (v, cs)
        | none =>
          let (v, cs') := evalInner env cur key e p cs
          (v, (p, v) :: cs')
      else evalInner env cur key e p cs
  termination_by e => (sizeOf e, 1)

  /-- `self._expr.evaluate(context)`: children are evaluated through their own (possibly caching) nodes -/
  def evalInner (env : Env) (cur : J) (key : Option Part) : Expr → Pos → Cells → V × Cells
    | .list items, p, cs =>
      let (vs, cs') := evalCList env cur key items p 0 cs
      (.val (.arr (vs.map litOf)), cs')
    | .not e, p, cs =>
      let (v, cs') := evalC env cur key e (p ++ [0]) cs
      (.val (.bool (!isTruthy v)), cs')
    | .infix l op r, p, cs =>
      let (lv, cs1) := evalC env cur key l (p ++ [0]) cs
      let (rv, cs2) := evalC env cur key r (p ++ [1]) cs1
      (combineInfix env op lv rv, cs2)
    | .func name args, p, cs =>
      let (vs, cs') := evalCList env cur key args p 0 cs
      (combineFunc env name vs, cs')
    | e, _, cs => (evalExpr env cur key e, cs)      -- leaves and paths: plain evaluation
  termination_by e => (sizeOf e, 0)

  def evalCList (env : Env) (cur : J) (key : Option Part) : List Expr → Pos → Nat → Cells → List V × Cells
    | [], _, _, cs => ([], cs)
    | e :: es, p, i, cs =>
      let (v, cs1) := evalC env cur key e (p ++ [i]) cs
      let (vs, cs2) := evalCList env cur key es p (i + 1) cs1
      (v :: vs, cs2)
  termination_by es => (sizeOf es, 0)
end

/-- One `Filter.resolve` call without caching: which candidates are selected. -/
def resolvePlain (env : Env) (e : Expr) (cands : List (J × Option Part)) : List Bool :=
  cands.map (fun (cur, key) => isTruthy (evalExpr env cur key e))

/-- One `Filter.resolve` call with caching: a fresh tree (`[]`), threaded through all candidates. -/
def resolveCachedFrom (env : Env) (e : Expr) : List (J × Option Part) → Cells → List Bool
  | [], _ => []
  | (cur, key) :: rest, cs =>
    let (v, cs') := evalC env cur key e [] cs
    isTruthy v :: resolveCachedFrom env e rest cs'

def resolveCached (env : Env) (e : Expr) (cands : List (J × Option Part)) : List Bool :=
  resolveCachedFrom env e cands []

/-! ## Interleaving lazy iterators -/

/-- Advance iterators according to a schedule: `i` means `next()` on iterator `i`. Each iterator is
    the (lazy) sequence of matches it still has to yield; they share no state. Returns the trace of
    (iterator, yielded item) and the remaining iterators. -/
def interleave {α} : List Nat → List (List α) → List (Nat × α) × List (List α)
  | [], gens => ([], gens)
  | i :: sched, gens =>
    match gens[i]? with
    | some (x :: rest) =>
      let (tr, fin) := interleave sched (gens.set i rest)
      ((i, x) :: tr, fin)
    | _ => interleave sched gens       -- exhausted iterator (StopIteration) or no such iterator

/-- The hard-coded volatility / FORCE_CACHE decisions of the model are the ones in the source. -/
def classTableOK (t : List (String × List String × Option Bool × Option Bool)) : Bool :=
  let get := fun (n : String) => t.lookup n
  (get "SelfPath").map (fun x => x.2.2) == some (some true) &&
  (get "CurrentKey").map (fun x => x.2.2) == some (some true) &&
  (get "RootPath").map (fun x => x.2.2) == some (some false) &&
  (get "FilterContextPath").map (fun x => x.2.2) == some (some false) &&
  (get "CachingFilterExpression").map (fun x => x.2.2) == some (some false) &&
  (get "RootPath").map (fun x => x.2.1) == some (some true) &&
  (get "FilterContextPath").map (fun x => x.2.1) == some (some true) &&
  -- no other class forces caching or hard-codes volatility
  t.all (fun (n, _, fc, vol) =>
    (fc == none || fc == some false || n == "RootPath" || n == "FilterContextPath") &&
    (vol == none || n == "SelfPath" || n == "CurrentKey" || n == "RootPath" || n == "FilterContextPath" || n == "CachingFilterExpression"))

end Cache
end JP
