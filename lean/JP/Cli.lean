/-
  JP.Cli — decision-logic model of `jsonpath/cli.py`, parametrised by the tables the translator
  (harness/tables.py) regenerates from the source on every run: the handlers' `try`/`except`
  structure, the argparse dests, every `args.<attr>` read, and the exception hierarchy.
-/
import JP.Generated.Tables
namespace JP
namespace Cli

abbrev Hierarchy := List (String × List String)
/-- one `except` clause: classes named, `--debug` re-raises, writes to stderr, exit status -/
abbrev Handler := List String × Bool × Bool × Int
/-- one `try` block: functions called in its body, its `except` clauses in order -/
abbrev TryBlock := List String × List Handler

/-- `issubclass(a, b)` by the generated hierarchy (fuel bounds the depth of the class graph). -/
def subclassOf (h : Hierarchy) : Nat → String → String → Bool
  | 0, a, b => a == b
  | fuel + 1, a, b =>
    a == b ||
    match h.lookup a with
    | some bases => bases.any (fun c => subclassOf h fuel c b)
    | none => false

/-- the first `except` clause that catches an exception of class `cls` -/
def catching (h : Hierarchy) (hs : List Handler) (cls : String) : Option Handler :=
  hs.find? (fun hd => hd.1.any (fun c => subclassOf h 8 cls c))

/-- What the user sees when the body of a `try` block raises `cls`. -/
structure Outcome where
  exit : Int            -- process exit status (`-1`: the exception propagates = traceback)
  stderrLine : Bool
  traceback : Bool
  deriving Repr, DecidableEq

def onRaise (h : Hierarchy) (t : TryBlock) (cls : String) (debug : Bool) : Outcome :=
  match catching h t.2 cls with
  | none => ⟨-1, false, true⟩
  | some (_, reraise, writes, status) =>
    if debug && reraise then ⟨-1, false, true⟩ else ⟨status, writes, false⟩

/-- what decoding a document can raise: malformed text (`JSONDecodeError`), bytes that are not text
    (`UnicodeDecodeError`), and a plain `ValueError` for a number with more digits than `int()` converts -/
def decodeErrors : List String := ["JSONDecodeError", "UnicodeDecodeError", "ValueError"]

/-- Exception classes the library call(s) in a `try` body may raise for a rejected input: the
    documented family of the call (C06 shows nothing else escapes the pointer/patch models) plus the
    "undecodable document" errors of `json`; reading an expression file (`-r`) raises `UnicodeDecodeError`
    when the file is not text. -/
def raisable (calls : List String) : List String :=
  (if calls.contains "compile" then
    ["JSONPathError", "JSONPathSyntaxError", "JSONPathTypeError", "JSONPathIndexError", "JSONPathNameError"] else []) ++
  (if calls.contains "findall" then
    ["JSONPathError", "JSONPathTypeError"] ++ decodeErrors else []) ++
  (if calls.contains "resolve" then
    ["JSONPointerError", "JSONPointerResolutionError", "JSONPointerIndexError", "JSONPointerKeyError", "JSONPointerTypeError"]
      ++ decodeErrors else []) ++
  (if calls.contains "apply" then
    ["JSONPatchError", "JSONPatchTestFailure"] ++ decodeErrors else []) ++
  (if calls.contains "load" then decodeErrors else []) ++
  (if calls.contains "read" then ["UnicodeDecodeError"] else [])

/-- an expression given in a file is read inside a `try` block: every handler that reads one (`args.<x>_file`)
    has a block whose body calls `read` -/
def fileReadsGuarded (handlers : List (String × List TryBlock)) (reads : List (String × List String)) : Bool :=
  reads.all (fun (handler, attrs) =>
    !(attrs.any (fun a => a.toList.reverse.take 5 == "_file".toList.reverse)) ||
      (match handlers.lookup handler with
       | some tries => tries.any (fun t => t.1.contains "read")
       | none => false))

/-- every `args.<attr>` a handler reads is a dest of its sub-command or a global option -/
def attrsDefined (reads : List (String × List String)) (subs : List (String × String × List String))
    (glob : List String) : Bool :=
  reads.all (fun (handler, attrs) =>
    match subs.find? (fun s => s.2.1 == handler) with
    | some (_, _, dests) => attrs.all (fun a => dests.contains a || glob.contains a)
    | none => false)

/-- every raisable class of every `try` block of every handler is reported as: exit status 1, one line
    on stderr, no traceback — and re-raised (traceback) exactly when `--debug` is given -/
def errorsCaught (h : Hierarchy) (handlers : List (String × List TryBlock)) : Bool :=
  handlers.all (fun (_, tries) =>
    tries.all (fun t =>
      (raisable t.1).all (fun cls =>
        onRaise h t cls false == ⟨1, true, false⟩ && onRaise h t cls true == ⟨-1, false, true⟩)))

/-- each handler is installed by exactly one sub-command -/
def handlersInstalled (handlers : List (String × List TryBlock)) (subs : List (String × String × List String)) : Bool :=
  handlers.all (fun (name, _) => (subs.filter (fun s => s.2.1 == name)).length == 1)

end Cli
end JP
