/-
  C03 — Every match location (path, parts, pointer, parent) identifies exactly that node.

  Object identity is modelled as location identity (documents are trees). The path-as-query round
  trip goes through the lexer/parser, which is tied by correspondence, not modelled here.
-/
import JP.Lemmas.Locate
namespace JP.Props.C03
open JP JP.Query JP.Pointer JP.Lemmas

/-- Every match of a standard (filter-free) query carries a location `loc` of the document: its parts are
    that location, its path string is the RFC 9535 section 2.7 normalized path of `loc`, and its value is
    the document's value at `loc`. The document must have unique member names (`doc.wf`, what
    `json.loads` produces): duplicate member names make a location ambiguous. -/
theorem match_located (rx : Rx) (segs : List Seg) (doc extra : J) (hwf : doc.wf = true)
    (hp : plainSegs segs = true) (hw : Rfc.wellFormedSegs segs = true) :
    ∀ n ∈ finditer rx ⟨segs, false⟩ doc extra,
      ∃ loc, n.parts = locParts loc ∧ n.path = Rfc.normalizedPath loc ∧ locValue doc loc = some n.val :=
  Lemmas.match_located rx segs doc extra hwf hp hw

/-- Two normalized paths are equal if and only if they denote the same location. -/
theorem equal_paths_iff_same_node (a b : List Rfc.LStep) :
    Rfc.normalizedPath a = Rfc.normalizedPath b ↔ a = b :=
  ⟨Lemmas.normalizedPath_injective a b, fun h => by rw [h]⟩

/-- …and the parts identify the location too. -/
theorem equal_parts_iff_same_node (a b : List Rfc.LStep) : locParts a = locParts b ↔ a = b :=
  ⟨Lemmas.locParts_injective a b, fun h => by rw [h]⟩

/-- The JSON Pointer derived from a match's parts resolves to the matched value. -/
theorem pointer_of_match (doc v : J) (loc : List Rfc.LStep) (h : locValue doc loc = some v) :
    resolveParts doc (locParts loc) = .ok v :=
  Lemmas.pointer_of_location doc v loc h

/-- That pointer's string form, parsed again, resolves to the matched value (escape decoding disabled, or
    enabled when the string contains no backslash). -/
theorem pointer_string_of_match (dec : EscDec) (ue : Bool) (doc v : J) (loc : List Rfc.LStep)
    (h : locValue doc loc = some v)
    (hr : ∀ s ∈ loc, StepInRange (match s with | .name k => Step.name k | .index n => Step.index n))
    (hb : ue = true → (encode (locParts loc)).contains '\\' = false) :
    resolveText dec ue (encode (locParts loc)) doc = .ok v :=
  Lemmas.pointer_string_of_location dec ue doc v loc h hr hb

/-- The parent of a match is the node whose location is one step shorter: it exists, is a container, and
    the match is its child at the last step. -/
theorem parent_one_shorter (doc v : J) (loc : List Rfc.LStep) (s : Rfc.LStep)
    (h : locValue doc (loc ++ [s]) = some v) :
    ∃ p, locValue doc loc = some p ∧ p.isContainer = true ∧ locValue p [s] = some v :=
  Lemmas.parent_location doc v loc s h

/-! ### Non-vacuity -/
example : locValue (.obj [("a'b".toList, .arr [.int 1, .str "x".toList])]) [.name "a'b".toList, .index 1]
    = some (.str "x".toList) := by rfl
example : Rfc.normalizedPath [.name "a'b".toList, .index 1] = "$['a\\'b'][1]".toList := by decide

end JP.Props.C03
