/-
  C03 — Every match location (path, parts, pointer, parent) identifies exactly that node.

  Object identity is modelled as location identity (documents are trees). The path-as-query round
  trip goes through the character-level lexer model, literal decoding and the parser model
  (`path_as_query`): the normalized path of a location compiles to the singular query of that
  location, and that query selects exactly the node there.
-/
import JP.Lemmas.Locate
import JP.Lemmas.PathQuery
namespace JP.Props.C03
open JP JP.Query JP.Pointer JP.Lemmas

/-- Every match of a standard (filter-free) query carries a location `loc` of the document: its parts are
    that location, its path string is the RFC 9535 section 2.7 normalized path of `loc`, and its value is
    the document's value at `loc`. The document must have unique member names (`doc.wf`, what
    `json.loads` produces): duplicate member names make a location ambiguous. -/
theorem match_located (rx : Rx) (segs : List Seg) (doc extra : J) (hwf : doc.wf = true)
    (hp : plainSegs segs = true) (hw : Rfc.wellFormedSegs segs = true) :
    ∀ n ∈ finditer rx ⟨segs, false⟩ doc extra,
      ∃ loc, n.parts = locParts loc ∧ n.path = Rfc.normalizedPath loc ∧ locValue doc loc = some n.val :=
  Lemmas.match_located rx segs doc extra hwf hp hw

/-- The same for every well-typed standard query, **filters at any depth included** (via the refinement
    of C02 and the fact that every node the RFC interpreter yields is a node of the document). -/
theorem match_located_typed (rx : Rx) (segs : List Seg) (doc extra : J) (hwf : doc.wf = true)
    (hwt : Rfc.wtSegs segs = true) :
    ∀ n ∈ finditer rx ⟨segs, false⟩ doc extra,
      ∃ loc, n.parts = locParts loc ∧ n.path = Rfc.normalizedPath loc ∧ locValue doc loc = some n.val :=
  Lemmas.match_located_typed rx segs doc extra hwf hwt

/-- **The path, evaluated as a query, returns exactly that one value.** For every location `loc` of the
    document: (1) its normalized path is the text the serializer prints for the singular query walking
    `loc`; (2) compiling that text — lexer model, literal decoding, parser model — gives that query;
    (3) the query selects exactly one node: the one at `loc`, with the same parts, path and value. -/
theorem path_as_query (pr : Surface.Prec) (hpr : Surface.precOK pr = true) (uw : Char → Bool) (rx : Rx)
    (doc extra v : J) (loc : List Rfc.LStep) (hwf : doc.wf = true) (h : locValue doc loc = some v) :
    Lex.compileText pr ⟨Lex.dflt, uw⟩ (Rfc.normalizedPath loc) = some ⟨Lemmas.segsOfLoc loc, false⟩ ∧
    finditer rx ⟨Lemmas.segsOfLoc loc, false⟩ doc extra = [⟨locParts loc, Rfc.normalizedPath loc, v⟩] :=
  ⟨Lemmas.normalizedPath_compiles pr hpr uw loc, Lemmas.segsOfLoc_selects rx doc extra v loc hwf h⟩

/-- Two normalized paths are equal if and only if they denote the same location. -/
theorem equal_paths_iff_same_node (a b : List Rfc.LStep) :
    Rfc.normalizedPath a = Rfc.normalizedPath b ↔ a = b :=
  ⟨Lemmas.normalizedPath_injective a b, fun h => by rw [h]⟩

/-- …and the parts identify the location too. -/
theorem equal_parts_iff_same_node (a b : List Rfc.LStep) : locParts a = locParts b ↔ a = b :=
  ⟨Lemmas.locParts_injective a b, fun h => by rw [h]⟩

/-- The JSON Pointer derived from a match's parts resolves to the matched value. -/
theorem pointer_of_match (doc v : J) (loc : List Rfc.LStep) (h : locValue doc loc = some v) :
    resolveParts doc (locParts loc) = .ok v :=
  Lemmas.pointer_of_location doc v loc h

/-- That pointer's string form, parsed again, resolves to the matched value (escape decoding disabled, or
    enabled when the string contains no backslash). -/
theorem pointer_string_of_match (dec : EscDec) (ue : Bool) (doc v : J) (loc : List Rfc.LStep)
    (h : locValue doc loc = some v)
    (hr : ∀ s ∈ loc, StepInRange (match s with | .name k => Step.name k | .index n => Step.index n))
    (hb : ue = true → (encode (locParts loc)).contains '\\' = false) :
    resolveText dec ue (encode (locParts loc)) doc = .ok v :=
  Lemmas.pointer_string_of_location dec ue doc v loc h hr hb

/-- The parent of a match is the node whose location is one step shorter: it exists, is a container, and
    the match is its child at the last step. -/
theorem parent_one_shorter (doc v : J) (loc : List Rfc.LStep) (s : Rfc.LStep)
    (h : locValue doc (loc ++ [s]) = some v) :
    ∃ p, locValue doc loc = some p ∧ p.isContainer = true ∧ locValue p [s] = some v :=
  Lemmas.parent_location doc v loc s h

/-! ### Non-vacuity -/
example : locValue (.obj [("a'b".toList, .arr [.int 1, .str "x".toList])]) [.name "a'b".toList, .index 1]
    = some (.str "x".toList) := by rfl
example : Rfc.normalizedPath [.name "a'b".toList, .index 1] = "$['a\\'b'][1]".toList := by decide

end JP.Props.C03
