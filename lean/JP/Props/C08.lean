/-
  C08 — The async API returns exactly what the sync API returns.

  The theorems are about the model of asynchronous execution in JP/Async.lean and hold for EVERY
  evaluation program, every awaitable item getter that returns the same items, and every schedule.
  That each hand-written `resolve_async` / `evaluate_async` of the implementation really runs the same
  program as its sync twin is what the correspondence run establishes (sync vs async vs model, for every
  selector kind and JSON type, filters, compound queries, custom `__getitem_async__`, `asyncio.gather`).
-/
import JP.Async
import JP.Generated.Tables
namespace JP.Props.C08
open JP JP.Async

/-- **Translated**: every `*_async` method of selectors.py / path.py / filter.py / env.py is, as source text,
    its synchronous twin with exactly the async machinery removed (`async`, `await`, the `_async` suffix of the
    methods it calls, `__getitem_async__`; `for v in e: yield v` read as `yield from e`) - except the sixteen listed in
    `JP.Async.inherentlyDifferentTwins`, about whose text nothing is claimed (they are tied by the correspondence run,
    which is widened when their difference is not the one that was read). Together with `async_eq_sync` (the same
    evaluation program gives the same result run synchronously or asynchronously) this is what makes the asynchronous
    API compute what the synchronous one computes. Editing one twin without the other breaks this `decide`; editing
    both alike does not. -/
theorem twins_ok : twinsOK Generated.asyncTwins = true := by decide

theorem run_bind {α β} (m : Co α) (f : α → Co β) : (m.bind f).run = (f m.run).run := by
  induction m with
  | done a => rfl
  | pause k ih => simp only [Co.bind, Co.run]; exact ih ()

/-- Advancing a coroutine by one step does not change what it finally returns. -/
theorem run_step {α} (c : Co α) : c.step.run = c.run := by
  cases c <;> rfl

/-- **Async = sync**: for every evaluation program, running it asynchronously with an awaitable item
    getter that returns the same items as plain indexing produces the result of the synchronous run —
    however many suspension points the getter and the `async for`s introduce. -/
theorem async_eq_sync {α} (g : J → Part → Co (Option J))
    (hg : ∀ obj key, (g obj key).run = getitemPlain obj key) (e : Eval α) :
    (e.runAsync g).run = e.runSync := by
  induction e with
  | ret a => rfl
  | get obj key k ih =>
    simp only [Eval.runAsync, Co.run, Eval.runSync]
    rw [run_bind, hg]
    exact ih _

/-- The default getter (plain containers: no `__getitem_async__`) answers immediately. -/
theorem default_getter_ok : ∀ obj key, (Co.done (getitemPlain obj key)).run = getitemPlain obj key :=
  fun _ _ => rfl

/-- A getter that suspends any number of times before answering still "returns the same items". -/
def delayed {α} : Nat → α → Co α
  | 0, a => .done a
  | n + 1, a => .pause (fun _ => delayed n a)

theorem delayed_run {α} (n : Nat) (a : α) : (delayed n a).run = a := by
  induction n with
  | zero => rfl
  | succ n ih => simpa [delayed, Co.run] using ih

theorem custom_getitem {α} (delay : J → Part → Nat) (e : Eval α) :
    (e.runAsync (fun o k => delayed (delay o k) (getitemPlain o k))).run = e.runSync :=
  async_eq_sync _ (fun _ _ => delayed_run _ _) e

theorem runLoop_length {α} (sched : List Nat) (cs : List (Co α)) : (runLoop sched cs).length = cs.length := by
  induction sched generalizing cs with
  | nil => rfl
  | cons i sched ih =>
    simp only [runLoop]
    cases h : cs[i]? with
    | none => exact ih cs
    | some c => rw [ih]; simp

/-- **Schedule independence**: several evaluations awaited concurrently on one event loop, advanced in
    ANY order for any number of steps, each still finish with their own result. (An evaluation's only
    mutable state - its cache cells and iterators - is private to it; see C09.) -/
theorem schedule_independent {α} (sched : List Nat) (cs : List (Co α)) :
    (runLoop sched cs).map Co.run = cs.map Co.run := by
  induction sched generalizing cs with
  | nil => rfl
  | cons i sched ih =>
    simp only [runLoop]
    cases h : cs[i]? with
    | none => exact ih cs
    | some c =>
      rw [ih]
      apply List.ext_getElem?
      intro j
      simp only [List.getElem?_map]
      by_cases hij : i = j
      · subst hij
        have hlt : i < cs.length := by
          rcases List.getElem?_eq_some_iff.mp h with ⟨hl, _⟩; exact hl
        simp [List.getElem?_set_self hlt, h, run_step]
      · simp [List.getElem?_set_ne hij]

/-- Concurrent async evaluations of any programs with any delayed getters return the sync results. -/
theorem gather_eq_sync {α} (sched : List Nat) (es : List (Eval α)) (delay : J → Part → Nat) :
    (runLoop sched (es.map (fun e => e.runAsync (fun o k => delayed (delay o k) (getitemPlain o k))))).map Co.run
      = es.map Eval.runSync := by
  rw [schedule_independent, List.map_map]
  apply List.map_congr_left
  intro e _
  exact custom_getitem delay e

/-! ### Non-vacuity -/
example : (Eval.get (.arr [.int 7]) (.idx 0) (fun r => .ret r)).runSync = some (.int 7) := by rfl
example : ((Eval.get (.arr [.int 7]) (.idx 0) (fun r => Eval.ret r)).runAsync
    (fun o k => delayed 3 (getitemPlain o k))).run = some (.int 7) := by rfl

end JP.Props.C08
