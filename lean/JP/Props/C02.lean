/-
  C02 — RFC 9535 filter expressions select exactly the nodes the RFC makes true.

  `Query.evalExpr/evalSel/evalSegs` model filter.py / env.py / selectors.py (dynamically typed
  evaluation, node-list unwrapping, `compare`, `is_truthy`, the five functions); `Rfc.logical`,
  `Rfc.valueOf`, `Rfc.cmp` are the typed RFC 9535 semantics. `Rfc.wtSegs/wtLogical/wtComparable`
  is RFC well-typedness. Statements hold for every document, every expression at any nesting depth,
  and every regex engine `rx`.
-/
import JP.Lemmas.Filter
import JP.Lemmas.Patch
import JP.Lemmas.RfcSpellF
namespace JP.Props.C02
open JP JP.Query JP.Lemmas

/-- **Comparison table**, for ALL values (not a finite universe): on operands that represent RFC
    `ValueType` values (Nothing = empty node list or `UNDEFINED`), the code's `compare` equals the
    RFC 9535 section 2.3.5.2.2 definition for all six operators. -/
theorem compare_refines_rfc (rx : Rx) (op : CmpOp) (hop : isCmpOp op = true)
    (va vb : V) (a b : Option J) (ha : RepV va a) (hb : RepV vb b) :
    compare rx va op vb = Rfc.cmp op a b :=
  Lemmas.compare_refines_rfc rx op hop va vb a b ha hb

/-- An absent value equals only another absent value. -/
theorem absent_equals_only_absent (rx : Rx) (va vb : V) (b : J) (ha : RepV va none) (hb : RepV vb (some b)) :
    compare rx va .eq vb = false ∧ compare rx vb .eq va = false ∧
    (∀ vc, RepV vc none → compare rx va .eq vc = true) :=
  Lemmas.absent_equals_only_absent rx va vb b ha hb

/-- `<` (hence `<= > >=` beyond equality) holds only between two numbers or two strings. -/
theorem ordering_only_numbers_or_strings (a b : J) (h : Rfc.cmpLt (some a) (some b) = true) :
    (∃ x y, a = .str x ∧ b = .str y) ∨ ((Rfc.isNumber a).isSome ∧ (Rfc.isNumber b).isSome) :=
  Lemmas.ordering_only_numbers_or_strings a b h

/-- Equality is deep and never identifies a boolean with a number, at any depth (equal values have the
    same JSON type at every position). -/
theorem equality_deep_never_bool_num (a b : J) (h : a.eqv b = true) : Lemmas.sameShape a b = true :=
  Lemmas.eqv_sameShape a b h

/-- A bare query is an existence test regardless of the value found. -/
theorem existence_not_truthiness (env : Env) (cur : J) (key : Option Part) (q : List Seg) :
    isTruthy (evalExpr env cur key (.self q)) = !(evalSegs env q [⟨[], env.rootTok, cur⟩]).isEmpty ∧
    isTruthy (evalExpr env cur key (.root q false)) = !(evalSegs env q [⟨[], env.rootTok, env.root⟩]).isEmpty :=
  Lemmas.existence_not_truthiness env cur key q

/-- **Logical expressions**: every well-typed filter expression is true in the code exactly when RFC
    9535 makes it true — `$` is the query argument (`env.root`) and `@` the candidate at every depth. -/
theorem logical_refines_rfc (env : Env) (renv : Rfc.REnv) (hag : EnvAgree env renv)
    (cur : J) (key : Option Part) (e : Expr) (hwt : Rfc.wtLogical e = true) :
    isTruthy (evalExpr env cur key e) = Rfc.logical renv cur e :=
  Lemmas.logical_refines_rfc env renv hag cur key e hwt

/-- **Filter selectors in queries**: for every well-typed standard query (filters nested to any depth,
    inside child and descendant segments), the matches are exactly the RFC nodelist. -/
theorem filter_refines_rfc (rx : Rx) (segs : List Seg) (doc extra : J) (hwt : Rfc.wtSegs segs = true) :
    RepresentsAll (finditer rx ⟨segs, false⟩ doc extra) (Rfc.query rx segs doc) := by
  unfold finditer Rfc.query
  exact Lemmas.segs_refines_rfc_wt _ ⟨rx, doc⟩ ⟨rfl, rfl, rfl⟩ segs _ _ hwt ⟨⟨rfl, rfl, rfl⟩, trivial⟩

/-! ## Spellings of filter queries (character level) -/

/-- **Every RFC 9535 spelling of a query with filter selectors compiles to that query.**
    `RfcSpellF.QuerySpellF segs text` is the RFC grammar of sections 2.1-2.5 including `filter-selector`,
    `logical-or-expr` / `logical-and-expr` chains, parenthesised expressions and `!`, test expressions, comparisons
    of literals (RFC numbers with fractions and exponents, strings in either quote style with any escapes,
    `true` / `false` / `null`), singular and general queries, function calls with arguments, nested filters, and
    blanks wherever the grammar allows `S` — written from the ABNF in `JP/RfcSpellF.lean`. The composed model of
    compile (character-level lexer, literal decoding, Pratt parser with the translated precedence table) returns
    exactly `segs`: operator precedence, grouping and the reading of every literal are as the RFC's grammar says.
    (`||` / `&&` chains associate to the right in the parser's abstract syntax, which is what the grammar relation
    records; an argument of a function may not begin with `!` or `(` - such calls are ill-typed for the five
    standard functions.) -/
theorem any_filter_spelling_compiles (pr : Surface.Prec) (hpr : Surface.precOK pr = true) (uw : Char → Bool) (segs : List Seg) (text : Str)
    (h : RfcSpellF.QuerySpellF segs text) :
    Lex.compileText pr ⟨Lex.dflt, uw⟩ text = some ⟨segs, false⟩ :=
  Lemmas.rfc_filter_spelling_compiles pr hpr uw segs text h

/-- **From text to nodelist**: for every RFC spelling `text` of a well-typed query `segs`, compiling the text (lexer,
    literal decoding, parser models) and evaluating the result (evaluator model) yields exactly the RFC 9535 nodelist
    of `segs` on every document — values, order, duplicates, locations and normalized paths. -/
theorem spelled_query_selects_rfc_nodelist (pr : Surface.Prec) (hpr : Surface.precOK pr = true) (uw : Char → Bool) (rx : Rx)
    (segs : List Seg) (text : Str) (doc extra : J) (h : RfcSpellF.QuerySpellF segs text) (hwt : Rfc.wtSegs segs = true) :
    ∃ p, Lex.compileText pr ⟨Lex.dflt, uw⟩ text = some p ∧ RepresentsAll (finditer rx p doc extra) (Rfc.query rx segs doc) :=
  ⟨⟨segs, false⟩, Lemmas.rfc_filter_spelling_compiles pr hpr uw segs text h, filter_refines_rfc rx segs doc extra hwt⟩

/-! ### Non-vacuity -/
example : Rfc.wtSegs [.child [.filter (.infix (.infix (.self [.child [.name ['a']]]) .lt (.int 2)) .and
    (.not (.func "match".toList [.self [.child [.name ['s']]], .str "a.*".toList])))]] = true := by decide
example : RepV (.nodes []) none ∧ RepV .undef none ∧ RepV (.val (.int 1)) (some (.int 1)) := by
  simp [RepV]

end JP.Props.C02
