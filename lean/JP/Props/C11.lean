/-
  C11 — All query entry points agree with one another on every input.

  `compoundFinditer` / `compoundFindall` model `CompoundJSONPath.finditer` / `.findall`
  (path.py), for any number of `|` / `&` operands. Environment-level entry points are
  `compile` followed by the compiled method (delegation is a correspondence fact), and the
  document forms (text, file) are compared on the implementation.
-/
import JP.Query
namespace JP.Props.C11
open JP JP.Query

/-- The specification of a compound query: the left result, then for each operand left to right either
    the right result appended (union) or the left restricted to values also produced by the right
    (intersection). -/
def compoundSpec (results : List (Bool × List J)) (first : List J) : List J :=
  results.foldl (fun acc (isUnion, right) =>
    if isUnion then acc ++ right else acc.filter (fun v => inObjs v right)) first

private theorem foldl_map_val (rx : Rx) (doc extra : J) (rest : List (Bool × Path)) (acc : List Node) :
    (rest.foldl (fun acc (p : Bool × Path) =>
        let more := finditer rx p.2 doc extra
        if p.1 then acc ++ more else acc.filter (fun m => inObjs m.val (more.map (·.val)))) acc).map (·.val)
    = rest.foldl (fun objs (p : Bool × Path) =>
        let more := findall rx p.2 doc extra
        if p.1 then objs ++ more else objs.filter (fun o => inObjs o more)) (acc.map (·.val)) := by
  induction rest generalizing acc with
  | nil => rfl
  | cons p rest ih =>
    simp only [List.foldl_cons]
    rw [ih]
    congr 1
    cases p.1 <;> simp [findall, List.filter_map, Function.comp_def]

/-- **find-all is the list of values of find-iter**, for compound queries with any number of operands. -/
theorem findall_eq_finditer (rx : Rx) (c : Compound) (doc extra : J) :
    compoundFindall rx c doc extra = (compoundFinditer rx c doc extra).map (·.val) := by
  unfold compoundFindall compoundFinditer
  have h := foldl_map_val rx doc extra c.rest (finditer rx c.first doc extra)
  simp only [findall] at h ⊢
  exact h.symm

/-- For a simple query the same holds by definition. -/
theorem findall_eq_finditer_simple (rx : Rx) (p : Path) (doc extra : J) :
    findall rx p doc extra = (finditer rx p doc extra).map (·.val) := rfl

/-- **Compound semantics**: union is the left result followed by the right one, intersection is the left
    result restricted to values also produced by the right one, applied left to right. -/
theorem compound_spec (rx : Rx) (c : Compound) (doc extra : J) :
    compoundFindall rx c doc extra =
      compoundSpec (c.rest.map (fun p => (p.1, findall rx p.2 doc extra))) (findall rx c.first doc extra) := by
  unfold compoundFindall compoundSpec
  rw [List.foldl_map]

/-- `match` is the first element of find-iter, or nothing when it is empty (`next(iter(...))`). -/
def matchOf (rx : Rx) (c : Compound) (doc extra : J) : Option Node := (compoundFinditer rx c doc extra).head?

theorem match_is_head (rx : Rx) (c : Compound) (doc extra : J) :
    (matchOf rx c doc extra).map (·.val) = (compoundFindall rx c doc extra).head? := by
  rw [findall_eq_finditer]; simp [matchOf]

/-- A query without operators is its first path. -/
theorem no_operands (rx : Rx) (p : Path) (doc extra : J) :
    compoundFinditer rx ⟨p, []⟩ doc extra = finditer rx p doc extra ∧
    compoundFindall rx ⟨p, []⟩ doc extra = findall rx p doc extra := ⟨rfl, rfl⟩

/-- The pre-repair generator-expression code (all intersection filters see the objects of the last
    intersection operand) is NOT equivalent: a three-operand intersection on which it differs. -/
theorem late_binding_differs :
    ∃ (rx : Rx) (c : Compound) (doc : J),
      (compoundFinditerLateBound rx c doc (.obj [])).length ≠ (compoundFindall rx c doc (.obj [])).length := by
  refine ⟨⟨fun _ _ _ => none, fun _ _ => none⟩,
    ⟨⟨[.child [.name ['a']], .child [.wild]], false⟩,
     [(false, ⟨[.child [.name ['b']], .child [.wild]], false⟩), (false, ⟨[.child [.name ['c']], .child [.wild]], false⟩)]⟩,
    .obj [(['a'], .arr [.int 1, .int 2, .int 3]), (['b'], .arr [.int 1, .int 2]), (['c'], .arr [.int 2, .int 3])], ?_⟩
  decide

/-! ### Non-vacuity -/
example : compoundSpec [(true, [.int 3]), (false, [.int 3, .int 1])] [.int 1, .int 2] = [.int 1, .int 3] := by rfl

/-- Intersection is by JSON value: a value of the left result is kept exactly when the right result holds a value equal
    to it as JSON (`J.eqv`) - a number is not found among booleans. -/
theorem intersection_by_json_value (v : J) (objs : List J) : inObjs v objs = objs.any (fun o => v.eqv o) := rfl

example : inObjs (.int 1) [.bool true] = false ∧ inObjs (.int 2) [.flt 16] = true := by decide

end JP.Props.C11
