/-
  C16 — Relative JSON Pointers are parsed, printed and applied per the draft.

  `RelPointer.parse/toStr/applyTo` model `RelativeJSONPointer` (pointer.py); `RelSpec`,
  `specText`, `specApply` are the draft's grammar and evaluation on reference tokens.
  Origin and offset have ANY number of digits (up to CPython's 4300-digit `int()` limit).
-/
import JP.Lemmas.RelPointer
import JP.Generated.Tables
namespace JP.Props.C16
open JP JP.Pointer JP.RelPointer JP.Lemmas

/-- Printing a parsed relative pointer returns its text. -/
theorem rel_print_parse (dec : EscDec) (ue : Bool) (r : RelSpec) (hok : RelOk r) :
    (RelPointer.parse dec ue (specText r)).map toStr = .ok (specText r) := by
  exact Lemmas.rel_print_parse dec ue r hok

/-- Applying a relative pointer yields exactly the pointer the draft defines (as reference tokens),
    and the applications the draft forbids are refused with `RelativeJSONPointerIndexError`. -/
theorem rel_apply_spec (dec : EscDec) (ue : Bool) (r : RelSpec) (base : List Str)
    (hok : RelOk r) (hbase : BaseOk base) :
    match specApply r base with
    | some ts => (applyText dec ue (specText r) (spellTokens base)).map tokens = .ok ts
    | none => applyText dec ue (specText r) (spellTokens base) = .error .relIndex := by
  exact Lemmas.rel_apply_spec dec ue r base hok hbase

/-- **Any base pointer that exists already** - parsed earlier, built from parts, or the result of a previous
    application - whose tokens may hold any characters (backslashes, percent signs, blank space): applying a
    relative pointer yields the draft's tokens; the base's tokens are not decoded a second time. The only
    condition left is the library's negative-index extension: no base token is a negative index. -/
theorem rel_apply_parts (dec : EscDec) (ue : Bool) (r : RelSpec) (base : List Str)
    (hneg : ∀ t ∈ base, ∀ i, parseIndexToken t = some i → 0 ≤ i) :
    applyTo dec ue ⟨r.origin, r.offset, sufOf r⟩ (base.map tokPart) =
      match specApply r base with
      | some ts => .ok (ts.map Part.key)
      | none => .error .relIndex :=
  Lemmas.rel_apply_parts dec ue r base hneg

/-- The library's negative index tokens in a base, stated outright (the draft has none; `rel_apply_parts` excludes them):
    the offset is added to `-k` arithmetically, a result below zero is refused, otherwise the sum is the new token. -/
theorem negative_base_offset (dec : EscDec) (ue : Bool) (pre : List Part) (k : Nat) (o : Int) (ho : o ≠ 0) :
    applyTo dec ue ⟨0, o, .ptr []⟩ (pre ++ [.idx (-(k : Int))]) =
      (if -(k : Int) + o < 0 then .error .relIndex
       else fromParts dec false (pre ++ [.idx (-(k : Int) + o)])) := by
  simp [applyTo, ho, intLike, List.getLast?_append, List.dropLast_append_of_ne_nil, bind, Except.bind, pure, Except.pure]
  split <;> rfl

/-- The forbidden applications are exactly: more steps than the base has tokens, an offset that makes
    the index negative, `#` at the root. -/
theorem rel_refusals (r : RelSpec) (base : List Str) :
    specApply r base = none ↔
      (r.origin > base.length ∨
       (r.offset ≠ 0 ∧ ∃ last, (base.take (base.length - r.origin)).getLast? = some last ∧
          isCanonNat last = true ∧ (digitsVal last : Int) + r.offset < 0) ∨
       (r.hash = true ∧ r.origin ≤ base.length ∧ base.take (base.length - r.origin) = [])) := by
  exact Lemmas.rel_refusals r base

/-- **Translated tables** (regenerated from pointer.py on every run): the relative-pointer pattern and the
    index-token pattern in the source are the ones `reMatch` / `parseIndexToken` model. -/
theorem source_tables_ok :
    Generated.reRelativePointer = "(?P<ORIGIN>[0-9]+)(?P<INDEX_G>(?P<SIGN>[+\\-])(?P<INDEX>[0-9]+))?(?P<POINTER>.*)" ∧
    Generated.reIndexToken = "(?:0|-?[1-9][0-9]*)" := by decide

/-! ### Non-vacuity -/
-- blank space at the end of the suffix belongs to its last token; a base token with a backslash stays as it is
example : (RelPointer.parse (fun _ => none) true "0/foo ".toList).map toStr = .ok "0/foo ".toList := by rfl
example : applyTo (fun _ => none) true ⟨0, 0, .ptr []⟩ [.key "a".toList, .key "\\u0041".toList]
    = .ok [.key "a".toList, .key "\\u0041".toList] := by rfl
example : specText ⟨1, -12, false, ["a/b".toList, "é".toList]⟩ = "1-12/a~1b/é".toList := by decide
example : specApply ⟨1, 12, false, ["x".toList]⟩ ["a".toList, "2".toList, "b".toList]
    = some ["a".toList, "14".toList, "x".toList] := by decide
example : specApply ⟨0, 0, true, []⟩ [] = none := by decide

end JP.Props.C16
