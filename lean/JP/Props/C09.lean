/-
  C09 — Evaluation is pure: read-only, repeatable, unaffected by caching or interleaving.

  In the model, evaluation is a mathematical function of (compiled query, document, filter context):
  `Query.finditer rx path doc extra` — so "the same on the first and the hundredth use, after other
  documents, and after recompilation" holds by construction of the model, and the substance is in
  showing that the *stateful* parts of the implementation cannot be observed: the cache cells
  (`cache_transparent`) and the lazily advanced iterators (`interleave_independent`). That the
  implementation really is this model - including that it does not write to the document, the filter
  context or the compiled query - is the correspondence's job (histories with before/after comparison).
-/
import JP.Lemmas.Cache
namespace JP.Props.C09
open JP JP.Query JP.Cache JP.Lemmas

/-- The volatility and FORCE_CACHE decisions hard-coded in the model are those of the current source. -/
theorem class_table_ok : classTableOK Generated.filterClasses = true := by decide

/-- **Soundness of the volatility analysis**: a sub-expression classified non-volatile evaluates to the
    same value for every candidate node and key of a filter resolution (it depends only on the root,
    the filter context and constants). This is the lemma a wrongly classified node breaks. -/
theorem nonvolatile_ctx_independent (env : Env) (e : Expr) (h : volatile e = false)
    (c1 c2 : J) (k1 k2 : Option Part) :
    evalExpr env c1 k1 e = evalExpr env c2 k2 e :=
  Lemmas.nonvolatile_ctx_independent env e h c1 c2 k1 k2

/-- **Cache invariant**: evaluating any sub-expression through the cache tree returns its plain value
    and keeps every filled cell equal to the plain value of the sub-expression at its position. -/
theorem evalC_transparent (env : Env) (E e : Expr) (p : Pos) (cs : Cells) (cur : J) (key : Option Part)
    (hsub : subAt E p = some e) (hok : CellsOK env E cs) :
    (evalC env cur key e p cs).1 = evalExpr env cur key e ∧ CellsOK env E (evalC env cur key e p cs).2 :=
  Lemmas.evalC_transparent env E e p cs cur key hsub hok

/-- **Caching on = caching off**: for any filter expression and any sequence of candidates of one
    resolution, the cached evaluation selects exactly the candidates the plain evaluation selects. -/
theorem cache_transparent (env : Env) (e : Expr) (cands : List (J × Option Part)) :
    resolveCached env e cands = resolvePlain env e cands :=
  Lemmas.cache_transparent env e cands

/-- The cache is created per resolution: a resolution's result does not depend on what earlier
    resolutions (other documents, earlier uses of the same compiled query) put in *their* cells. -/
theorem fresh_cache_per_resolution (env env' : Env) (e e' : Expr) (cands cands' : List (J × Option Part)) :
    (resolveCached env' e' cands', resolveCached env e cands).2 = resolvePlain env e cands :=
  Lemmas.cache_transparent env e cands

/-- **Interleaving**: when several lazy result iterators are advanced in ANY interleaving, what iterator
    `i` has yielded so far followed by what it still has to yield is exactly its own result sequence. -/
theorem interleave_independent {α : Type} (sched : List Nat) (gens : List (List α)) (i : Nat) :
    (((interleave sched gens).1.filter (fun t => t.1 == i)).map (·.2)) ++ ((interleave sched gens).2[i]?.getD [])
      = gens[i]?.getD [] :=
  Lemmas.interleave_independent sched gens i

/-- Re-compiling the same text gives an equal, equally-behaving query: the compiled query is a value
    and evaluation is a function of it. -/
theorem recompile_equal (rx : Rx) (p q : Path) (h : p = q) (doc extra : J) :
    finditer rx p doc extra = finditer rx q doc extra := by rw [h]

/-! ### Non-vacuity -/
example : volatile (.infix (.root [.child [.name ['k']]] false) .eq (.int 1)) = false ∧
    cached (.infix (.root [.child [.name ['k']]] false) .eq (.int 1)) = true ∧
    volatile (.infix (.self []) .eq (.root [] false)) = true := by decide
example : (interleave [0, 1, 1, 0, 2] [[1, 2, 3], [10, 20]]).1 = [(0, 1), (1, 10), (1, 20), (0, 2)] := by decide

end JP.Props.C09
