/-
  C05 — JSON Patch application conforms to RFC 6902 for every document and patch.

  `Patch.apply` is the code-shaped model of `JSONPatch.apply` (patch.py); `Patch.rfcApply` is
  RFC 6902 section 4 on immutable values and reference tokens. Statements quantify over all
  documents and all operation sequences whose pointers avoid the documented pointer
  extensions (negative indices, `#`/`~`-prefixed tokens, integers beyond the index limit).
-/
import JP.Lemmas.Patch
import JP.Lemmas.NegIndex
namespace JP.Props.C05
open JP JP.Pointer JP.Patch

/-- **Main refinement theorem**: for every document and every sequence of standard operations,
    applying the patch returns exactly the document RFC 6902 defines, fails with the dedicated
    test-failure error exactly when a `test` finds a different value, and fails with a patch error
    exactly when some operation violates the RFC. -/
theorem apply_refines_rfc (doc : J) (ops : List SOp) (hstd : ∀ op ∈ ops, op.standard) :
    Refines (Patch.apply (ops.map opOfSpec) doc) (rfcApply ops doc) := by
  exact Lemmas.apply_refines_rfc doc ops hstd

/-- Well-formedness (no duplicate member names at any depth) is preserved by every successful patch
    whose values are well-formed. -/
theorem wf_preserved (doc d : J) (ops : List SOp) (hstd : ∀ op ∈ ops, op.standard)
    (hdoc : doc.wf = true)
    (hvals : ∀ op ∈ ops, ∀ p v, (op = .add p v ∨ op = .replace p v) → v.wf = true)
    (h : Patch.apply (ops.map opOfSpec) doc = .ok d) : d.wf = true := by
  exact Lemmas.wf_preserved doc d ops hstd hdoc hvals h

/-! ### Named corollaries (so that none of the listed behaviours can be weakened silently) -/

/-- Inserting at an index equal to the array length appends, for `add`.
    (Arrays longer than the index limit are outside the pointer index range.) -/
theorem add_at_length (xs : List J) (v : J) (hr : (xs.length : Int) ≤ maxIntIndex) :
    applyOp (.arr xs) (.add [toPart (natStr xs.length)] v) = .ok (.arr (xs ++ [v])) := by
  exact Lemmas.add_at_length xs v hr

/-- `-` appends, for `add`. -/
theorem add_dash (xs : List J) (v : J) :
    applyOp (.arr xs) (.add [.key ['-']] v) = .ok (.arr (xs ++ [v])) := by
  exact Lemmas.add_dash xs v

/-- `-` appends for `move` and `copy` alike (member `a` moved/copied to the end of array `b`). -/
theorem move_copy_dash (a b : Str) (hab : a ≠ b) (v : J) (xs : List J) :
    applyOp (.obj [(a, v), (b, .arr xs)]) (.copy [.key a] [.key b, .key ['-']])
      = .ok (.obj [(a, v), (b, .arr (xs ++ [v]))]) ∧
    applyOp (.obj [(a, v), (b, .arr xs)]) (.move [.key a] [.key b, .key ['-']])
      = .ok (.obj [(b, .arr (xs ++ [v]))]) := by
  exact Lemmas.move_copy_dash a b hab v xs

/-- An index greater than the length fails with a patch error (add). -/
theorem index_gt_length_fails (xs : List J) (v : J) (n : Nat) (h : xs.length < n)
    (hr : (n : Int) ≤ maxIntIndex) :
    ∃ e, Patch.apply [.add [toPart (natStr n)] v] (.arr xs) = .error e ∧ e.isPatchFamily = true := by
  exact Lemmas.index_gt_length_fails xs v n h hr

/-- A non-canonical index (leading zero) fails with a patch error. -/
theorem noncanonical_index_fails (xs : List J) (v : J) (t : Str)
    (ht : parseIndexToken t = none) (hd : t ≠ ['-']) (hh : t.head? ≠ some '#') :
    ∃ e, Patch.apply [.add [toPart t] v] (.arr xs) = .error e ∧ e.isPatchFamily = true := by
  exact Lemmas.noncanonical_index_fails xs v t ht hd hh

/-- Objects whose member names look like integers: `add "/1"` sets the member named `"1"`. -/
theorem integer_like_member_names (kvs : List (Str × J)) (v : J) (n : Nat) (hr : (n : Int) ≤ maxIntIndex) :
    applyOp (.obj kvs) (.add [toPart (natStr n)] v) = .ok (.obj (dictSet kvs (natStr n) v)) ∧
    (dictHas kvs (natStr n) = true →
      applyOp (.obj kvs) (.remove [toPart (natStr n)]) = .ok (.obj (dictErase kvs (natStr n)))) := by
  exact Lemmas.integer_like_member_names kvs v n hr

/-- Replacing or producing the root. -/
theorem replace_root (doc v : J) :
    applyOp doc (.replace [] v) = .ok v ∧ applyOp doc (.add [] v) = .ok v := by
  exact Lemmas.replace_root doc v

/-- Moving a value into one of its own children fails with a patch error. -/
theorem move_into_own_child_fails (doc : J) (src : List Str) (t : Str) (more : List Str) :
    ∃ e, Patch.apply [opOfSpec (.move src (src ++ t :: more))] doc = .error e ∧ e.isPatchFamily = true := by
  exact Lemmas.move_into_own_child_fails doc src t more

/-- `test` equality never identifies a boolean with a number … -/
theorem test_no_bool_num (b : Bool) (i : Int) :
    (J.bool b).eqv (.int i) = false ∧ (J.bool b).eqv (.flt i) = false ∧
    (J.int i).eqv (.bool b) = false ∧ (J.flt i).eqv (.bool b) = false := by
  exact Lemmas.eqv_no_bool_num b i

/-- … at any depth: equal values have equal "shapes" (same JSON type at every position). -/
theorem test_deep (a b : J) (h : a.eqv b = true) : Lemmas.sameShape a b = true := by
  exact Lemmas.eqv_sameShape a b h

/-- `test` equality is reflexive on well-formed values (so `test` with the value found there passes). -/
theorem test_refl (a : J) (h : a.wf = true) : a.eqv a = true := by
  exact Lemmas.eqv_refl a h

/-! ### The library's negative index extension in patch targets, stated outright (RFC 6902 has no such index; the
    refinement theorem above is about non-extension tokens) -/

/-- `remove` at `-k` (1 ≤ k ≤ length) removes the element `length - k`. -/
theorem negative_index_remove (xs : List J) (k : Nat) (hk : 1 ≤ k) (hl : k ≤ xs.length) :
    applyOp (.arr xs) (.remove [.idx (-(k : Int))]) = .ok (.arr (xs.eraseIdx (xs.length - k))) := by
  have hlt : xs.length - k < xs.length := by omega
  have hg : getitem (.arr xs) (.idx (-(k : Int))) = .ok xs[xs.length - k] := by
    simp [getitem, Lemmas.pyListGet_neg xs k hk, hl, List.getElem?_eq_getElem hlt]; rfl
  simp [applyOp, applyRemove, target, resolveParent, resolveParts, hg, delArr, tokenInt, Lemmas.pyIndexPos_neg xs.length k hk hl,
    writeBack, bind, Except.bind, pure, Except.pure]

/-- `replace` at `-k` sets the element `length - k`. -/
theorem negative_index_replace (xs : List J) (k : Nat) (v : J) (hk : 1 ≤ k) (hl : k ≤ xs.length) :
    applyOp (.arr xs) (.replace [.idx (-(k : Int))] v) = .ok (.arr (xs.set (xs.length - k) v)) := by
  have hlt : xs.length - k < xs.length := by omega
  have hg : getitem (.arr xs) (.idx (-(k : Int))) = .ok xs[xs.length - k] := by
    simp [getitem, Lemmas.pyListGet_neg xs k hk, hl, List.getElem?_eq_getElem hlt]; rfl
  simp [applyOp, applyReplace, target, resolveParent, resolveParts, hg, setArr, tokenInt, Lemmas.pyIndexPos_neg xs.length k hk hl,
    writeBack, bind, Except.bind, pure, Except.pure]

/-- Beyond the array (`k > length`) both are patch errors. -/
theorem negative_index_out_of_range (xs : List J) (k : Nat) (v : J) (hl : xs.length < k) :
    (∃ e, applyOp (.arr xs) (.remove [.idx (-(k : Int))]) = .error e ∧ e.isPatchFamily = true) ∧
    (∃ e, applyOp (.arr xs) (.replace [.idx (-(k : Int))] v) = .error e ∧ e.isPatchFamily = true) := by
  have hk : 1 ≤ k := by omega
  have hg : getitem (.arr xs) (.idx (-(k : Int))) = .error .ptrIndex := by
    have : ¬ k ≤ xs.length := by omega
    simp [getitem, Lemmas.pyListGet_neg xs k hk, this]; rfl
  constructor
  · refine ⟨.patch, ?_, rfl⟩
    simp [applyOp, applyRemove, target, resolveParent, resolveParts, hg, bind, Except.bind, pure, Except.pure]; rfl
  · refine ⟨.patch, ?_, rfl⟩
    simp [applyOp, applyReplace, target, resolveParent, resolveParts, hg, bind, Except.bind, pure, Except.pure]; rfl

/-! ### Non-vacuity -/

example : (SOp.add ["a".toList, "1".toList] (.int 9)).standard := by
  intro t ht
  simp [SOp.tokens] at ht
  rcases ht with rfl | rfl <;> decide

example : rfcApply [.add ["a".toList, "1".toList] (.int 9), .move ["a".toList, "0".toList] ["b".toList]]
    (.obj [("a".toList, .arr [.int 1, .int 2])])
    = .ok (.obj [("a".toList, .arr [.int 9, .int 2]), ("b".toList, .int 1)]) := by rfl

end JP.Props.C05
