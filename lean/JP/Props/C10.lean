/-
  C10 — A compiled query's string form recompiles to an equivalent query.

  Token level: `Surface.ptoksPath` is the token sequence of the serializer's output, `Surface.parseQuery`
  the parser (Pratt loop, prefix / grouped / function / list / selector-list parsing) with the precedence
  table regenerated from parse.py. That the lexer turns the printed *text* into exactly these tokens
  (string escapes, number spellings, identifier tokens) is tied by the correspondence run.
-/
import JP.Lemmas.Surface
import JP.Lemmas.Lex
namespace JP.Props.C10
open JP JP.Query JP.Surface JP.Lemmas

/-- **Translated tables**: the parser's precedence table satisfies the ordering the proof needs, the
    serializer's precedence constants are the ones the model prints with, and the operator spellings are
    the ones the model's operators stand for. Swapping the precedence of `&&` and `||`, or dropping an
    operator, makes this `decide` fail. -/
theorem tables_ok :
    precOK (precOfGenerated Generated.parserPrecConsts Generated.precedences) = true ∧
    serializerConstsOK Generated.filterPrecConsts = true ∧
    binaryOperatorsOK Generated.binaryOperators = true := by decide

/-- **Round trip**: for every query the parser can produce, parsing the tokens of its string form gives the
    same query back — operator grouping, negation scope, string contents, numeric values, regex flags,
    fake root and other identifiers included — up to printing an omitted slice step as the step 1. -/
theorem str_recompiles (pr : Prec) (hpr : precOK pr = true) (p : Path) (hp : parsedSegs p.segs = true) :
    parseQuery pr (ptoksPath p) = .ok ⟨normSegs p.segs, p.fake⟩ :=
  Lemmas.parse_ptoks pr hpr p hp

/-- **Equivalent**: the recompiled query returns the same matches on every document and filter context. -/
theorem recompiled_equivalent (rx : Rx) (p : Path) (doc extra : J) :
    finditer rx ⟨normSegs p.segs, p.fake⟩ doc extra = finditer rx p doc extra := by
  unfold finditer
  exact Lemmas.eval_normSegs _ p.segs _

/-- **Fixed point**: converting the recompiled query to text gives the same text (tokens) again, and
    recompiling that gives the same query again. -/
theorem str_fixed_point (pr : Prec) (hpr : precOK pr = true) (p : Path) (hp : parsedSegs p.segs = true) :
    ptoksPath ⟨normSegs p.segs, p.fake⟩ = ptoksPath p ∧
    parseQuery pr (ptoksPath ⟨normSegs p.segs, p.fake⟩) = .ok ⟨normSegs p.segs, p.fake⟩ := by
  have h1 : ptoksPath ⟨normSegs p.segs, p.fake⟩ = ptoksPath p := by
    simp only [ptoksPath]; rw [Lemmas.ptoks_normSegs]
  refine ⟨h1, ?_⟩
  rw [h1]; exact Lemmas.parse_ptoks pr hpr p hp

/-- Compound queries print operand by operand with their union / intersection tokens, so the structure is
    preserved by the per-path round trip. -/
theorem compound_roundtrip (pr : Prec) (hpr : precOK pr = true) (c : Compound)
    (h0 : parsedSegs c.first.segs = true) (hr : ∀ x ∈ c.rest, parsedSegs x.2.segs = true) :
    parseQuery pr (ptoksPath c.first) = .ok ⟨normSegs c.first.segs, c.first.fake⟩ ∧
    ∀ x ∈ c.rest, parseQuery pr (ptoksPath x.2) = .ok ⟨normSegs x.2.segs, x.2.fake⟩ :=
  ⟨Lemmas.parse_ptoks pr hpr c.first h0, fun x hx => Lemmas.parse_ptoks pr hpr x.2 (hr x hx)⟩

/-! ## Character level -/

/-- **Translated**: the rule list of `compile_rules`, the class-level patterns and the patterns built in
    `Lexer.__init__` are, text for text, the regular expressions the scanners of `JP.Lex` stand for. -/
theorem lex_source_ok :
    Lex.sourceOK Generated.lexerRules Generated.lexerPatterns Generated.lexerInitPatterns = true := by decide

/-- **String literals round-trip**: `canonical_string(s)` is read by the lexer as one single-quoted token,
    and the parser's decoding of that token is `s` — for every string (quotes, backslashes, control
    characters, non-ASCII and non-BMP characters included). -/
theorem canonical_string_roundtrip (s rest : Str) :
    Lex.mQuoted '\'' .sq (canonicalString s ++ rest) = some ([⟨.sq, Lex.sqBody s⟩], rest) ∧
    Lex.decodeSQ (Lex.sqBody s) = .ok s :=
  ⟨Lemmas.canonical_string_lexes s rest, Lemmas.canonical_string_decodes s⟩

/-- **The lexer reads the printed text back as the printed tokens** (default identifier spellings; any
    `\w` behaviour on non-ASCII characters): string escapes, number spellings, keywords, operators,
    slices, regex literals, function calls and identifier tokens included. -/
theorem printed_text_lexes (uw : Char → Bool) (p : Path) (h : Lex.printableSegs p.segs = true) :
    Lex.tokenize ⟨Lex.dflt, uw⟩ (Lex.pstrPath Lex.dflt p) = .ok ((ptoksPath p).map Lex.CTok.tok) :=
  Lemmas.tokenize_pstrPath uw p h

theorem printed_compound_lexes (uw : Char → Bool) (c : Compound) (h0 : Lex.printableSegs c.first.segs = true)
    (hr : ∀ x ∈ c.rest, Lex.printableSegs x.2.segs = true) :
    Lex.tokenize ⟨Lex.dflt, uw⟩ (Lex.pstrCompound Lex.dflt c) = .ok (Lex.ptoksCompound c) :=
  Lemmas.tokenize_pstrCompound uw c h0 hr

/-- **Text round trip**: compiling the *text* of a compiled query (lexer, literal decoding, parser) gives
    the query back, up to printing an omitted slice step as the step 1. -/
theorem text_roundtrip (pr : Prec) (hpr : precOK pr = true) (uw : Char → Bool) (p : Path)
    (hp : parsedSegs p.segs = true) (h : Lex.printableSegs p.segs = true) :
    Lex.compileText pr ⟨Lex.dflt, uw⟩ (Lex.pstrPath Lex.dflt p) = some ⟨normSegs p.segs, p.fake⟩ :=
  Lemmas.compileText_pstrPath pr hpr uw p hp h

/-! ### Non-vacuity -/
example : Lex.printableSegs [.child [.filter (.infix (.func "length".toList [.self [.child [.name ['a']]]]) .gt (.flt 12))],
    .desc, .child [.slice none (some 2) none, .filter (.infix (.self []) .re (.regex "a.b".toList ['i']))]] = true := by decide

example : parsedSegs [.child [.filter (.infix (.not (.infix (.self [.child [.name ['a']]]) .eq (.int 1))) .or
    (.infix (.infix (.self [.child [.name ['b']]]) .lt (.int 2)) .and (.not (.self [.child [.name ['c']]]))))]] = true := by decide

end JP.Props.C10
