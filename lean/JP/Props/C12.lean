/-
  C12 — Query iterator operations behave as list slicing on the match sequence.

  `Fluent.run` is the code-shaped model of `fluent_api.Query` (explicit iterator protocol);
  `Fluent.runSpec` performs the corresponding list operations on the full match list.
  Statements hold for every chain of calls, every integer count and every sequence length.
-/
import JP.Lemmas.Fluent
namespace JP.Props.C12
open JP JP.Fluent JP.Lemmas

/-- **Main theorem**: for every match sequence `l` and every chain of query-iterator operations, the outputs along the way (taken matches, tee children, first/last matches, refusals) and the matches finally produced are those of the corresponding list operations on `l`. -/
theorem chain_refines_list {α : Type} (ops : List Op) (l : List α) :
    run ops (.src l) = runSpec ops l :=
  Lemmas.chain_refines_list ops l

/-- The same from any iterator state reached so far: only what the iterator still yields matters. -/
theorem chain_refines_list_from {α : Type} (ops : List Op) (it : It α) :
    run ops it = runSpec ops it.drain :=
  Lemmas.chain_refines_list_from ops it

/-- limit/head/first `n` keeps the first `n` remaining matches. -/
theorem limit_spec {α : Type} (it : It α) (n : Nat) :
    (step it (.limit n)).2.drain = it.drain.take n ∧ (step it (.head n)).2.drain = it.drain.take n ∧ (step it (.first n)).2.drain = it.drain.take n :=
  Lemmas.limit_spec it n

/-- skip/drop `n` removes the first `n`. -/
theorem drop_spec {α : Type} (it : It α) (n : Nat) :
    (step it (.drop n)).2.drain = it.drain.drop n ∧ (step it (.skip n)).2.drain = it.drain.drop n :=
  Lemmas.drop_spec it n

/-- tail/last `n` keeps the last `n`. -/
theorem tail_spec {α : Type} (it : It α) (n : Nat) :
    (step it (.tail n)).2.drain = it.drain.drop (it.drain.length - n) ∧ (step it (.last n)).2.drain = it.drain.drop (it.drain.length - n) :=
  Lemmas.tail_spec it n

/-- take `n` splits off the next `n` and leaves the rest for the original iterator. -/
theorem take_spec {α : Type} (it : It α) (n : Nat) :
    (step it (.take n)).1 = some (.taken (it.drain.take n)) ∧ (step it (.take n)).2.drain = it.drain.drop n :=
  Lemmas.take_spec it n

/-- tee `n` gives `n` iterators each yielding everything that remained. -/
theorem tee_spec {α : Type} (it : It α) (n : Nat) (hn : 0 < n) :
    (step it (.tee n)).1 = some (.children (List.replicate (n - 1) it.drain)) ∧ (step it (.tee n)).2.drain = it.drain :=
  Lemmas.tee_spec it n hn

/-- first_one/one and last_one give the first and last remaining match, or nothing. -/
theorem one_spec {α : Type} (it : It α) :
    (step it .firstOne).1 = some (.item it.drain.head?) ∧ (step it .one).1 = some (.item it.drain.head?) ∧ (step it .lastOne).1 = some (.item it.drain.getLast?) :=
  Lemmas.one_spec it

/-- Negative counts are refused with a value error and change nothing. -/
theorem negative_refused {α : Type} (it : It α) (n : Int) (hn : n < 0) :
    ∀ op ∈ [Op.limit n, .head n, .first n, .drop n, .skip n, .tail n, .last n, .take n, .tee n], step it op = (some .valueError, it) :=
  Lemmas.negative_refused it n hn

/-! ### Non-vacuity -/
example : run [.drop 1, .limit 3, .take 1, .tee 2, .lastOne] (.src [0, 1, 2, 3, 4, 5])
    = ([.taken [1], .children [[2, 3]], .item (some 3)], ([] : List Nat)) := by rfl

end JP.Props.C12
