/-
  C14 — JSON Pointer text, tokens and navigation operations are mutually consistent.

  Statements are about the code-shaped model `JP.Pointer` (parse, encode, from_parts, parent,
  `/`, join, is_relative_to, ==) and quantify over all pointer strings / token lists without
  leading blanks or backslashes, with integer-like tokens inside the index limits
  (`TokInRange`; the constructor rejects the others — known finding C04-KF1).
-/
import JP.Lemmas.PointerNav
import JP.Generated.Tables
namespace JP.Props.C14
open JP JP.Pointer JP.Lemmas

/-- Parsing and printing returns the same string, for every RFC 6901 pointer string. -/
theorem print_parse (dec : EscDec) (ue : Bool) (s : Str) (ts : List Str)
    (hs : rfcParse s = some ts) (hr : ∀ t ∈ ts, TokInRange t)
    (hb : ue = true → s.contains '\\' = false) :
    (parse dec ue s).map encode = .ok s := by
  exact Lemmas.print_parse dec ue s ts hs hr hb

/-- The reference tokens of a parsed pointer are the RFC 6901 tokens of its text. -/
theorem tokens_parse (dec : EscDec) (ue : Bool) (s : Str) (ts : List Str)
    (hs : rfcParse s = some ts) (hr : ∀ t ∈ ts, TokInRange t)
    (hb : ue = true → s.contains '\\' = false) :
    (parse dec ue s).map tokens = .ok ts := by
  exact Lemmas.tokens_parse dec ue s ts hs hr hb

/-- Building a pointer from a token list and printing it gives the RFC 6901 spelling of the tokens … -/
theorem print_fromParts (dec : EscDec) (ue : Bool) (ts : List Str)
    (hb : ue = true → ∀ t ∈ ts, t.contains '\\' = false) :
    (fromParts dec ue (ts.map Part.key)).map encode = .ok (spellTokens ts) ∧
    (fromParts dec ue (ts.map Part.key)).map tokens = .ok ts := by
  exact Lemmas.print_fromParts dec ue ts hb

/-- … and parsing that spelling gives an equal pointer. -/
theorem parse_spell_eq_fromParts (dec : EscDec) (ue : Bool) (ts : List Str)
    (hr : ∀ t ∈ ts, TokInRange t) (hb : ∀ t ∈ ts, t.contains '\\' = false) :
    ∃ p q, parse dec ue (spellTokens ts) = .ok p ∧ fromParts dec ue (ts.map Part.key) = .ok q ∧
      Pointer.eq p q = true := by
  exact Lemmas.parse_spell_eq_fromParts dec ue ts hr hb

/-- Two pointers are equal exactly when their reference-token sequences are equal (whatever mix of
    `int`/`str` parts their construction left behind). -/
theorem eq_iff_tokens (p q : List Part) : Pointer.eq p q = true ↔ tokens p = tokens q := by
  exact Lemmas.eq_iff_tokens p q

/-- Joining an (escaped) token `t` onto `p`: the result has `p`'s tokens followed by `t` … -/
theorem tokens_truediv (dec : EscDec) (p : List Part) (t : Str) (hr : TokInRange t)
    (hb : t.contains '\\' = false) (hl : lstrip (escapeTok t) = escapeTok t) :
    (truediv dec p (escapeTok t)).map tokens = .ok (tokens p ++ [t]) := by
  exact Lemmas.tokens_truediv dec p t hr hb hl

/-- … its parent is `p`, it is relative to `p` … -/
theorem join_parent_relative (dec : EscDec) (p q : List Part) (t : Str) (hr : TokInRange t)
    (hb : t.contains '\\' = false) (hl : lstrip (escapeTok t) = escapeTok t)
    (hq : truediv dec p (escapeTok t) = .ok q) :
    Pointer.eq (parent q) p = true ∧ isRelativeTo q p = true := by
  exact Lemmas.join_parent_relative dec p q t hr hb hl hq

/-- … and it resolves to the same value as resolving `p` and then stepping by `t`. -/
theorem join_resolve (dec : EscDec) (doc : J) (p q : List Part) (t : Str) (hr : TokInRange t)
    (hb : t.contains '\\' = false) (hl : lstrip (escapeTok t) = escapeTok t)
    (hq : truediv dec p (escapeTok t) = .ok q) :
    resolveParts doc q = (resolveParts doc p).bind (fun v => getitem v (tokPart t)) := by
  exact Lemmas.join_resolve dec doc p q t hr hb hl hq

/-- `join` with one part is the slash operator; with several it folds. -/
theorem join_eq_fold (dec : EscDec) (p : List Part) (t : Str) (more : List Str) :
    join dec p [t] = truediv dec p t ∧
    join dec p (t :: more) = (truediv dec p t).bind (fun q => join dec q more) := by
  exact Lemmas.join_eq_fold dec p t more

/-- `is_relative_to` is exactly "a proper extension, token for token": `self` is relative to `other` iff the tokens of
    `self` are the tokens of `other` followed by at least one more token (whatever mix of `int` / `str` parts either holds). -/
theorem relative_iff_proper_extension (self other : List Part) :
    isRelativeTo self other = true ↔ ∃ rest, rest ≠ [] ∧ tokens self = tokens other ++ rest := by
  exact Lemmas.relative_iff_proper_extension self other

/-- Hence it is a strict order: no pointer is relative to itself or to one of its own extensions, and it is transitive. -/
theorem relative_strict_order (a b c : List Part) :
    isRelativeTo a a = false ∧ (isRelativeTo a b = true → isRelativeTo b a = false) ∧
    (isRelativeTo a b = true → isRelativeTo b c = true → isRelativeTo a c = true) := by
  exact ⟨Lemmas.relative_irrefl a, Lemmas.relative_asymm a b, Lemmas.relative_trans a b c⟩

/-- The parent of the root pointer is the root pointer; `parent` drops exactly the last token. -/
theorem parent_spec (p : List Part) : parent [] = [] ∧ tokens (parent p) = (tokens p).dropLast := by
  exact Lemmas.parent_spec p

/-- A joined part that starts with a slash replaces the pointer. -/
theorem join_slash_replaces (dec : EscDec) (p : List Part) (rest : Str)
    (hb : rest.contains '\\' = false) :
    truediv dec p ('/' :: rest) = parse dec false ('/' :: rest) := by
  exact Lemmas.join_slash_replaces dec p rest hb

/-- **Translated tables** (regenerated from pointer.py on every run): the index-token pattern, the keys
    selector and the index limits in the source are the ones the model `parseIndexToken` / `indexOf` /
    `getitem` were written for. A changed regular expression breaks this obligation even when harmless;
    the check then searches for a failing input. -/
theorem source_tables_ok :
    Generated.reIndexToken = "(?:0|-?[1-9][0-9]*)" ∧ Generated.pointerKeysSelector = "~" ∧
    Generated.pointerMaxIntIndex = maxIntIndex ∧ Generated.pointerMinIntIndex = minIntIndex := by decide

/-! ### Non-vacuity -/
example : rfcParse "/a~1b//01/-1/+1/~0".toList
    = some ["a/b".toList, [], "01".toList, "-1".toList, "+1".toList, "~".toList] := by decide
example : TokInRange "12".toList ∧ TokInRange "+1".toList ∧ TokInRange "".toList := by
  refine ⟨?_, ?_, ?_⟩ <;> intro i h <;> simp [parseIndexToken, isCanonNat, isAsciiDigit] at h <;>
    (subst h; decide)
example : lstrip (escapeTok "a/b".toList) = escapeTok "a/b".toList := by decide
example : isRelativeTo [.key "a".toList, .idx 1] [.key "a".toList] = true ∧ isRelativeTo [.idx 1] [.key "1".toList] = false := by decide

end JP.Props.C14
