/-
  C17 — Renaming the environment's identifier tokens never changes what a query means.

  Three ingredients: (1) the lexer picks, among the environment's spellings that match at a position, a
  longest one (`lexEnv_*`: the splice is sorted longest first), so a multi-character spelling and a
  spelling that is a prefix of another lex as intended; (2) the compiled query does not mention the
  spellings: the serializer's *tokens* and the parser are spelling-independent (C10), and (3) evaluation
  returns the same values whatever the spellings (they only show up inside path strings / keys parts).
  The end-to-end statement (render with custom spellings, compile in the custom environment, compare
  with the default) is tied by the correspondence run over sampled configurations.
-/
import JP.Lemmas.TokenCfg
import JP.Lemmas.LexSpell
namespace JP.Props.C17
open JP JP.Query JP.TokenCfg JP.Lemmas

/-- **Translated tables**: the lexer splices exactly the eight identifiers, longest first, after `..`,
    `&&`, `||` and the dot-property rule and before every other rule. -/
theorem tables_ok :
    spliceOK Generated.lexerRules Generated.lexerEnvTokensLongestFirst = true ∧
    envTokensOK Generated.lexerEnvTokens = true := by decide

/-- **Translated**: the whole rule list and every rule text of `lex.py` are the ones the character-level
    lexer model `JP.Lex` (in which the splice sits, and against which the implementation is run under every
    sampled configuration) was written for. -/
theorem lex_source_ok :
    Lex.sourceOK Generated.lexerRules Generated.lexerPatterns Generated.lexerInitPatterns = true := by decide

/-- What the lexer returns is one of the configured spellings, and it consumed exactly that spelling. -/
theorem lexEnv_sound (cfg : Cfg) (input : Str) (k : Ident) (rest : Str)
    (h : lexEnv cfg input = some (k, rest)) :
    ∃ s, (k, s) ∈ cfg ∧ s ≠ [] ∧ input = s ++ rest := Lemmas.lexEnv_sound cfg input k rest h

/-- **Longest match**: no configured spelling that matches at this position is longer than the one taken. -/
theorem lexEnv_longest (cfg : Cfg) (input : Str) (k : Ident) (rest : Str)
    (h : lexEnv cfg input = some (k, rest)) :
    ∀ k' s', (k', s') ∈ cfg → s' ≠ [] → s'.isPrefixOf input = true → s'.length ≤ input.length - rest.length :=
  Lemmas.lexEnv_longest cfg input k rest h

/-- **Prefix-related spellings**: with distinct spellings, a spelling `s` is recognised as its own
    identifier whenever every *other* configured spelling that also matches here is shorter —
    so `$` / `$$`, `%` / `%%` lex as written. -/
theorem lexEnv_exact (cfg : Cfg) (k : Ident) (s rest : Str) (hm : (k, s) ∈ cfg) (hne : s ≠ [])
    (hdistinct : cfg.Pairwise (fun a b => a.2 ≠ b.2))
    (hnolonger : ∀ k' s', (k', s') ∈ cfg → s' ≠ s → s'.isPrefixOf (s ++ rest) = true → s'.length < s.length) :
    lexEnv cfg (s ++ rest) = some (k, rest) := Lemmas.lexEnv_exact cfg k s rest hm hne hdistinct hnolonger

/-- Non-overlapping (prefix-free at this position) spellings are recognised whatever their order. -/
theorem lexEnv_prefix_free (cfg : Cfg) (k : Ident) (s rest : Str) (hm : (k, s) ∈ cfg) (hne : s ≠ [])
    (hfree : ∀ k' s', (k', s') ∈ cfg → s' ≠ [] → (k', s') ≠ (k, s) → ¬ s'.isPrefixOf (s ++ rest) = true) :
    lexEnv cfg (s ++ rest) = some (k, rest) := Lemmas.lexEnv_prefix_free cfg k s rest hm hne hfree

/-- Sorting the spellings shortest-first instead would break prefix-related spellings (counter-model). -/
theorem shortest_first_breaks :
    ∃ (cfg : Cfg) (input : Str),
      lexEnv cfg input = some (.fakeRoot, ".a".toList) ∧
      lexWith (sortShortestFirst cfg) input = some (.root, "$.a".toList) := Lemmas.shortest_first_breaks

/-- **Evaluation does not depend on the spellings**: two environments that differ only in the identifier
    spellings select the same values, for every query and document. -/
theorem values_independent_of_tokens (e1 e2 : Env) (h : SameButTokens e1 e2) (segs : List Seg) (ns1 ns2 : List Node)
    (hv : ns1.map (·.val) = ns2.map (·.val)) :
    (evalSegs e1 segs ns1).map (·.val) = (evalSegs e2 segs ns2).map (·.val) :=
  Lemmas.values_independent_of_tokens e1 e2 h segs ns1 ns2 hv

/-! ## End to end, at the character level

`Lex.ValidSpell sp`: the eight spellings are non-empty, pairwise distinct, made of the symbol characters
`$ @ # _ ~ ^ % + | &`, none beginning like the fixed `&&` / `||`. One may be a prefix of another. -/

/-- **The lexer of an environment reads that environment's own text back as the same tokens**, whatever valid
    spellings are configured: the text `str()` produces under `sp` lexes, in the environment with spellings `sp`,
    to exactly the tokens of the query — the tokens do not mention the spellings. -/
theorem printed_text_lexes_under_any_spelling (uw : Char → Bool) (sp : Lex.Spell) (hv : Lex.ValidSpell sp = true) (p : Path)
    (h : Lex.printableSegs p.segs = true) :
    Lex.tokenize ⟨sp, uw⟩ (Lex.pstrPath sp p) = .ok ((Surface.ptoksPath p).map Lex.CTok.tok) :=
  Lemmas.tokenize_pstrPath_spell uw sp hv p h

theorem printed_compound_lexes_under_any_spelling (uw : Char → Bool) (sp : Lex.Spell) (hv : Lex.ValidSpell sp = true) (c : Compound)
    (h0 : Lex.printableSegs c.first.segs = true) (hr : ∀ x ∈ c.rest, Lex.printableSegs x.2.segs = true) :
    Lex.tokenize ⟨sp, uw⟩ (Lex.pstrCompound sp c) = .ok (Lex.ptoksCompound c) :=
  Lemmas.tokenize_pstrCompound_spell uw sp hv c h0 hr

/-- **Renaming does not change what a query means**: the same query, written in the spellings of two valid
    configurations and compiled in the respective environments (lexer model, literal decoding, parser model),
    is the same compiled query — hence (with `values_independent_of_tokens`) selects the same values. -/
theorem renaming_preserves_query (pr : Surface.Prec) (hpr : Surface.precOK pr = true) (uw : Char → Bool)
    (sp1 sp2 : Lex.Spell) (h1 : Lex.ValidSpell sp1 = true) (h2 : Lex.ValidSpell sp2 = true) (p : Path)
    (hp : Surface.parsedSegs p.segs = true) (h : Lex.printableSegs p.segs = true) :
    Lex.compileText pr ⟨sp1, uw⟩ (Lex.pstrPath sp1 p) = Lex.compileText pr ⟨sp2, uw⟩ (Lex.pstrPath sp2 p) ∧
    Lex.compileText pr ⟨sp1, uw⟩ (Lex.pstrPath sp1 p) = some ⟨Surface.normSegs p.segs, p.fake⟩ := by
  rw [Lemmas.compileText_pstrPath_spell pr hpr uw sp1 h1 p hp h, Lemmas.compileText_pstrPath_spell pr hpr uw sp2 h2 p hp h]
  exact ⟨rfl, rfl⟩

/-! ### Non-vacuity -/
example : Lex.ValidSpell { Lex.dflt with root := "$$".toList, fakeRoot := "$".toList, keys := "~~".toList, fctx := "__".toList, union := "%".toList } = true := by decide
example : lexEnv [(.root, "$".toList), (.self, "@".toList), (.fakeRoot, "$$".toList)] "$$.a".toList = some (.fakeRoot, ".a".toList) := by decide
example : lexEnv [(.root, "$".toList), (.self, "@".toList), (.fakeRoot, "$$".toList)] "$.a".toList = some (.root, ".a".toList) := by decide

end JP.Props.C17
