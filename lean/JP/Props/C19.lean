/-
  C19 — Projection returns exactly the selected values, nothing more, in place.

  `Projection.select` models `Query._select` (with `_patch_obj`, `_fix_sparse_arrays`) applied to the
  selections `(relative parts, value)` that the relative queries produce below a match (that those
  selections are the RFC nodelists is C01/C02). `T` is the intermediate dict-of-dicts, `fix` its
  compaction into arrays/objects. "The document is not modified" is an effect and is decided by the
  before/after probe of the correspondence run.

  Two groups. The first (`disjoint_builds` … `relative_no_extra_leaves`) is about `patchAll`, the fragment of
  `_patch_obj` that never walks into an already copied value; it needs prefix-disjoint selections and
  `strict_fragment` ties it to the whole function. The second (`overlapping_*`) is about `patchAllO`, the
  whole of `_patch_obj`, for **any** list of selections taken from the match's value - in any order, one
  selected location a prefix of another or equal to it: every selected value is found, compacted, at its
  location, and there are no other leaves. This is what `select` computes.
-/
import JP.Lemmas.Projection
import JP.Lemmas.ProjectionOverlap
namespace JP.Props.C19
open JP JP.Projection JP.Lemmas

/-- Flat projection is the list of the selected values in selection order. -/
theorem flat_spec (mparts : List Part) (mval : J) (sels : List (List Part × J))
    (hc : mval.isContainer = true) (hne : sels ≠ []) :
    select .flat mparts mval sels = some (some (.arr (sels.map (·.2)))) :=
  Lemmas.flat_spec mparts mval sels hc hne

/-- Matches for which nothing is selected, and matches that are not containers, produce no projection. -/
theorem empty_no_projection (style : Style) (mparts : List Part) (mval : J) :
    select style mparts mval [] = none := Lemmas.empty_no_projection style mparts mval

theorem noncontainer_no_projection (style : Style) (mparts : List Part) (mval : J) (sels : List (List Part × J))
    (hc : mval.isContainer = false) : select style mparts mval sels = none :=
  Lemmas.noncontainer_no_projection style mparts mval sels hc

/-- Disjoint selections (none a prefix of another) always build: the intermediate object exists … -/
theorem disjoint_builds (sels : List (List Part × J))
    (hne : ∀ s ∈ sels, s.1 ≠ []) (hd : Disjoint (sels.map (·.1))) :
    ∃ kvs', patchAll sels [] = some kvs' := Lemmas.patchAll_disjoint_defined sels hne hd

/-- … every selected node's value is found in it by following the node's relative location … -/
theorem relative_lookup (sels : List (List Part × J)) (hd : Disjoint (sels.map (·.1)))
    (kvs' : List (Part × T)) (h : patchAll sels [] = some kvs') :
    ∀ s ∈ sels, getPath (.node kvs') s.1 = some (.leaf s.2) :=
  Lemmas.patchAll_present sels [] hd kvs' h

/-- … and it contains no other leaves: its leaves are exactly the selected values. -/
theorem relative_no_extra_leaves (sels : List (List Part × J))
    (hne : ∀ s ∈ sels, s.1 ≠ []) (hd : Disjoint (sels.map (·.1))) (kvs' : List (Part × T))
    (h : patchAll sels [] = some kvs') :
    (leaves (.node kvs')).Perm (sels.map (·.2)) :=
  Lemmas.patchAll_leaves sels hne hd kvs' h

/-- Compaction: in the projected value each array index is replaced by its position among the indices
    selected in that array (its rank, for ascending selections), member names are kept, and what is
    found there is the (unchanged) selected value. -/
theorem compaction_by_rank (t : T) (ps rs : List Part) (u : T) (hh : homogeneous t = true)
    (hp : getPath t ps = some u) (hr : rankPath t ps = some rs) :
    lookupJ (fix t) rs = some (fix u) :=
  Lemmas.fix_lookup_rank t ps rs u hh hp hr

/-- selected values are not altered by the compaction -/
theorem leaf_unchanged (v : J) : fix (.leaf v) = v := by
  show fixJ v = v
  exact Lemmas.fixJ_id v

/-- Root projection is the same, located from the document root. -/
theorem root_spec (mparts : List Part) (mval : J) (sels : List (List Part × J)) (hc : mval.isContainer = true) :
    select .root mparts mval sels = select .relative [] mval (sels.map (fun s => (mparts ++ s.1, s.2))) :=
  Lemmas.root_is_relative_from_root mparts mval sels hc

/-! ### Overlapping selections: the whole of `_patch_obj` -/

/-- `patchAllO` (what `select` runs) agrees with the disjoint fragment wherever that is defined -/
theorem strict_fragment (sels : List (List Part × J)) (kvs k : List (Part × T))
    (h : patchAll sels kvs = some k) : patchAllO sels kvs = some k :=
  Lemmas.patchAll_extends sels kvs k h

/-- The selections a list of relative queries produces below a match: locations strictly below the match's
    value `mval`, each with the value `mval` has there (C01/C02/C03: `match_located`). -/
def FromMatch (mval : J) (sels : List (List Part × J)) : Prop :=
  ∀ s ∈ sels, s.1 ≠ [] ∧ lookupJ mval s.1 = some s.2

/-- **Any selections, however they overlap**: the intermediate object exists, it is a pruning of the match's
    value, and every selected node's value is found in it by following the node's relative location … -/
theorem overlapping_builds_and_lookup (mval : J) (sels : List (List Part × J)) (h : FromMatch mval sels) :
    ∃ kvs', patchAllO sels [] = some kvs' ∧ Projection.Sub (.node kvs') mval ∧
      ∀ s ∈ sels, getDeep (.node kvs') s.1 = some s.2 := by
  obtain ⟨k, h1, h2, h3, _⟩ := Lemmas.patchAllO_sub sels [] mval (by simp [Projection.Sub.SubL]) h
  exact ⟨k, h1, (Lemmas.sub_node k mval).2 h2, h3⟩

/-- … each array index on the way replaced by its position among the indices selected in that array, down to
    the copied value, inside which locations are kept … -/
theorem overlapping_compaction (mval : J) (sels : List (List Part × J)) (h : FromMatch mval sels)
    (kvs' : List (Part × T)) (hk : patchAllO sels [] = some kvs') :
    ∀ s ∈ sels, ∃ rs, rankDeep (.node kvs') s.1 = some rs ∧ lookupJ (fix (.node kvs')) rs = some s.2 := by
  obtain ⟨k, h1, h2, h3⟩ := overlapping_builds_and_lookup mval sels h
  rw [hk] at h1
  injection h1 with h1
  subst h1
  intro s hs
  obtain ⟨rs, hrs⟩ := Lemmas.rankDeep_defined s.1 (.node kvs') s.2 (h3 s hs)
  exact ⟨rs, hrs, Lemmas.fix_lookup_deep s.1 (.node kvs') rs s.2 (Lemmas.sub_homogeneous _ mval h2) (h3 s hs) hrs⟩

/-- … and it contains no other leaves: every leaf of the intermediate object sits at a selected location and
    holds the value the match has there. -/
theorem overlapping_no_extra_leaves (mval : J) (sels : List (List Part × J)) (h : FromMatch mval sels)
    (kvs' : List (Part × T)) (hk : patchAllO sels [] = some kvs') (qs : List Part) (x : J)
    (hl : getPath (.node kvs') qs = some (.leaf x)) :
    (∃ s ∈ sels, s.1 = qs) ∧ lookupJ mval qs = some x := by
  obtain ⟨k, h1, h2, _⟩ := overlapping_builds_and_lookup mval sels h
  rw [hk] at h1
  injection h1 with h1
  subst h1
  refine ⟨?_, Lemmas.sub_getDeep qs (.node kvs') mval x h2 (Lemmas.getPath_leaf_getDeep qs _ x hl)⟩
  rcases Lemmas.patchAllO_leafpos sels [] kvs' hk qs x hl with hs | ⟨x0, hx0⟩
  · exact hs
  · cases qs with
    | nil => simp [getPath] at hx0
    | cons a b => simp [Lemmas.getPath_nil_cons] at hx0

/-- End to end: a relative projection of a container match with any non-empty list of selections taken from
    it is produced (unless it is falsy) and holds every selected value at its compacted location. -/
theorem overlapping_select (mparts : List Part) (mval : J) (sels : List (List Part × J))
    (hc : mval.isContainer = true) (h : FromMatch mval sels) :
    ∃ kvs', patchAllO sels [] = some kvs' ∧
      select .relative mparts mval sels =
        (if truthyJ (fix (.node kvs')) then some (some (fix (.node kvs'))) else none) ∧
      ∀ s ∈ sels, ∃ rs, rankDeep (.node kvs') s.1 = some rs ∧ lookupJ (fix (.node kvs')) rs = some s.2 := by
  obtain ⟨k, h1, _, _⟩ := overlapping_builds_and_lookup mval sels h
  exact ⟨k, h1, by simp [select, hc, h1], overlapping_compaction mval sels h k h1⟩

/-! ### Non-vacuity -/
-- select("a", "a[0].x") on {"a": [{"x": 1, "y": 2}]}: the wider selection first, then one inside it
example : FromMatch (.obj [(['a'], .arr [.obj [(['x'], .int 1), (['y'], .int 2)]])])
    [([.key ['a']], .arr [.obj [(['x'], .int 1), (['y'], .int 2)]]), ([.key ['a'], .idx 0, .key ['x']], .int 1)] := by
  intro s hs
  simp only [List.mem_cons, List.mem_nil_iff, or_false] at hs
  rcases hs with rfl | rfl <;> exact ⟨by simp, rfl⟩

example : (patchAllO [([.key ['a']], .arr [.obj [(['x'], .int 1), (['y'], .int 2)]]), ([.key ['a'], .idx 0, .key ['x']], .int 1)] []).map
      (fun k => fix (.node k)) = some (.obj [(['a'], .arr [.obj [(['x'], .int 1), (['y'], .int 2)]])]) := by rfl

-- the other order: the narrower selection is replaced by the wider one
example : (patchAllO [([.key ['a'], .idx 0, .key ['x']], .int 1), ([.key ['a']], .arr [.obj [(['x'], .int 1), (['y'], .int 2)]])] []).map
      (fun k => fix (.node k)) = some (.obj [(['a'], .arr [.obj [(['x'], .int 1), (['y'], .int 2)]])]) := by rfl

example : Disjoint [[Part.key ['a'], .idx 1], [.key ['a'], .idx 3], [.key ['b']]] := by
  simp [Disjoint, List.cons_prefix_cons]

example : (patchAll [([.key ['a'], .idx 1], .int 10), ([.key ['a'], .idx 3], .int 30)] []).map (fun k => fix (.node k))
    = some (.obj [(['a'], .arr [.int 10, .int 30])]) := by rfl

end JP.Props.C19
