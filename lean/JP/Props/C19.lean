/-
  C19 — Projection returns exactly the selected values, nothing more, in place.

  `Projection.select` models `Query._select` (with `_patch_obj`, `_fix_sparse_arrays`) applied to the
  selections `(relative parts, value)` that the relative queries produce below a match (that those
  selections are the RFC nodelists is C01/C02). `T` is the intermediate dict-of-dicts, `fix` its
  compaction into arrays/objects. "The document is not modified" is an effect and is decided by the
  before/after probe of the correspondence run. Overlapping selections are outside these theorems.
-/
import JP.Lemmas.Projection
namespace JP.Props.C19
open JP JP.Projection JP.Lemmas

/-- Flat projection is the list of the selected values in selection order. -/
theorem flat_spec (mparts : List Part) (mval : J) (sels : List (List Part × J))
    (hc : mval.isContainer = true) (hne : sels ≠ []) :
    select .flat mparts mval sels = some (some (.arr (sels.map (·.2)))) :=
  Lemmas.flat_spec mparts mval sels hc hne

/-- Matches for which nothing is selected, and matches that are not containers, produce no projection. -/
theorem empty_no_projection (style : Style) (mparts : List Part) (mval : J) :
    select style mparts mval [] = none := Lemmas.empty_no_projection style mparts mval

theorem noncontainer_no_projection (style : Style) (mparts : List Part) (mval : J) (sels : List (List Part × J))
    (hc : mval.isContainer = false) : select style mparts mval sels = none :=
  Lemmas.noncontainer_no_projection style mparts mval sels hc

/-- Disjoint selections (none a prefix of another) always build: the intermediate object exists … -/
theorem disjoint_builds (sels : List (List Part × J))
    (hne : ∀ s ∈ sels, s.1 ≠ []) (hd : Disjoint (sels.map (·.1))) :
    ∃ kvs', patchAll sels [] = some kvs' := Lemmas.patchAll_disjoint_defined sels hne hd

/-- … every selected node's value is found in it by following the node's relative location … -/
theorem relative_lookup (sels : List (List Part × J)) (hd : Disjoint (sels.map (·.1)))
    (kvs' : List (Part × T)) (h : patchAll sels [] = some kvs') :
    ∀ s ∈ sels, getPath (.node kvs') s.1 = some (.leaf s.2) :=
  Lemmas.patchAll_present sels [] hd kvs' h

/-- … and it contains no other leaves: its leaves are exactly the selected values. -/
theorem relative_no_extra_leaves (sels : List (List Part × J))
    (hne : ∀ s ∈ sels, s.1 ≠ []) (hd : Disjoint (sels.map (·.1))) (kvs' : List (Part × T))
    (h : patchAll sels [] = some kvs') :
    (leaves (.node kvs')).Perm (sels.map (·.2)) :=
  Lemmas.patchAll_leaves sels hne hd kvs' h

/-- Compaction: in the projected value each array index is replaced by its position among the indices
    selected in that array (its rank, for ascending selections), member names are kept, and what is
    found there is the (unchanged) selected value. -/
theorem compaction_by_rank (t : T) (ps rs : List Part) (u : T) (hh : homogeneous t = true)
    (hp : getPath t ps = some u) (hr : rankPath t ps = some rs) :
    lookupJ (fix t) rs = some (fix u) :=
  Lemmas.fix_lookup_rank t ps rs u hh hp hr

/-- selected values are not altered by the compaction -/
theorem leaf_unchanged (v : J) : fix (.leaf v) = v := by
  show fixJ v = v
  exact Lemmas.fixJ_id v

/-- Root projection is the same, located from the document root. -/
theorem root_spec (mparts : List Part) (mval : J) (sels : List (List Part × J)) (hc : mval.isContainer = true) :
    select .root mparts mval sels = select .relative [] mval (sels.map (fun s => (mparts ++ s.1, s.2))) :=
  Lemmas.root_is_relative_from_root mparts mval sels hc

/-! ### Non-vacuity -/
example : Disjoint [[Part.key ['a'], .idx 1], [.key ['a'], .idx 3], [.key ['b']]] := by
  simp [Disjoint, List.cons_prefix_cons]

example : (patchAll [([.key ['a'], .idx 1], .int 10), ([.key ['a'], .idx 3], .int 30)] []).map (fun k => fix (.node k))
    = some (.obj [(['a'], .arr [.int 10, .int 30])]) := by rfl

end JP.Props.C19
