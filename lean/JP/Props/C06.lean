/-
  C06 — Only the documented error families ever escape; every call terminates.

  Every model function returns `Except Err α` where `Err` distinguishes the documented exception
  classes from `builtin` Python exceptions; each partial Python primitive the code calls (`int()`,
  indexing, `dict` access, `list.insert`, `del`) is an explicit partial function in the model. The
  theorems say that no `builtin` error (indeed no error outside the documented family) can come out,
  for ALL inputs. Termination: every definition involved is accepted by Lean's termination checker
  (structural recursion); the evaluator `JP.Query.finditer` is a total function into lists and has no
  error result at all. The query compiler (lexer/parser) is not modelled: see the evidence file.
-/
import JP.Lemmas.Safety
import JP.Lemmas.LexTotal
import JP.Guards
import JP.Generated.Tables
namespace JP.Props.C06
open JP JP.Pointer JP.Lemmas

/-- Any text given as a JSON Pointer is accepted or rejected with a pointer error. -/
theorem pointer_parse_safe (dec : EscDec) (ue : Bool) (s : Str) (err : Err)
    (h : Pointer.parse dec ue s = .error err) : err = .ptr ∨ err = .ptrIndex :=
  Lemmas.pointer_parse_safe dec ue s err h

/-- Resolution fails only with pointer resolution errors, for every parsed pointer and document. -/
theorem pointer_resolve_safe (doc : J) (ps : List Part) (err : Err)
    (h : resolveParts doc ps = .error err) : err.isPointerResolution = true :=
  Lemmas.pointer_resolve_safe doc ps err h

/-- `exists` never raises. -/
theorem pointer_exists_safe (doc : J) (ps : List Part) : ∃ b, existsIn doc ps = .ok b :=
  Lemmas.pointer_exists_safe doc ps

/-- `resolve_parent` fails only with pointer resolution errors. -/
theorem pointer_resolveParent_safe (doc : J) (ps : List Part) (err : Err)
    (h : resolveParent doc ps = .error err) : err.isPointerResolution = true :=
  Lemmas.pointer_resolveParent_safe doc ps err h

/-- Joining (`/`, `join`) and `from_parts` fail only with pointer errors. -/
theorem pointer_join_safe (dec : EscDec) (ps : List Part) (other : Str) (err : Err)
    (h : truediv dec ps other = .error err) : err = .ptr ∨ err = .ptrIndex :=
  Lemmas.pointer_join_safe dec ps other err h

theorem pointer_fromParts_safe (dec : EscDec) (ue : Bool) (ps : List Part) (err : Err)
    (h : fromParts dec ue ps = .error err) : err = .ptr :=
  Lemmas.pointer_fromParts_safe dec ue ps err h

/-- Any text given as a Relative JSON Pointer is accepted or rejected with a pointer error. -/
theorem rel_parse_safe (dec : EscDec) (ue : Bool) (s : Str) (err : Err)
    (h : RelPointer.parse dec ue s = .error err) : err = .relSyntax ∨ err = .ptr ∨ err = .ptrIndex :=
  Lemmas.rel_parse_safe dec ue s err h

/-- Applying a relative pointer fails only with relative-pointer / pointer errors. -/
theorem rel_apply_safe (dec : EscDec) (ue : Bool) (r : RelPointer.Rel) (base : List Part) (err : Err)
    (h : RelPointer.applyTo dec ue r base = .error err) : err = .relIndex ∨ err = .ptr :=
  Lemmas.rel_apply_safe dec ue r base err h

/-- Building a patch from ANY JSON value fails only with a patch error. -/
theorem patch_build_safe (dec : EscDec) (ue : Bool) (ops : J) (err : Err)
    (h : Patch.build dec ue ops = .error err) : err = .patch :=
  Lemmas.patch_build_safe dec ue ops err h

/-- Applying ANY list of operations to ANY document fails only with patch errors: the `ValueError`,
    `KeyError`, `IndexError` and `TypeError` branches of the model are unreachable. -/
theorem patch_apply_safe (ops : List Patch.Op) (doc : J) (err : Err)
    (h : Patch.apply ops doc = .error err) : err = .patch ∨ err = .patchTest :=
  Lemmas.patch_apply_safe ops doc err h

/-- **Translated**: every conversion of caller-supplied text that can raise a built-in exception — `int`, `float`,
    `re.compile` / `re.fullmatch` / `re.search`, the parser's `json.loads`, the unicode-escape codec — in parse.py,
    match.py, search.py, pointer.py and patch.py sits inside handlers for all the built-in exceptions it can raise
    (ValueError; OverflowError and re.error for patterns; JSONDecodeError; UnicodeError), or is one of the
    reviewed sites whose argument has just been matched by the number / index-token pattern. Removing a handler,
    narrowing an `except`, or adding an unguarded conversion breaks this `decide`. -/
theorem conversions_guarded :
    Guards.guardsOK Generated.conversionGuards = true ∧ Guards.compilerSitesPresent Generated.conversionSites = true := by decide

/-- **Lexing any text fails only with a syntax error** (character-level lexer model): every rule consumes at
    least one character, so the scan always terminates within its fuel and the only failure is an
    illegal character. -/
theorem lex_safe (cfg : Lex.Cfg) (s : Str) (e : Err) (h : Lex.lexRaw cfg s = .error e) : e = .pathSyntax :=
  Lemmas.lexRaw_error cfg s e h

/-! ### Non-vacuity: the error branches are inhabited -/
example : Pointer.parse (fun _ => none) true "a".toList = .error .ptr := by rfl
example : resolveParts (.arr []) [.key ['-']] = .error .ptrIndex := by rfl
example : Patch.apply [.remove []] .null = .error .patch := by rfl

end JP.Props.C06
