/-
  C13 — Documented non-standard syntax means what the documentation says (evaluation side).

  Alias spellings (and/or/not, nil/none/…, True/False, missing, missing `$`, bare names) are
  lexer/parser facts and are tied by comparing compiled ASTs on the implementation; the theorems here
  are about what the extension constructs *evaluate to* in the model, for every document and context.
-/
import JP.Lemmas.Ext
import JP.Lemmas.LexAlias
namespace JP.Props.C13
open JP JP.Query JP.Lemmas

/-- The keys selector yields an object's member names in order and nothing for other values. -/
theorem keys_spec (env : Env) (n : Node) :
    (evalSel env n .keys).map (·.val) =
      (match n.val with
       | .obj kvs => kvs.map (fun kv => J.str kv.1)
       | _ => []) := Lemmas.keys_spec env n

/-- The fake root yields the document itself wrapped for filtering: `^q` on `d` is `q` applied to `[d]`. -/
theorem fake_root_spec (rx : Rx) (segs : List Seg) (doc extra : J) :
    (finditer rx ⟨segs, true⟩ doc extra).map (·.val) =
      (evalSegs { rx := rx, root := doc, extra := extra } segs [⟨[], ['$'], .arr [doc]⟩]).map (·.val) :=
  Lemmas.fake_root_spec rx segs doc extra

/-- … also inside filters, at any depth (`env.root` is the query argument everywhere). -/
theorem fake_root_in_filter (env : Env) (cur : J) (key : Option Part) (q : List Seg) :
    evalExpr env cur key (.root q true) = .nodes (evalSegs env q [⟨[], env.rootTok, .arr [env.root]⟩]) :=
  Lemmas.fake_root_in_filter env cur key q

/-- The current-key identifier is the member name or array index of the candidate … -/
theorem current_key_spec (env : Env) (cur : J) :
    (∀ k, evalExpr env cur (some (.key k)) .key = .val (.str k)) ∧
    (∀ i, evalExpr env cur (some (.idx i)) .key = .val (.int i)) ∧
    evalExpr env cur none .key = .undef := Lemmas.current_key_spec env cur

/-- … because a filter selector evaluates its expression once per child with that child's name / index. -/
theorem filter_binds_current_key (env : Env) (n : Node) (e : Expr) (kvs : List (Str × J)) (xs : List J) :
    (n.val = .obj kvs → (evalSel env n (.filter e)).map (·.val) =
        (kvs.filter (fun kv => isTruthy (evalExpr env kv.2 (some (.key kv.1)) e))).map (·.2)) ∧
    (n.val = .arr xs → (evalSel env n (.filter e)).map (·.val) =
        ((enumFrom 0 xs).filter (fun iv => isTruthy (evalExpr env iv.2 (some (.idx iv.1)) e))).map (·.2)) :=
  Lemmas.filter_binds_current_key env n e kvs xs

/-- The filter-context identifier reads the caller-supplied mapping at any nesting depth: the mapping is a
    field of the evaluation environment, which nested evaluations receive unchanged. -/
theorem filter_context_any_depth (env : Env) (cur : J) (key : Option Part) (q : List Seg) :
    evalExpr env cur key (.ctx q) = .nodes (evalSegs env q [⟨[], env.rootTok, env.extra⟩]) :=
  Lemmas.filter_context_any_depth env cur key q

/-- `a in b` is `b contains a`. -/
theorem in_contains_converse (rx : Rx) (a b : V) :
    compare rx a .in_ b = compare rx b .contains a := Lemmas.in_contains_converse rx a b

/-- Membership in arrays (some element equal), strings (substring) and object keys (member name). -/
theorem membership_spec (rx : Rx) (item : J) :
    (∀ xs, compare rx (.val item) .in_ (.val (.arr xs)) = xs.any (fun x => item.eqv x)) ∧
    (∀ s t, compare rx (.val (.str t)) .in_ (.val (.str s)) = isInfix t s) ∧
    (∀ kvs k, compare rx (.val (.str k)) .in_ (.val (.obj kvs)) = dictHas kvs k) :=
  Lemmas.membership_spec rx item

/-- Membership in an array uses the equality of `==`: an element is found exactly when comparing it with `==`
    is true, so a number is not found among booleans, at any depth. -/
theorem membership_uses_filter_equality (rx : Rx) (item : J) (xs : List J) :
    compare rx (.val item) .in_ (.val (.arr xs)) = xs.any (fun x => compare rx (.val item) .eq (.val x)) := by
  rfl

/-- An operand that selects nothing (or several nodes) is not a value and is a member of nothing - not even of an
    array that holds an empty array. -/
theorem absent_never_member (rx : Rx) (ns : List Node) (c : V) :
    compare rx (.nodes ns) .in_ c = false ∧ compare rx c .contains (.nodes ns) = false := by
  constructor <;> cases c with
  | val j => cases j <;> simp [Query.compare, containsV, eqVJ]
  | _ => simp [Query.compare, containsV]

/-- `isInfix` is the substring relation. -/
theorem substring_spec (t s : Str) : isInfix t s = true ↔ ∃ pre post, s = pre ++ t ++ post :=
  Lemmas.isInfix_spec t s

/-- `=~` is a full regular-expression match honouring the literal's flags. -/
theorem regex_fullmatch_flags (rx : Rx) (p f s : Str) :
    compare rx (.val (.str s)) .re (.rx p f) = (rx.fullmatch p f s).getD false :=
  Lemmas.regex_fullmatch_flags rx p f s

/-- `<>` equals `!=`. -/
theorem lg_eq_ne (rx : Rx) (a b : V) : compare rx a .lg b = compare rx a .ne b := Lemmas.lg_eq_ne rx a b

/-- Comparison with `undefined` / `missing` equals the (negated) existence test. -/
theorem undefined_is_existence (env : Env) (cur : J) (key : Option Part) (q : List Seg)
    (hs : Rfc.singularSegs q = true) :
    evalExpr env cur key (.infix (.self q) .eq .undefined) = .val (.bool (!isTruthy (evalExpr env cur key (.self q)))) ∧
    evalExpr env cur key (.infix (.self q) .ne .undefined) = .val (.bool (isTruthy (evalExpr env cur key (.self q)))) :=
  Lemmas.undefined_singular env cur key q hs

/-! ## Alias spellings (character level)

`Lemmas.firstTok uw s` is the parser token the lexer model (`JP.Lex`, default identifier spellings) reads
at the start of `s`. Each alias pair is read as the *same* token whatever follows at a word boundary, so
the parser — and hence the compiled query — cannot tell the spellings apart. -/

/-- **Translated**: the lexer's rule texts are the ones the character-level model was written for. -/
theorem lex_source_ok :
    Lex.sourceOK Generated.lexerRules Generated.lexerPatterns Generated.lexerInitPatterns = true := by decide

/-- `and` ≡ `&&` (also directly before a parenthesis) -/
theorem alias_and (uw : Char → Bool) (rest : Str) (hb : Lex.atBoundary uw rest = true) :
    Lemmas.firstTok uw ("and".toList ++ rest) = some (.ok [.tok (.op .and)], rest) ∧
    Lemmas.firstTok uw ("&&".toList ++ rest) = some (.ok [.tok (.op .and)], rest) := Lemmas.alias_and uw rest hb

/-- `or` ≡ `||` -/
theorem alias_or (uw : Char → Bool) (rest : Str) (hb : Lex.atBoundary uw rest = true) :
    Lemmas.firstTok uw ("or".toList ++ rest) = some (.ok [.tok (.op .or)], rest) ∧
    Lemmas.firstTok uw ("||".toList ++ rest) = some (.ok [.tok (.op .or)], rest) := Lemmas.alias_or uw rest hb

/-- `not` ≡ `!` (where `!` is not the start of `!=`) -/
theorem alias_not (uw : Char → Bool) (rest : Str) (hb : Lex.atBoundary uw rest = true) (hne : ∀ r, rest ≠ '=' :: r) :
    Lemmas.firstTok uw ("not".toList ++ rest) = some (.ok [.tok .not], rest) ∧
    Lemmas.firstTok uw ("!".toList ++ rest) = some (.ok [.tok .not], rest) := Lemmas.alias_not uw rest hb hne

/-- `nil`, `null`, `none` and their capitalised forms are one token -/
theorem alias_nil (uw : Char → Bool) (rest : Str) (hb : Lex.atBoundary uw rest = true) (hnp : ∀ r, rest ≠ '(' :: r)
    (w : String) (hw : w ∈ ["nil", "Nil", "null", "Null", "none", "None"]) :
    Lemmas.firstTok uw (w.toList ++ rest) = some (.ok [.tok .nil], rest) := Lemmas.alias_nil uw rest hb hnp w hw

theorem alias_true (uw : Char → Bool) (rest : Str) (hb : Lex.atBoundary uw rest = true) (hnp : ∀ r, rest ≠ '(' :: r)
    (w : String) (hw : w ∈ ["true", "True"]) :
    Lemmas.firstTok uw (w.toList ++ rest) = some (.ok [.tok .true_], rest) := Lemmas.alias_true uw rest hb hnp w hw

theorem alias_false (uw : Char → Bool) (rest : Str) (hb : Lex.atBoundary uw rest = true) (hnp : ∀ r, rest ≠ '(' :: r)
    (w : String) (hw : w ∈ ["false", "False"]) :
    Lemmas.firstTok uw (w.toList ++ rest) = some (.ok [.tok .false_], rest) := Lemmas.alias_false uw rest hb hnp w hw

/-- `undefined` ≡ `missing` -/
theorem alias_undefined (uw : Char → Bool) (rest : Str) (hb : Lex.atBoundary uw rest = true) (hnp : ∀ r, rest ≠ '(' :: r)
    (w : String) (hw : w ∈ ["undefined", "missing"]) :
    Lemmas.firstTok uw (w.toList ++ rest) = some (.ok [.tok .undefined], rest) := Lemmas.alias_undefined uw rest hb hnp w hw

/-! ### Non-vacuity -/
example : Lex.atBoundary (fun _ => false) "(@.a)]".toList = true := by decide

example : isInfix "bc".toList "abcd".toList = true := by decide
example : Rfc.singularSegs [.child [.name ['a']], .child [.index 0]] = true := by decide

/-! ### The non-standard type functions `typeof` / `type` and `isinstance` / `is` (function_extensions/typeof.py, is_instance.py) -/

/-- `typeof(q)` is the JSON name of the type of the value `q` selects - "undefined" when it selects nothing, "array"
    for the list of values when it selects several. -/
theorem typeof_spec (env : Env) (cur : J) (key : Option Part) (q : List Seg) :
    evalExpr env cur key (.func "typeof".toList [.self q]) =
      .val (.str (typeofVals ((evalSegs env q [⟨[], env.rootTok, cur⟩]).map (·.val)))) := by
  simp [evalExpr, applyFn, evalArgs, fnTypeof]

theorem typeof_names (v : J) (v' : J) (vs : List J) :
    typeofVals [] = "undefined".toList ∧ typeofVals [v] = typeName v ∧ typeofVals (v :: v' :: vs) = "array".toList := by
  refine ⟨rfl, rfl, rfl⟩

/-- `type` is `typeof`, `is` is `isinstance`: the registry holds the same function under both names. -/
theorem type_function_aliases (env : Env) (cur : J) (key : Option Part) (args : List Expr) :
    evalExpr env cur key (.func "type".toList args) = evalExpr env cur key (.func "typeof".toList args) ∧
    evalExpr env cur key (.func "is".toList args) = evalExpr env cur key (.func "isinstance".toList args) := by
  constructor <;> simp [evalExpr, applyFn]

/-- `isinstance(q, typeof(q))` is true for every query and document: the name `typeof` reports is among the names
    `isinstance` accepts for the same nodes. -/
theorem isinstance_accepts_typeof (vs : List J) : (aliasesOfVals vs).contains (typeofVals vs) = true := by
  unfold aliasesOfVals typeofVals
  cases vs with
  | nil => decide
  | cons v rest =>
    simp only [List.isEmpty_cons, Bool.false_eq_true, if_false]
    cases h : valuesOrSingular (v :: rest) <;> simp [typeName, typeAliases]

end JP.Props.C13
