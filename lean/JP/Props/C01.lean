/-
  C01 — RFC 9535 segments and selectors yield exactly the specified nodelist.

  `Query.evalSegs` is the code-shaped model of selectors.py / path.py; `Rfc.evalSegs` is the RFC 9535
  interpreter. `RepresentsAll` says: same length, same order (duplicates included), and each match
  carries the value, the location parts and the *normalized path string* of the corresponding RFC node.
  All statements hold for every document, every array length, every integer — no bounds.
-/
import JP.Lemmas.Query
import JP.Lemmas.LexStr
import JP.Lemmas.RfcSpell
namespace JP.Props.C01
open JP JP.Query JP.Lemmas

/-- **Array slice selector**: CPython's `slice.indices` + `range` select exactly the indices of
    RFC 9535 section 2.3.4.2.2 (Normalize, Bounds and the two loops), in the same order, for all signs
    of start/stop/step, zero step, omitted and out-of-range bounds, every length. -/
theorem slice_refines_rfc (start stop step : Option Int) (len : Nat) :
    codeSlice start stop step len = Rfc.sliceIndices start stop step len := by
  exact Lemmas.slice_refines_rfc start stop step len

/-- Every index a slice selects is a valid position of the array. -/
theorem slice_in_range (start stop step : Option Int) (len : Nat) :
    ∀ i ∈ Rfc.sliceIndices start stop step len, 0 ≤ i ∧ i < len := by
  exact Lemmas.slice_in_range start stop step len

/-- **Wrong kind of value**: every selector applied to a string, number, boolean or null selects nothing. -/
theorem primitive_selects_nothing (env : Env) (n : Node) (s : Sel)
    (h : n.val.isContainer = false) : evalSel env n s = [] := by
  exact Lemmas.primitive_selects_nothing env n s h

/-- **Selectors**: name, index, slice and wildcard selectors yield exactly the RFC nodes (the
    index-on-object departure is part of `Rfc.evalSel` and stated separately below). -/
theorem sel_refines_rfc (env : Env) (renv : Rfc.REnv) (n : Node) (r : Rfc.RNode) (s : Sel)
    (hs : plainSel s = true) (hr : Represents n r) :
    RepresentsAll (evalSel env n s) (Rfc.evalSel renv r s) := by
  exact Lemmas.sel_refines_rfc env renv n r s hs hr

/-- **Segments**: child segments (bracketed lists: concatenation in selector order, duplicates kept)
    and descendant segments (the node and all descendants, parents before children, members in
    document order) yield exactly the RFC nodelist, for queries of any length. -/
theorem query_refines_rfc (rx : Rx) (segs : List Seg) (doc extra : J)
    (hp : plainSegs segs = true) (hw : Rfc.wellFormedSegs segs = true) :
    RepresentsAll (finditer rx ⟨segs, false⟩ doc extra) (Rfc.query rx segs doc) := by
  unfold finditer Rfc.query
  exact Lemmas.segs_refines_rfc _ _ segs _ _ hp hw
    ⟨⟨rfl, rfl, rfl⟩, trivial⟩

/-- The documented departure: an index selector applied to an object selects the member whose name is
    the decimal spelling of the index (same value as the name selector for that spelling). -/
theorem index_on_object (env : Env) (n : Node) (kvs : List (Str × J)) (i : Int) (h : n.val = .obj kvs) :
    evalSel env n (.index i) = evalSel env n (.name (intStr i)) ∨
    (∃ v, dictGet kvs (intStr i) = some v ∧
      (evalSel env n (.index i)).map (·.val) = [v] ∧ (evalSel env n (.name (intStr i))).map (·.val) = [v]) := by
  exact Lemmas.index_on_object env n kvs i h

/-! ## Spellings (character level)

The RFC lets a member name be written in either quote style with any mix of literal characters and
escapes. `Lex.Spells q s w` is that grammar (RFC 9535 section 2.3.1.1: `unescaped`, the other quote,
`ESC quote`, `ESC escapable`, `\uXXXX` in any case, surrogate pairs). -/

/-- **Translated**: the lexer's rule texts are the ones the character-level model was written for. -/
theorem lex_source_ok :
    Lex.sourceOK Generated.lexerRules Generated.lexerPatterns Generated.lexerInitPatterns = true := by decide

/-- **Any RFC spelling of a string literal is read as that string**: the lexer's quoted-string rule takes
    exactly the text between the quotes, and the parser's decoding of it is the string spelled. -/
theorem string_spelling (q : Char) (hq : q = '\'' ∨ q = '"') (k : Lex.Kind) (s w rest : Str) (h : Lex.Spells q s w) :
    Lex.mQuoted q k (q :: w ++ q :: rest) = some ([⟨k, w⟩], rest) ∧ Lex.decodeQ q w = .ok s :=
  ⟨Lemmas.spelling_lexes q hq k s w rest h, Lemmas.spelling_decodes q hq s w h⟩

/-- **Dot shorthand**: `.name` is one name token for every name of the shorthand shape (a letter, `_` or a
    non-ASCII character, then letters, digits, `_`, `-`, non-ASCII), keywords and `_`-names included. -/
theorem dot_shorthand (cfg : Lex.Cfg) (c : Char) (cs rest : Str) (hc : Lex.keyStart c = true)
    (hcs : cs.all Lex.keyCont = true) (hrest : ∀ d r, rest = d :: r → Lex.keyCont d = false) :
    Lex.firstMatch (Lex.rules cfg) ('.' :: c :: cs ++ rest) = some ([⟨.prop, c :: cs⟩], rest) :=
  Lemmas.dot_shorthand_lexes cfg c cs rest hc hcs hrest

/-- **Every RFC 9535 spelling of a filter-free query compiles to that query.** `RfcSpell.QuerySpell segs text`
    is the RFC grammar (sections 2.1-2.5, written from the ABNF in `JP/RfcSpell.lean`): `$`, then segments in dot,
    bracket or descendant notation, names in either quote style with any mix of literal characters and escapes,
    canonical integers, slices with any parts omitted, wildcards, and blanks wherever the grammar allows `S`.
    The composed model of compile (character-level lexer, literal decoding, parser) returns exactly `segs` — so all
    spellings of one query are the same compiled query, and (with `query_refines_rfc`) select the RFC's nodelist. -/
theorem any_spelling_compiles (pr : Surface.Prec) (hpr : Surface.precOK pr = true) (uw : Char → Bool) (segs : List Seg) (text : Str)
    (h : RfcSpell.QuerySpell segs text) :
    Lex.compileText pr ⟨Lex.dflt, uw⟩ text = some ⟨segs, false⟩ :=
  Lemmas.rfc_spelling_compiles pr hpr uw segs text h

/-- two spellings of the same query are the same compiled query -/
theorem spellings_agree (pr : Surface.Prec) (hpr : Surface.precOK pr = true) (uw : Char → Bool) (segs : List Seg) (t1 t2 : Str)
    (h1 : RfcSpell.QuerySpell segs t1) (h2 : RfcSpell.QuerySpell segs t2) :
    Lex.compileText pr ⟨Lex.dflt, uw⟩ t1 = Lex.compileText pr ⟨Lex.dflt, uw⟩ t2 := by
  rw [Lemmas.rfc_spelling_compiles pr hpr uw segs t1 h1, Lemmas.rfc_spelling_compiles pr hpr uw segs t2 h2]

/-! ### Non-vacuity -/
/-- `$ .a['b'][ 1 ]` spells the query with segments a, b, 1 -/
example : RfcSpell.QuerySpell [.child [.name ['a']], .child [.name ['b']], .child [.index 1]] "$ .a['b'][ 1 ]".toList :=
  ⟨" .a['b'][ 1 ]".toList, [], by
    refine ⟨?_, rfl, rfl⟩
    exact .dot (.child [.name ['a']]) ['a'] [' '] (.name ['a'] (by decide)) (by intro _ _; decide) (by decide) _ _
      (.bracket [.name ['b']] "'b'".toList [] [] [] (.one _ _ (.nameSQ ['b'] ['b'] (.cons (.unescaped 'b' (by decide)) .nil))) (by decide) (by decide) (by decide) _ _
        (.bracket [.index 1] ['1'] [] [' '] [' '] (.one _ _ (.index 1)) (by decide) (by decide) (by decide) _ _ .nil))⟩
example : Lex.Spells '\'' ['a', '\'', 'é'] ['a', '\\', '\'', '\\', 'u', '0', '0', 'E', '9'] :=
  .cons (.unescaped 'a' (by decide)) (.cons .quote (.cons (.hex 'é' '0' '0' 'E' '9' (by decide) (by decide)) .nil))

example : Rfc.sliceIndices (some 5) (some (-6)) (some (-2)) 4 = [3, 1] := by
  simp [Rfc.sliceIndices, Rfc.bounds, Rfc.normalize, Int.min_def, Int.max_def]
  rw [Rfc.loopDown]; simp
  rw [Rfc.loopDown]; simp
  rw [Rfc.loopDown]; simp
example : codeSlice none none (some (-1)) 3 = [2, 1, 0] := by decide
example : plainSegs [.desc, .child [.name ['a'], .slice none (some 2) none, .wild]] = true ∧
    Rfc.wellFormedSegs [.desc, .child [.name ['a'], .slice none (some 2) none, .wild]] = true := by decide

end JP.Props.C01
