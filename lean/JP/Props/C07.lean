/-
  C07 — Compile-time gate: valid RFC queries accepted, ill-typed or out-of-range refused.

  `Typing.gateSegs` is the code-shaped model of the checks parse.py / env.py perform while compiling
  (parametrised by the function registry regenerated from the source); `Rfc.wtSegs` is the RFC 9535
  section 2.4.3 typing judgment together with the filter-expression syntax of 2.3.5.1.
  "Rejected queries are never evaluated" holds by construction: compilation raises, no query object exists.
-/
import JP.Lemmas.Typing
import JP.Lemmas.SyntaxGate
namespace JP.Props.C07
open JP JP.Typing JP.Lemmas

/-- The registry extracted from the current source has the five standard functions with the RFC signatures. -/
theorem registry_ok : StdTable (tableOfGenerated Generated.functions) := by decide

/-- The registry extracted from the current source holds the nine names the evaluator model dispatches on, with the
    signatures the model gives them (dropping an alias or changing a parameter or result type breaks this). -/
theorem registry_is_what_is_modelled : ModelledTable (tableOfGenerated Generated.functions) := by decide

/-- **Translated**: `Parser.COMPARISON_OPERATORS` as it is in the source lists exactly the operators the gate model
    holds to the comparison typing rules (`==`, `!=`, `<>`, `<`, `<=`, `>`, `>=`, `=~`) and nothing else. -/
theorem comparison_table_ok : comparisonTableOK Generated.comparisonOperators = true := by decide

/-- `<>` is held to the typing rules `!=` is held to: the same queries are refused. -/
theorem lg_gated_as_ne (tbl : FuncTable) (l r : Expr) :
    gateExpr tbl (.infix l .lg r) = gateExpr tbl (.infix l .ne r) := by
  simp [gateExpr, isComparisonOp, isLogicalOp]
  rfl

/-- **Gate = RFC typing**, for every standard query whose comparison operands are atoms, at any nesting
    depth (under `!`, inside `&&`/`||`, inside parentheses, as function arguments, in nested filters). -/
theorem gate_iff_wt (tbl : FuncTable) (ht : StdTable tbl) (segs : List Seg)
    (h1 : Rfc.stdSegs segs = true) (h2 : cmpAtomicSegs segs = true) (h3 : wfDeepSegs segs = true) :
    gateSegs tbl segs = Rfc.wtSegs segs :=
  Lemmas.gate_segs_iff_wt tbl ht segs h1 h2 h3

/-- Soundness: what the gate accepts is well-typed. -/
theorem gate_sound (tbl : FuncTable) (ht : StdTable tbl) (segs : List Seg)
    (h1 : Rfc.stdSegs segs = true) (h2 : cmpAtomicSegs segs = true) (h3 : wfDeepSegs segs = true)
    (h : gateSegs tbl segs = true) : Rfc.wtSegs segs = true := by
  rw [← Lemmas.gate_segs_iff_wt tbl ht segs h1 h2 h3]; exact h

/-- Completeness: every well-typed standard query compiles. -/
theorem gate_complete (tbl : FuncTable) (ht : StdTable tbl) (segs : List Seg)
    (h1 : Rfc.stdSegs segs = true) (h2 : cmpAtomicSegs segs = true) (h3 : wfDeepSegs segs = true)
    (h : Rfc.wtSegs segs = true) : gateSegs tbl segs = true := by
  rw [Lemmas.gate_segs_iff_wt tbl ht segs h1 h2 h3]; exact h

/-! Named rejections (no hypothesis on the rest of the expression: they hold in every context). -/

theorem unknown_function_rejected (tbl : FuncTable) (name : Str) (args : List Expr)
    (h : lookupFn tbl name = none) : gateExpr tbl (.func name args) = false :=
  Lemmas.unknown_function_rejected tbl name args h

theorem wrong_arity_rejected (tbl : FuncTable) (name : Str) (args : List Expr) (tys : List Ty) (r : Ty)
    (h : lookupFn tbl name = some (tys, r)) (hl : args.length ≠ tys.length) :
    gateExpr tbl (.func name args) = false :=
  Lemmas.wrong_arity_rejected tbl name args tys r h hl

/-- a value-typed function result used as a test at any position of a logical expression -/
theorem value_result_as_test_rejected (tbl : FuncTable) (name : Str) (args : List Expr) (tys : List Ty)
    (h : lookupFn tbl name = some (tys, .value)) (e : Expr) :
    gateSel tbl (.filter (.func name args)) = false ∧
    gateExpr tbl (.not (.func name args)) = false ∧
    gateExpr tbl (.infix (.func name args) .and e) = false ∧
    gateExpr tbl (.infix e .and (.func name args)) = false ∧
    gateExpr tbl (.infix (.func name args) .or e) = false ∧
    gateExpr tbl (.infix e .or (.func name args)) = false :=
  Lemmas.value_result_as_test_rejected tbl name args tys h e

/-- a literal that is not compared -/
theorem uncompared_literal_rejected (tbl : FuncTable) (lit : Expr) (hl : isLiteralOrNil lit = true) (e : Expr) :
    gateSel tbl (.filter lit) = false ∧ gateExpr tbl (.not lit) = false ∧
    gateExpr tbl (.infix lit .and e) = false ∧ gateExpr tbl (.infix e .or lit) = false :=
  Lemmas.uncompared_literal_rejected tbl lit hl e

/-- a non-singular query used as a comparison operand -/
theorem nonsingular_operand_rejected (tbl : FuncTable) (q : List Seg) (hq : Rfc.singularSegs q = false)
    (op : CmpOp) (hop : isComparisonOp op = true) (e : Expr) :
    gateExpr tbl (.infix (.self q) op e) = false ∧ gateExpr tbl (.infix e op (.self q)) = false ∧
    gateExpr tbl (.infix (.root q false) op e) = false :=
  Lemmas.nonsingular_operand_rejected tbl q hq op hop e

/-- a logical-typed function result used as a comparison operand -/
theorem logical_result_operand_rejected (tbl : FuncTable) (name : Str) (args : List Expr) (tys : List Ty)
    (h : lookupFn tbl name = some (tys, .logical)) (op : CmpOp) (hop : isComparisonOp op = true) (e : Expr) :
    gateExpr tbl (.infix (.func name args) op e) = false ∧ gateExpr tbl (.infix e op (.func name args)) = false :=
  Lemmas.logical_result_operand_rejected tbl name args tys h op hop e

/-- An index is accepted exactly when it lies in the configured integer range, for every configuration. -/
theorem range_gate (lo hi i : Int) : indexInRange lo hi i = true ↔ lo ≤ i ∧ i ≤ hi :=
  Lemmas.range_gate lo hi i

theorem slice_range_gate (lo hi : Int) (a b c : Option Int) :
    sliceInRange lo hi a b c = true ↔
      (∀ x, a = some x → lo ≤ x ∧ x ≤ hi) ∧ (∀ x, b = some x → lo ≤ x ∧ x ≤ hi) ∧ (∀ x, c = some x → lo ≤ x ∧ x ≤ hi) :=
  Lemmas.slice_range_gate lo hi a b c

/-- The default limits in the source are ±(2^53 − 1). -/
theorem default_limits : Generated.envMaxIntIndex = 2^53 - 1 ∧ Generated.envMinIntIndex = -(2^53) + 1 := by decide

/-! ## Syntactic refusals of a bracketed selection (parser model `Surface.parseSelList`, lexer model `JP.Lex`) -/

/-- **Empty list**: the parser never succeeds on `[` immediately followed by `]`, whatever precedes and follows. -/
theorem empty_list_rejected (pr : Surface.Prec) (fuel : Nat) (rest : List Surface.Tok) :
    ∀ r, Surface.parsePath pr fuel (.lbracket :: .rbracket :: rest) ≠ .ok r :=
  Lemmas.parsePath_empty_list pr fuel rest

/-- **Comma-terminated list**: a selector followed by `, ]` is a syntax error. -/
theorem trailing_comma_rejected (pr : Surface.Prec) (fuel : Nat) (toks rest : List Surface.Tok) (s : Sel)
    (h : Surface.parseSelItem pr fuel toks = .ok (s, .comma :: .rbracket :: rest)) :
    Surface.parseSelList pr (fuel + 1) toks = .error .syntax :=
  Lemmas.parseSelList_trailing_comma pr fuel toks rest s h

/-- **Translated**: the test `parse_selector_list` applies to the text of an index token. -/
theorem leading_zero_source_ok :
    Generated.indexLeadingZeroTest = "len(v) > 1 and v.startswith('0') or v.startswith('-0') | under: kind == TOKEN_INT" := by decide

/-- **Leading zeros**: on the texts the lexer's integer rule produces (`-?[0-9]+`), that test refuses exactly
    the texts that are not an RFC 9535 `int` (`"0" / (["-"] DIGIT1 *DIGIT)`): `01`, `00`, `-0`, `-01`, … -/
theorem leading_zero_gate (v : Str) (h : Lemmas.intShape v = true) :
    Lemmas.indexTextRefused v = !Lemmas.rfcInt v := Lemmas.leading_zero_gate v h


/-! ### Non-vacuity -/
example : gateSegs (tableOfGenerated Generated.functions)
    [.child [.filter (.infix (.func "length".toList [.self [.child [.name ['a']]]]) .gt (.int 1))]] = true := by decide
example : gateSegs (tableOfGenerated Generated.functions)
    [.child [.filter (.not (.func "length".toList [.self []]))]] = false := by decide

end JP.Props.C07
