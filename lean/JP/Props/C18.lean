/-
  C18 — The command-line tool is a faithful front end to the library (decision logic).

  These are proofs over the tables regenerated from `cli.py` / `exceptions.py` on every run; the
  space is finite, so `decide` is a complete proof, and a change to the source that drops an
  `except` clause, renames an option's dest, or reads an undefined attribute makes the
  corresponding `decide` fail. Output faithfulness (what is written for a successful call, with
  every option combination) is tied by the correspondence run of the real `main()`.
-/
import JP.Cli
namespace JP.Props.C18
open JP JP.Cli JP.Generated

/-- Every `args.<attr>` a sub-command handler reads is defined by that sub-command's options or the
    global options (no `AttributeError` for any option combination). -/
theorem attrs_defined : attrsDefined cliAttrReads cliSubcommands cliGlobalDests = true := by decide

/-- For every input the library rejects (every class of the documented families the call can raise,
    the undecodable-document errors - malformed JSON, bytes that are not text, a number too long for `int()` -
    and an expression file that is not text) every handler writes one line to standard error, exits
    with status 1 and prints no traceback - unless `--debug` is given, when it re-raises. -/
theorem errors_caught : errorsCaught exceptionClasses cliHandlers = true := by decide

/-- An expression read from a file (`-r`) is read inside a `try` block, in every handler that reads one. -/
theorem file_reads_guarded : fileReadsGuarded cliHandlers cliAttrReads = true := by decide

/-- Each handler is installed by exactly one sub-command. -/
theorem handlers_installed : handlersInstalled cliHandlers cliSubcommands = true := by decide

/-- The name error family is caught by the path command (named corollary). -/
theorem name_error_caught :
    ∀ t ∈ (cliHandlers.lookup "handle_path_command").getD [],
      t.1.contains "compile" = true →
      onRaise exceptionClasses t "JSONPathNameError" false = ⟨1, true, false⟩ := by decide

/-! ### Non-vacuity: the tables are populated and an uncaught class would be detected -/
example : cliHandlers.length = 3 ∧ (cliHandlers.map (fun h => h.2.length)) = [2, 3, 2] := by decide
example : subclassOf exceptionClasses 8 "JSONDecodeError" "ValueError" = true ∧ subclassOf exceptionClasses 8 "JSONPatchError" "ValueError" = false := by decide
example : onRaise exceptionClasses ([], [(["JSONPatchError"], true, true, 1)]) "KeyError" false = ⟨-1, false, true⟩ := by decide

end JP.Props.C18
