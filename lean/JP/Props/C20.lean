/-
  C20 — Match -> pointer -> patch edits exactly the matched node.

  A match carries `locParts loc` (C03 `match_located`); `JSONPointer.from_match` keeps those parts as
  they are, and `JSONPatch` resolves them with the C04/C05 machinery. `setAt` / `eraseAt` are the
  direct edits at the location.
-/
import JP.Lemmas.Locate
namespace JP.Props.C20
open JP JP.Query JP.Pointer JP.Patch JP.Lemmas

/-- `test` with the matched value passes and leaves the document unchanged. -/
theorem edit_test (doc v : J) (loc : List Rfc.LStep) (hwf : doc.wf = true)
    (h : locValue doc loc = some v) :
    Patch.apply [.test (locParts loc) v] doc = .ok doc :=
  Lemmas.edit_test doc v loc hwf h

/-- `replace` with a new value yields the document edited directly at that location … -/
theorem edit_replace (doc v w : J) (loc : List Rfc.LStep) (h : locValue doc loc = some v) :
    ∃ d, setAt doc loc w = some d ∧ Patch.apply [.replace (locParts loc) w] doc = .ok d :=
  Lemmas.edit_replace doc v w loc h

/-- … which differs from the original at exactly that location: the new value is there and every
    location that is neither inside nor above it keeps its value. -/
theorem replace_frame (doc w d : J) (loc : List Rfc.LStep) (h : setAt doc loc w = some d) :
    locValue d loc = some w ∧ ∀ loc', ¬ Related loc loc' → locValue d loc' = locValue doc loc' :=
  Lemmas.setAt_spec doc w d loc h

/-- `remove` yields the document without exactly that member or element. -/
theorem edit_remove (doc v : J) (loc : List Rfc.LStep) (hne : loc ≠ []) (h : locValue doc loc = some v) :
    ∃ d, eraseAt doc loc = some d ∧ Patch.apply [.remove (locParts loc)] doc = .ok d :=
  Lemmas.edit_remove doc v loc hne h

/-- Removing a member: it is gone, and every location that is neither inside nor above it keeps its
    value (whatever the member is called). -/
theorem remove_member_frame (doc d : J) (loc : List Rfc.LStep) (k : Str)
    (h : eraseAt doc (loc ++ [.name k]) = some d) (hwf : doc.wf = true) :
    locValue d (loc ++ [.name k]) = none ∧
    ∀ loc', ¬ Related (loc ++ [.name k]) loc' → locValue d loc' = locValue doc loc' :=
  Lemmas.eraseAt_member_spec doc d loc k h hwf

/-- Removing an element: every location that is neither inside nor above the array keeps its value,
    earlier elements stay, later ones shift by one. -/
theorem remove_element_frame (doc d : J) (loc : List Rfc.LStep) (n : Nat)
    (h : eraseAt doc (loc ++ [.index n]) = some d) :
    (∀ loc', ¬ Related loc loc' → locValue d loc' = locValue doc loc') ∧
    (∀ m rest, m < n → locValue d (loc ++ .index m :: rest) = locValue doc (loc ++ .index m :: rest)) ∧
    (∀ m rest, n ≤ m → locValue d (loc ++ .index m :: rest) = locValue doc (loc ++ .index (m + 1) :: rest)) :=
  Lemmas.eraseAt_element_spec doc d loc n h

/-! ### Non-vacuity -/
example : locValue (.obj [("+1".toList, .int 0), ("1".toList, .arr [.int 5])]) [.name "1".toList, .index 0] = some (.int 5) := by rfl
example : setAt (.obj [("+1".toList, .int 0), ("1".toList, .arr [.int 5])]) [.name "1".toList, .index 0] (.int 9)
    = some (.obj [("+1".toList, .int 0), ("1".toList, .arr [.int 9])]) := by rfl

end JP.Props.C20
