/-
  C15 — A patch is a faithful, reusable value: document, builder and dict forms agree.

  `Patch.build` models `JSONPatch._load/_build`, the builder methods are the `Op` constructors,
  `Patch.asdicts` models `JSONPatch.asdicts`. In the pure model `Patch.apply ops doc` is a function
  of `(ops, doc)`: applying never changes the patch; aliasing with the caller's objects is decided
  on histories by the harness.
-/
import JP.Lemmas.PatchValue
namespace JP.Props.C15
open JP JP.Pointer JP.Patch JP.Lemmas

/-- Each printed dict carries the operation name it was given (first member `"op"`). -/
theorem asdict_name (op : Op) :
    ∃ rest, op.asdict = .obj (("op".toList, .str op.name.toList) :: rest) := Lemmas.asdict_name op

/-- Constructing a patch from its own list-of-dicts output gives back the same operations … -/
theorem build_asdicts (dec : EscDec) (ue : Bool) (ops : List Op) (hne : ops ≠ [])
    (h : ∀ op ∈ ops, OpRoundTrips dec ue op) :
    build dec ue (asdicts ops) = .ok ops := Lemmas.build_asdicts dec ue ops hne h

/-- … hence prints the same list of dicts and has the same effect on every document. -/
theorem roundtrip_same_effect (dec : EscDec) (ue : Bool) (ops : List Op) (hne : ops ≠ [])
    (h : ∀ op ∈ ops, OpRoundTrips dec ue op) (doc : J) :
    (build dec ue (asdicts ops)).map asdicts = .ok (asdicts ops) ∧
    (build dec ue (asdicts ops)).bind (fun p => Patch.apply p doc) = Patch.apply ops doc := by
  rw [Lemmas.build_asdicts dec ue ops hne h]; exact ⟨rfl, rfl⟩

/-- The document form is built operation by operation by the matching builder (`buildOp`), and an empty
    list is the empty patch. -/
theorem load_eq_build (dec : EscDec) (ue : Bool) (ds : List J) (hne : ds ≠ []) :
    build dec ue (.arr ds) = ds.mapM (buildOp dec ue) := Lemmas.build_is_mapM dec ue ds hne

theorem build_empty (dec : EscDec) (ue : Bool) : build dec ue (.arr []) = .ok [] := Lemmas.build_empty dec ue

/-- In particular `{"op": "addap", …}` builds the add-or-append operation. -/
theorem build_addap (dec : EscDec) (ue : Bool) (path : Str) (v : J) (ps : List Part)
    (hp : Pointer.parse dec ue path = .ok ps) :
    buildOp dec ue (.obj [("op".toList, .str "addap".toList), ("path".toList, .str path), ("value".toList, v)])
      = .ok (.addap ps v) := Lemmas.build_addap dec ue path v ps hp

/-- addne differs from add only in leaving an existing object member untouched. -/
theorem addne_spec (doc v : J) (path : List Part) :
    applyOp doc (.addne path v) =
      (match target doc path with
       | .error e => .error e
       | .ok (some (.obj kvs), tok, _) => if dictHas kvs (partStr tok) then .ok doc else applyOp doc (.add path v)
       | .ok _ => applyOp doc (.add path v)) := Lemmas.addne_spec doc v path

theorem addne_existing_member (kvs : List (Str × J)) (k : Str) (v old : J) (h : dictGet kvs k = some old) :
    applyOp (.obj kvs) (.addne [.key k] v) = .ok (.obj kvs) ∧
    applyOp (.obj kvs) (.add [.key k] v) = .ok (.obj (dictSet kvs k v)) :=
  Lemmas.addne_existing_member kvs k v old h

theorem addne_new_member (kvs : List (Str × J)) (k : Str) (v : J) (h : dictGet kvs k = none) :
    applyOp (.obj kvs) (.addne [.key k] v) = applyOp (.obj kvs) (.add [.key k] v) :=
  Lemmas.addne_new_member kvs k v h

/-- addap differs from add only in appending when the array index cannot be resolved. -/
theorem addap_spec (doc v : J) (path : List Part) :
    applyOp doc (.addap path v) =
      (match target doc path with
       | .error e => .error e
       | .ok (some (.arr xs), _, none) => writeBack doc path.dropLast (.arr (xs ++ [v]))
       | .ok _ => applyOp doc (.add path v)) := Lemmas.addap_spec doc v path

theorem addap_unresolvable_index (xs : List J) (v : J) (n : Nat) (h : xs.length ≤ n) :
    applyOp (.arr xs) (.addap [.idx n] v) = .ok (.arr (xs ++ [v])) :=
  Lemmas.addap_unresolvable_index xs v n h

theorem addap_resolvable_index (xs : List J) (v : J) (n : Nat) (h : n < xs.length) :
    applyOp (.arr xs) (.addap [.idx n] v) = applyOp (.arr xs) (.add [.idx n] v) :=
  Lemmas.addap_resolvable_index xs v n h

/-- Applying the same patch to equal documents gives equal results (apply is a function). -/
theorem apply_deterministic (ops : List Op) (d1 d2 : J) (h : d1 = d2) :
    Patch.apply ops d1 = Patch.apply ops d2 := by rw [h]

/-! ### Non-vacuity -/
example : OpRoundTrips (fun _ => none) true (.add [.key "a".toList, .idx 0] .null) := by
  show Pointer.parse _ true (encode [.key "a".toList, .idx 0]) = .ok _
  rfl

/-! ### The open finding C15-KF1, as a kernel-checked counterexample of `build_asdicts` without `OpRoundTrips` -/

/-- A path token that still holds a backslash after escape decoding does not survive printing and re-reading: with a
    decoder that reads `\u0041` as `A` (as the codec does), the operation whose member name is the six characters
    `\u0041` prints the path `/\u0041`, and building a patch from that output addresses the member `A`. -/
theorem build_asdicts_counterexample :
    let dec : EscDec := fun s => if s = "/\\u0041".toList then some "/A".toList else none
    build dec true (asdicts [.add [.key "\\u0041".toList] (.int 1)]) = .ok [.add [.key "A".toList] (.int 1)] := by
  rfl

end JP.Props.C15
