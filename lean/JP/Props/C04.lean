/-
  C04 — JSON Pointer resolution conforms to RFC 6901 for every document and pointer.

  Property theorems only (helper lemmas live in JP/Lemmas). Every theorem is about the
  code-shaped model `JP.Pointer` (tied to `jsonpath/pointer.py` by the correspondence run)
  and the RFC 6901 definitions `valueAt`, `spell`, `rfcParse`, `rfcEval`.
  All statements quantify over every escape decoder `dec` (Python's `unicode-escape` codec
  is abstract), every document and every pointer — no size or depth bound.
-/
import JP.Lemmas.Pointer
import JP.Generated.Tables
import JP.Lemmas.NegIndex
namespace JP.Props.C04
open JP JP.Pointer

/-- **Every node is reachable** (escape decoding disabled): the RFC 6901 pointer spelled from a
    node's member names and array indices resolves to that very node, whatever characters the
    names contain. -/
theorem resolve_every_node (dec : EscDec) (doc v : J) (ps : List Step)
    (hat : valueAt doc ps = some v) (hr : ∀ p ∈ ps, StepInRange p) :
    resolveText dec false (spell ps) doc = .ok v := by
  exact Lemmas.resolveText_spell dec false doc v ps hat hr (by simp)

/-- **Every node is reachable** (escape decoding enabled, the default): same, for every pointer
    that contains no backslash. -/
theorem resolve_every_node_escape (dec : EscDec) (doc v : J) (ps : List Step)
    (hat : valueAt doc ps = some v) (hr : ∀ p ∈ ps, StepInRange p)
    (hb : (spell ps).contains '\\' = false) :
    resolveText dec true (spell ps) doc = .ok v := by
  exact Lemmas.resolveText_spell dec true doc v ps hat hr (fun _ => hb)

/-- **Conformance, both directions**: for every syntactically valid RFC 6901 pointer outside the
    documented extensions, resolution returns exactly the value RFC 6901 section 4 defines, and
    when the RFC cannot evaluate the pointer it raises a pointer *resolution* error — it never
    yields a value. -/
theorem resolve_conforms (dec : EscDec) (ue : Bool) (doc : J) (s : Str) (ts : List Str)
    (hs : rfcParse s = some ts) (hext : ∀ t ∈ ts, isExtensionToken t = false)
    (hb : ue = true → s.contains '\\' = false) :
    match rfcEval doc ts with
    | some v => resolveText dec ue s doc = .ok v
    | none => ∃ e, resolveText dec ue s doc = .error e ∧ e.isPointerResolution = true := by
  exact Lemmas.resolveText_conforms dec ue doc s ts hs hext hb

/-- Named corollary: a token applied to a string, number, boolean or null never yields a value. -/
theorem primitive_never_resolves (doc : J) (p : Part) (h : doc.isContainer = false) :
    ∃ e, getitem doc p = .error e ∧ e.isPointerResolution = true := by
  exact Lemmas.getitem_primitive doc p h

/-- Named corollary: `-` and an index equal to the length never resolve. -/
theorem dash_and_length_never_resolve (xs : List J) :
    (∃ e, getitem (.arr xs) (.key ['-']) = .error e ∧ e.isPointerResolution = true) ∧
    (∃ e, getitem (.arr xs) (.idx xs.length) = .error e ∧ e.isPointerResolution = true) := by
  exact Lemmas.getitem_dash_length xs

/-- `exists` agrees with whether `resolve` succeeds (for every parsed pointer, extensions included). -/
theorem exists_iff_resolve (doc : J) (ps : List Part) :
    (∀ v, resolveParts doc ps = .ok v → existsIn doc ps = .ok true) ∧
    (∀ e, resolveParts doc ps = .error e → e.isPointerResolution = true → existsIn doc ps = .ok false) := by
  exact Lemmas.existsIn_spec doc ps

/-- **Translated tables** (regenerated from pointer.py on every run): the index-token pattern, the keys
    selector and the index limits in the source are the ones the model `parseIndexToken` / `indexOf` /
    `getitem` were written for. A changed regular expression breaks this obligation even when harmless;
    the check then searches for a failing input. -/
theorem source_tables_ok :
    Generated.reIndexToken = "(?:0|-?[1-9][0-9]*)" ∧ Generated.pointerKeysSelector = "~" ∧
    Generated.pointerMaxIntIndex = maxIntIndex ∧ Generated.pointerMinIntIndex = minIntIndex := by decide

/-! ### Non-vacuity: the hypotheses are met by concrete, non-trivial inputs -/

example : valueAt (.obj [("a/b".toList, .arr [.int 1, .obj [("~".toList, .str "x".toList)]])])
    [.name "a/b".toList, .index 1, .name "~".toList] = some (.str "x".toList) := by rfl

example : spell [.name "a/b".toList, .index 1, .name "~".toList] = "/a~1b/1/~0".toList := by decide

example : ∀ p ∈ [Step.name "a/b".toList, .index 1, .name "~".toList, .name "+1".toList, .name "12".toList],
    StepInRange p := by
  intro p hp
  simp only [List.mem_cons, List.mem_nil_iff, or_false] at hp
  rcases hp with rfl | rfl | rfl | rfl | rfl <;> simp [StepInRange, maxIntIndex] <;> decide

example : rfcParse "/a/01/-".toList = some ["a".toList, "01".toList, "-".toList] ∧
    (∀ t ∈ ["a".toList, "01".toList, "-".toList], isExtensionToken t = false) := by decide

/-! ### The library's negative index extension, stated outright (outside RFC 6901, where `-1` is no array index) -/

/-- A negative index token `-k` (k ≥ 1) counts from the end of an array: it resolves to the element `length - k`, and is
    an index error when the array has fewer than `k` elements. On an object it is the member of that name, like any token. -/
theorem negative_index_extension (xs : List J) (k : Nat) (hk : 1 ≤ k) :
    getitem (.arr xs) (.idx (-(k : Int))) =
      (if k ≤ xs.length then
        match xs[xs.length - k]? with
        | some v => .ok v
        | none => .error .ptrIndex
       else .error .ptrIndex) := by
  simp only [getitem, Lemmas.pyListGet_neg xs k hk]
  by_cases h : k ≤ xs.length
  · simp only [h, if_true]; cases xs[xs.length - k]? <;> rfl
  · simp only [h, if_false]; rfl

example : getitem (.arr [.int 10, .int 20, .int 30]) (.idx (-1)) = .ok (.int 30) := by rfl
example : getitem (.arr [.int 10]) (.idx (-2)) = .error .ptrIndex := by rfl

/-! ### The open finding C04-KF1, as a kernel-checked counterexample of the statement without `StepInRange` -/

/-- Without the range hypothesis the statement is false, of the model as of the code: the RFC 6901 pointer of the member
    named `9007199254740992` (2^53) is refused when it is parsed, so the member cannot be addressed. -/
theorem resolve_every_node_counterexample :
    rfcEval (.obj [("9007199254740992".toList, .int 1)]) ["9007199254740992".toList] = some (.int 1) ∧
    Pointer.parse (fun _ => none) true "/9007199254740992".toList = .error .ptrIndex := by
  constructor <;> rfl

end JP.Props.C04
