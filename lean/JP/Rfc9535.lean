/-
  JP.Rfc9535 — the specification side: RFC 9535 sections 2.3 (selectors), 2.4 (function
  extensions), 2.5 (segments) and 2.7 (normalized paths) as a definitional interpreter over the
  same query AST, written from the RFC text and sharing no evaluation code with JP.Query.

  Documented departure of the library, stated here explicitly: an index selector applied to an
  object selects the member whose name is the decimal spelling of the index (`indexOnObject`).
-/
import JP.Query
namespace JP
namespace Rfc

/-- A location: member names and (non-negative) array indices. -/
inductive LStep where
  | name (k : Str)
  | index (n : Nat)
  deriving Repr, DecidableEq, Inhabited

structure RNode where
  loc : List LStep
  val : J
  deriving Repr, Inhabited

/-! ### 2.7 Normalized paths -/

def hexLower (n : Nat) : Char := if n < 10 then Char.ofNat (48 + n) else Char.ofNat (87 + n)

/-- normal-single-quoted: `\b \f \n \r \t \' \\` escaped, other C0 controls as `\u00xx`
    (lowercase hex), everything else literally. -/
def normalName : Str → Str
  | [] => []
  | c :: cs =>
    (if c = '\x08' then ['\\', 'b'] else if c = '\x0c' then ['\\', 'f']
     else if c = '\n' then ['\\', 'n'] else if c = '\r' then ['\\', 'r']
     else if c = '\t' then ['\\', 't'] else if c = '\'' then ['\\', '\'']
     else if c = '\\' then ['\\', '\\']
     else if c.toNat < 0x20 then ['\\', 'u', '0', '0', hexLower (c.toNat / 16), hexLower (c.toNat % 16)]
     else [c]) ++ normalName cs

def normalStep : LStep → Str
  | .name k => ['[', '\''] ++ normalName k ++ ['\'', ']']
  | .index n => '[' :: natStr n ++ [']']

/-- `$` followed by one bracketed normal name / index per step. -/
def normalizedPath (loc : List LStep) : Str := '$' :: loc.flatMap normalStep

/-! ### 2.3.4.2.2 Array slice selector -/

def normalize (i : Int) (len : Int) : Int := if i ≥ 0 then i else len + i

def bounds (start stop step len : Int) : Int × Int :=
  let nStart := normalize start len
  let nEnd := normalize stop len
  if step ≥ 0 then (min (max nStart 0) len, min (max nEnd 0) len)
  else (min (max nEnd (-1)) (len - 1), min (max nStart (-1)) (len - 1))

/-- `while i < upper: select i; i += step` (step > 0) -/
def loopUp (i upper step : Int) (hs : 0 < step) : List Int :=
  if _h : i < upper then i :: loopUp (i + step) upper step hs else []
termination_by (upper - i).toNat
decreasing_by omega

/-- `while lower < i: select i; i += step` (step < 0) -/
def loopDown (i lower step : Int) (hs : step < 0) : List Int :=
  if _h : lower < i then i :: loopDown (i + step) lower step hs else []
termination_by (i - lower).toNat
decreasing_by omega

/-- The indices an array slice selects, in order (with the RFC's defaults for omitted parts). -/
def sliceIndices (start stop step : Option Int) (len : Nat) : List Int :=
  let n : Int := len
  let st := step.getD 1
  if h0 : st = 0 then []
  else if hp : 0 < st then
    let (lower, upper) := bounds (start.getD 0) (stop.getD n) st n
    loopUp lower upper st hp
  else
    let (lower, upper) := bounds (start.getD (n - 1)) (stop.getD (-n - 1)) st n
    loopDown upper lower st (by omega)

/-! ### 2.3.5.2.2 Comparisons -/

def isNumber : J → Option Int
  | .int i => some (8 * i)
  | .flt m => some m
  | _ => none

/-- `==` on `Option J` (`none` = Nothing / empty nodelist) -/
def cmpEq : Option J → Option J → Bool
  | none, none => true
  | some a, some b => a.eqv b
  | _, _ => false

/-- `<`: only between two numbers or two strings -/
def cmpLt : Option J → Option J → Bool
  | some (.str a), some (.str b) => Query.strLt a b
  | some a, some b =>
    match isNumber a, isNumber b with
    | some x, some y => x < y
    | _, _ => false
  | _, _ => false

def cmp (op : CmpOp) (a b : Option J) : Bool :=
  match op with
  | .eq => cmpEq a b
  | .ne => !cmpEq a b
  | .lt => cmpLt a b
  | .le => cmpLt a b || cmpEq a b
  | .gt => cmpLt b a
  | .ge => cmpLt b a || cmpEq a b
  | _ => false

/-! ### Standard fragment -/

mutual
  /-- expression uses only RFC 9535 constructs and the five standard functions -/
  def stdExpr : Expr → Bool
    | .nil | .bool _ | .int _ | .flt _ | .str _ => true
    | .undefined | .regex _ _ | .list _ | .ctx _ | .key => false
    | .not e => stdExpr e
    | .infix l op r =>
      (op == .eq || op == .ne || op == .lt || op == .le || op == .gt || op == .ge || op == .and || op == .or)
      && stdExpr l && stdExpr r
    | .self q => stdSegs q
    | .root q fake => !fake && stdSegs q
    | .func name args =>
      (name = "length".toList || name = "count".toList || name = "value".toList
        || name = "match".toList || name = "search".toList) && stdExprs args
  def stdExprs : List Expr → Bool
    | [] => true
    | e :: es => stdExpr e && stdExprs es
  def stdSel : Sel → Bool
    | .keys => false
    | .filter e => stdExpr e
    | _ => true
  def stdSels : List Sel → Bool
    | [] => true
    | s :: ss => stdSel s && stdSels ss
  def stdSegs : List Seg → Bool
    | [] => true
    | .child sels :: rest => stdSels sels && stdSegs rest
    | .desc :: rest => stdSegs rest
end

/-- A descendant segment is `..` followed by a child segment (`$..[sels]`). A trailing `..`
    (accepted by the library: selects all descendants) is outside the RFC grammar. -/
def wellFormedSegs : List Seg → Bool
  | [] => true
  | .desc :: .child _ :: rest => wellFormedSegs rest
  | .desc :: _ => false
  | .child _ :: rest => wellFormedSegs rest

/-! ### Evaluation -/

def children (n : RNode) : List RNode :=
  match n.val with
  | .obj kvs => kvs.map (fun (k, v) => ⟨n.loc ++ [.name k], v⟩)
  | .arr xs => (Query.enumFrom 0 xs).map (fun (i, v) => ⟨n.loc ++ [.index i], v⟩)
  | _ => []

/-- The node itself and all its descendants: parents before children, array elements in order,
    object members in document order. -/
def descendantsOrSelf (n : RNode) : List RNode :=
  go n.loc n.val
where
  go (loc : List LStep) : J → List RNode
    | .obj kvs => ⟨loc, .obj kvs⟩ :: goMembers loc kvs
    | .arr xs => ⟨loc, .arr xs⟩ :: goElems loc 0 xs
    | v => [⟨loc, v⟩]
  goMembers (loc : List LStep) : List (Str × J) → List RNode
    | [] => []
    | (k, v) :: rest => go (loc ++ [.name k]) v ++ goMembers loc rest
  goElems (loc : List LStep) (i : Nat) : List J → List RNode
    | [] => []
    | v :: rest => go (loc ++ [.index i]) v ++ goElems loc (i + 1) rest

structure REnv where
  rx : Rx
  root : J

mutual
  /-- nodelist of a filter-query (`@…` or `$…`) -/
  def nodesOf (env : REnv) (cur : J) : Expr → List RNode
    | .self q => evalSegs env q [⟨[], cur⟩]
    | .root q _ => evalSegs env q [⟨[], env.root⟩]
    | _ => []

  /-- ValueType: `none` is Nothing -/
  def valueOf (env : REnv) (cur : J) : Expr → Option J
    | .nil => some .null
    | .bool b => some (.bool b)
    | .int i => some (.int i)
    | .flt m => some (.flt m)
    | .str s => some (.str s)
    | .self q =>
      match evalSegs env q [⟨[], cur⟩] with
      | [n] => some n.val
      | _ => none
    | .root q _ =>
      match evalSegs env q [⟨[], env.root⟩] with
      | [n] => some n.val
      | _ => none
    | .func name args =>
      if name = "length".toList then
        match args with
        | [a] =>
          match valueOf env cur a with
          | some (.str s) => some (.int s.length)
          | some (.arr xs) => some (.int xs.length)
          | some (.obj kvs) => some (.int kvs.length)
          | _ => none
        | _ => none
      else if name = "count".toList then
        match args with
        | [a] => some (.int (nodesOfArg env cur a).length)
        | _ => none
      else if name = "value".toList then
        match args with
        | [a] =>
          match nodesOfArg env cur a with
          | [n] => some n.val
          | _ => none
        | _ => none
      else none
    | _ => none

  /-- NodesType argument -/
  def nodesOfArg (env : REnv) (cur : J) : Expr → List RNode
    | .self q => evalSegs env q [⟨[], cur⟩]
    | .root q _ => evalSegs env q [⟨[], env.root⟩]
    | _ => []

  /-- LogicalType -/
  def logical (env : REnv) (cur : J) : Expr → Bool
    | .not e => !logical env cur e
    | .infix l op r =>
      match op with
      | .and => logical env cur l && logical env cur r
      | .or => logical env cur l || logical env cur r
      | _ => cmp op (valueOf env cur l) (valueOf env cur r)
    | .self q => !(evalSegs env q [⟨[], cur⟩]).isEmpty
    | .root q _ => !(evalSegs env q [⟨[], env.root⟩]).isEmpty
    | .func name args =>
      if name = "match".toList ∨ name = "search".toList then
        match args with
        | [a, b] =>
          match valueOf env cur a, valueOf env cur b with
          | some (.str s), some (.str p) =>
            ((if name = "match".toList then env.rx.fullmatch p [] s else env.rx.search p s)).getD false
          | _, _ => false
        | _ => false
      else false
    | _ => false

  def evalSel (env : REnv) (n : RNode) : Sel → List RNode
    | .name k =>
      match n.val with
      | .obj kvs =>
        match dictGet kvs k with
        | some v => [⟨n.loc ++ [.name k], v⟩]
        | none => []
      | _ => []
    | .index i =>
      match n.val with
      | .arr xs =>
        let j := normalize i xs.length
        if 0 ≤ j then
          match xs[j.toNat]? with
          | some v => [⟨n.loc ++ [.index j.toNat], v⟩]
          | none => []
        else []
      | .obj kvs =>
        -- documented departure (`indexOnObject`)
        match dictGet kvs (intStr i) with
        | some v => [⟨n.loc ++ [.name (intStr i)], v⟩]
        | none => []
      | _ => []
    | .slice start stop step =>
      match n.val with
      | .arr xs =>
        (sliceIndices start stop step xs.length).filterMap (fun (i : Int) =>
          if 0 ≤ i then
            match xs[i.toNat]? with
            | some v => some ⟨n.loc ++ [.index i.toNat], v⟩
            | none => none
          else none)
      | _ => []
    | .wild => children n
    | .keys => []
    | .filter e =>
      (children n).filter (fun c => logical env c.val e)

  def evalSels (env : REnv) (n : RNode) : List Sel → List RNode
    | [] => []
    | s :: ss => evalSel env n s ++ evalSels env n ss

  def evalSegs (env : REnv) : List Seg → List RNode → List RNode
    | [], ns => ns
    | .child sels :: rest, ns => evalSegs env rest (ns.flatMap (fun n => evalSels env n sels))
    | .desc :: .child sels :: rest, ns =>
      evalSegs env rest
        (ns.flatMap (fun n => (descendantsOrSelf n).flatMap (fun d => evalSels env d sels)))
    | .desc :: rest, ns => evalSegs env rest (ns.flatMap descendantsOrSelf)
end

/-- The RFC nodelist of a query applied to a document: (normalized path, value) pairs. -/
def query (rx : Rx) (segs : List Seg) (doc : J) : List RNode :=
  evalSegs ⟨rx, doc⟩ segs [⟨[], doc⟩]

/-! ### 2.4.3 Well-typedness of function expressions, 2.3.5.1 filter-expression syntax -/

/-- singular query: only name and index selectors, one per child segment -/
def singularSegs : List Seg → Bool
  | [] => true
  | .child [.name _] :: rest => singularSegs rest
  | .child [.index _] :: rest => singularSegs rest
  | _ => false

mutual
  /-- `e` is a well-typed logical expression (usable as a filter / test / operand of `&&`, `||`, `!`) -/
  def wtLogical : Expr → Bool
    | .not e => wtLogical e
    | .infix l op r =>
      if op == .and || op == .or then wtLogical l && wtLogical r
      else if op == .eq || op == .ne || op == .lt || op == .le || op == .gt || op == .ge then
        wtComparable l && wtComparable r
      else false
    | .self q => wtSegs q
    | .root q fake => !fake && wtSegs q
    | .func name args =>
      if name = "match".toList ∨ name = "search".toList then
        match args with
        | [a, b] => wtComparable a && wtComparable b
        | _ => false
      else false
    | _ => false

  /-- `e` is a comparable / a ValueType argument: literal, singular query, or function of ValueType -/
  def wtComparable : Expr → Bool
    | .nil | .bool _ | .int _ | .flt _ | .str _ => true
    | .self q => singularSegs q
    | .root q fake => !fake && singularSegs q
    | .func name args =>
      if name = "length".toList then
        match args with
        | [a] => wtComparable a
        | _ => false
      else if name = "count".toList ∨ name = "value".toList then
        match args with
        | [a] => wtNodesArg a
        | _ => false
      else false
    | _ => false

  /-- NodesType argument: any (well-typed) query -/
  def wtNodesArg : Expr → Bool
    | .self q => wtSegs q
    | .root q fake => !fake && wtSegs q
    | _ => false

  def wtSel : Sel → Bool
    | .filter e => wtLogical e
    | .keys => false
    | _ => true
  def wtSels : List Sel → Bool
    | [] => true
    | s :: ss => wtSel s && wtSels ss
  /-- well-typed filters everywhere, and every `..` is followed by a child segment (RFC grammar) -/
  def wtSegs : List Seg → Bool
    | [] => true
    | .child sels :: rest => wtSels sels && wtSegs rest
    | .desc :: .child sels :: rest => wtSels sels && wtSegs rest
    | .desc :: _ => false
end

end Rfc
end JP
