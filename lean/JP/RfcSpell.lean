/-
  JP.RfcSpell — RFC 9535 sections 2.1–2.5: the *spellings* of a filter-free query, as a grammar (inductive
  relations between a piece of the abstract query and a text). Spec-shaped: written from the RFC's ABNF,
  independently of the lexer and parser models.

    jsonpath-query   = root-identifier segments
    segments         = *(S segment)
    segment          = child-segment / descendant-segment
    child-segment    = bracketed-selection / ("." (wildcard-selector / member-name-shorthand))
    descendant-segment = ".." (bracketed-selection / wildcard-selector / member-name-shorthand)
    bracketed-selection = "[" S selector *(S "," S selector) S "]"
    selector         = name-selector / wildcard-selector / slice-selector / index-selector   (no filters here)
    slice-selector   = [start S] ":" S [end S] [":" [S step]]
    int              = "0" / (["-"] DIGIT1 *DIGIT)
    member-name-shorthand = name-first *name-char
    S                = *B ; B = %x20 / %x09 / %x0A / %x0D
-/
import JP.Lex
namespace JP
namespace RfcSpell
open Query Lex

/-- `B` -/
def isB (c : Char) : Bool := c == ' ' || c == '\t' || c == '\n' || c == '\r'

/-- `S = *B` -/
def isS (w : Str) : Bool := w.all isB

/-- `name-first = ALPHA / "_" / %x80-D7FF / %xE000-10FFFF` -/
def nameFirst (c : Char) : Bool := c.isAlpha || c == '_' || decide (c.toNat ≥ 0x80)

/-- `name-char = name-first / DIGIT` -/
def nameChar (c : Char) : Bool := nameFirst c || c.isDigit

/-- `member-name-shorthand` -/
def isShorthand (n : Str) : Bool :=
  match n with
  | c :: cs => nameFirst c && cs.all nameChar
  | [] => false

/-- one selector and one of its spellings -/
inductive SelSpell : Sel → Str → Prop
  | nameSQ (s w : Str) (h : Spells '\'' s w) : SelSpell (.name s) ('\'' :: w ++ ['\''])
  | nameDQ (s w : Str) (h : Spells '"' s w) : SelSpell (.name s) ('"' :: w ++ ['"'])
  | index (i : Int) : SelSpell (.index i) (intStr i)
  | wild : SelSpell .wild ['*']
  /-- `[start S] ":" S [end S]` -/
  | slice2 (a b : Option Int) (s1 s2 s3 : Str) (h1 : isS s1 = true) (h2 : isS s2 = true) (h3 : isS s3 = true)
      (ha : a = none → s1 = []) (hb : b = none → s3 = []) :
      SelSpell (.slice a b none) (optIntStr a ++ s1 ++ ':' :: s2 ++ optIntStr b ++ s3)
  /-- `[start S] ":" S [end S] ":" [S step]` -/
  | slice3 (a b c : Option Int) (s1 s2 s3 s4 : Str) (h1 : isS s1 = true) (h2 : isS s2 = true) (h3 : isS s3 = true)
      (h4 : isS s4 = true) (ha : a = none → s1 = []) (hb : b = none → s3 = []) (hc : c = none → s4 = []) :
      SelSpell (.slice a b c) (optIntStr a ++ s1 ++ ':' :: s2 ++ optIntStr b ++ s3 ++ ':' :: s4 ++ optIntStr c)

/-- `selector *(S "," S selector)` -/
inductive SelsSpell : List Sel → Str → Prop
  | one (s : Sel) (w : Str) (h : SelSpell s w) : SelsSpell [s] w
  | cons (s : Sel) (w : Str) (h : SelSpell s w) (ss : List Sel) (ws s1 s2 : Str) (h1 : isS s1 = true) (h2 : isS s2 = true)
      (rest : SelsSpell ss ws) : SelsSpell (s :: ss) (w ++ s1 ++ ',' :: s2 ++ ws)

/-- what may follow `.` or `..`: a bracketed selection, `*`, or a shorthand name; yields one child segment -/
inductive AfterDots : Seg → Str → Prop
  | bracket (sels : List Sel) (w s1 s2 : Str) (h : SelsSpell sels w) (h1 : isS s1 = true) (h2 : isS s2 = true) :
      AfterDots (.child sels) ('[' :: s1 ++ w ++ s2 ++ [']'])
  | wild : AfterDots (.child [.wild]) ['*']
  | name (n : Str) (h : isShorthand n = true) : AfterDots (.child [.name n]) n

/-- `*(S segment)`: the segments of a query and a spelling of them -/
inductive SegsSpell : List Seg → Str → Prop
  | nil : SegsSpell [] []
  /-- `S bracketed-selection` -/
  | bracket (sels : List Sel) (w s0 s1 s2 : Str) (h : SelsSpell sels w) (h0 : isS s0 = true) (h1 : isS s1 = true) (h2 : isS s2 = true)
      (segs : List Seg) (ws : Str) (rest : SegsSpell segs ws) :
      SegsSpell (.child sels :: segs) (s0 ++ '[' :: s1 ++ w ++ s2 ++ ']' :: ws)
  /-- `S "." (wildcard / shorthand)` -/
  | dot (g : Seg) (w s0 : Str) (h : AfterDots g w) (hnb : ∀ sels, g = .child sels → w.head? ≠ some '[') (h0 : isS s0 = true)
      (segs : List Seg) (ws : Str) (rest : SegsSpell segs ws) :
      SegsSpell (g :: segs) (s0 ++ '.' :: w ++ ws)
  /-- `S ".." (bracketed-selection / wildcard / shorthand)` -/
  | ddot (g : Seg) (w s0 : Str) (h : AfterDots g w) (h0 : isS s0 = true)
      (segs : List Seg) (ws : Str) (rest : SegsSpell segs ws) :
      SegsSpell (.desc :: g :: segs) (s0 ++ '.' :: '.' :: w ++ ws)

/-- `jsonpath-query`, optionally followed by blanks (which the library accepts) -/
def QuerySpell (segs : List Seg) (text : Str) : Prop :=
  ∃ w s, SegsSpell segs w ∧ isS s = true ∧ text = '$' :: w ++ s

end RfcSpell
end JP
