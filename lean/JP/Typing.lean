/-
  JP.Typing — code-shaped model of the compile-time gate of `parse.py` / `env.py`:
  `check_well_typedness` (arity and per-parameter checks), `_raise_for_non_comparable_function`,
  `_raise_for_non_logical_expression` (applied to a filter's expression, to the operand of `!` and to
  both operands of `&&` / `||`), and the integer range checks of `IndexSelector` / `SliceSelector`.

  The function registry (name → parameter types, return type) is a parameter: the translator
  regenerates it from `env.py` and `function_extensions/*.py` on every run (`Generated.functions`).
-/
import JP.Rfc9535
import JP.Generated.Tables
namespace JP
namespace Typing

inductive Ty where
  | value | logical | nodes
  deriving Repr, DecidableEq

/-- name → (parameter types, return type) -/
abbrev FuncTable := List (Str × List Ty × Ty)

def tyOfString (s : String) : Option Ty :=
  if s == "VALUE" then some .value else if s == "LOGICAL" then some .logical else if s == "NODES" then some .nodes else none

/-- The registry as the source declares it (non-`FilterFunction` entries and unknown type names are dropped). -/
def tableOfGenerated (g : List (String × Option (List String × String))) : FuncTable :=
  g.filterMap (fun (name, sig) =>
    match sig with
    | some (args, ret) =>
      match args.mapM tyOfString, tyOfString ret with
      | some as, some r => some (name.toList, as, r)
      | _, _ => none
    | none => none)

def lookupFn (tbl : FuncTable) (name : Str) : Option (List Ty × Ty) :=
  match tbl with
  | [] => none
  | (n, sig) :: rest => if n = name then some sig else lookupFn rest name

/-- `env._function_return_type(expr)` -/
def retType (tbl : FuncTable) : Expr → Option Ty
  | .func name _ => (lookupFn tbl name).map (·.2)
  | _ => none

def isPath : Expr → Bool
  | .self _ | .root _ _ | .ctx _ => true
  | _ => false

def pathSegs : Expr → List Seg
  | .self q | .root q _ | .ctx q => q
  | _ => []

/-- `isinstance(arg, VALUE_TYPE_EXPRESSIONS)`: Nil, Undefined, Literal (bool/int/float/str/regex), ListLiteral, CurrentKey -/
def isValueTypeExpr : Expr → Bool
  | .nil | .undefined | .bool _ | .int _ | .flt _ | .str _ | .regex _ _ | .list _ | .key => true
  | _ => false

/-- `isinstance(expr, (Literal, Nil))` -/
def isLiteralOrNil : Expr → Bool
  | .nil | .bool _ | .int _ | .flt _ | .str _ | .regex _ _ => true
  | _ => false

/-- `_raise_for_non_logical_expression` raises: a value-typed function result, or a bare literal -/
def nonLogical (tbl : FuncTable) (e : Expr) : Bool :=
  retType tbl e == some .value || isLiteralOrNil e

/-- `_raise_for_non_comparable_function` raises: non-singular query, or a function whose result is not a value -/
def nonComparable (tbl : FuncTable) (e : Expr) : Bool :=
  (isPath e && !Rfc.singularSegs (pathSegs e)) ||
  (match e with
   | .func name _ =>
     match lookupFn tbl name with
     | some (_, r) => r != .value
     | none => false
   | _ => false)

/-- the per-parameter test of `check_well_typedness` -/
def argOk (tbl : FuncTable) (t : Ty) (a : Expr) : Bool :=
  match t with
  | .value => isValueTypeExpr a || (isPath a && Rfc.singularSegs (pathSegs a)) || retType tbl a == some .value
  | .logical => isPath a || (match a with | .infix _ _ _ => true | _ => false)
  | .nodes => isPath a || retType tbl a == some .nodes

def argsOk (tbl : FuncTable) : List Ty → List Expr → Bool
  | [], [] => true
  | t :: ts, a :: as => argOk tbl t a && argsOk tbl ts as
  | _, _ => false          -- wrong number of arguments

/-- `COMPARISON_OPERATORS` -/
def isComparisonOp (op : CmpOp) : Bool :=
  op == .eq || op == .ne || op == .lg || op == .lt || op == .le || op == .gt || op == .ge || op == .re

/-- the operator as `BINARY_OPERATORS` spells it (what `COMPARISON_OPERATORS` lists) -/
def opSymbol : CmpOp → String
  | .eq => "==" | .ne => "!=" | .lg => "<>" | .lt => "<" | .le => "<=" | .gt => ">" | .ge => ">="
  | .and => "&&" | .or => "||" | .in_ => "in" | .contains => "contains" | .re => "=~"

/-- side condition on the translated `COMPARISON_OPERATORS`: it lists exactly the operators `isComparisonOp`
    holds the typing rules of comparisons to - in particular `<>` wherever `!=` -/
def comparisonTableOK (tbl : List String) : Bool :=
  [CmpOp.eq, .ne, .lg, .lt, .le, .gt, .ge, .and, .or, .in_, .contains, .re].all
    (fun op => isComparisonOp op == tbl.contains (opSymbol op)) &&
  tbl.all (fun s => [CmpOp.eq, .ne, .lg, .lt, .le, .gt, .ge, .and, .or, .in_, .contains, .re].any (fun op => opSymbol op == s))

/-- operators NOT in `INFIX_LITERAL_OPERATORS`: the logical ones -/
def isLogicalOp (op : CmpOp) : Bool := op == .and || op == .or

mutual
  /-- compiling this expression raises nothing -/
  def gateExpr (tbl : FuncTable) : Expr → Bool
    | .nil | .undefined | .bool _ | .int _ | .flt _ | .str _ | .regex _ _ | .key => true
    | .list items => gateExprs tbl items
    | .not e => gateExpr tbl e && !nonLogical tbl e
    | .infix l op r =>
      gateExpr tbl l && gateExpr tbl r &&
      (!isComparisonOp op || (!nonComparable tbl l && !nonComparable tbl r)) &&
      (!isLogicalOp op || (!nonLogical tbl l && !nonLogical tbl r))
    | .self q => gateSegs tbl q
    | .root q _ => gateSegs tbl q
    | .ctx q => gateSegs tbl q
    | .func name args =>
      gateExprs tbl args &&
      (match lookupFn tbl name with
       | none => false                                   -- JSONPathNameError
       | some (tys, _) => argsOk tbl tys args)
  def gateExprs (tbl : FuncTable) : List Expr → Bool
    | [] => true
    | e :: es => gateExpr tbl e && gateExprs tbl es
  def gateSel (tbl : FuncTable) : Sel → Bool
    | .filter e => gateExpr tbl e && !nonLogical tbl e     -- parse_filter
    | _ => true
  def gateSels (tbl : FuncTable) : List Sel → Bool
    | [] => true
    | s :: ss => gateSel tbl s && gateSels tbl ss
  def gateSegs (tbl : FuncTable) : List Seg → Bool
    | [] => true
    | .child sels :: rest => gateSels tbl sels && gateSegs tbl rest
    | .desc :: rest => gateSegs tbl rest
end

/-- `IndexSelector.__init__` / `SliceSelector._check_range` with the environment's limits -/
def indexInRange (lo hi : Int) (i : Int) : Bool := lo ≤ i && i ≤ hi

def sliceInRange (lo hi : Int) (a b c : Option Int) : Bool :=
  (a.map (indexInRange lo hi)).getD true && (b.map (indexInRange lo hi)).getD true && (c.map (indexInRange lo hi)).getD true

/-- The registry has (at least) the five standard functions with the RFC 9535 signatures. -/
def StdTable (tbl : FuncTable) : Prop :=
  lookupFn tbl "length".toList = some ([.value], .value) ∧
  lookupFn tbl "count".toList = some ([.nodes], .value) ∧
  lookupFn tbl "value".toList = some ([.nodes], .value) ∧
  lookupFn tbl "match".toList = some ([.value, .value], .logical) ∧
  lookupFn tbl "search".toList = some ([.value, .value], .logical)

instance (tbl : FuncTable) : Decidable (StdTable tbl) := by unfold StdTable; infer_instance

/-- The registry has the functions the evaluator model dispatches on (`Query.applyFn`): the five standard ones and the type
    functions under both of their names, with the signatures the model gives them. (A further registered function is no
    concern of any property here and is not refused by this condition; the model answers `UNDEFINED` for it.) -/
def ModelledTable (tbl : FuncTable) : Prop :=
  StdTable tbl ∧
  lookupFn tbl "typeof".toList = some ([.nodes], .value) ∧ lookupFn tbl "type".toList = some ([.nodes], .value) ∧
  lookupFn tbl "isinstance".toList = some ([.nodes, .value], .logical) ∧ lookupFn tbl "is".toList = some ([.nodes, .value], .logical)

instance (tbl : FuncTable) : Decidable (ModelledTable tbl) := by unfold ModelledTable; infer_instance

mutual
  /-- The operands of every comparison are atoms (literal, query or function call) — the RFC grammar's
      `comparable`. A parenthesised logical expression as a comparison operand is outside the grammar
      (and outside what the property lists); the library accepts it as an extension. -/
  def cmpAtomic : Expr → Bool
    | .not e => cmpAtomic e
    | .infix l op r =>
      cmpAtomic l && cmpAtomic r &&
      (isLogicalOp op || (isAtom l && isAtom r))
    | .self q | .root q _ | .ctx q => cmpAtomicSegs q
    | .func _ args => cmpAtomicList args
    | .list items => cmpAtomicList items
    | _ => true
  def cmpAtomicList : List Expr → Bool
    | [] => true
    | e :: es => cmpAtomic e && cmpAtomicList es
  def isAtom : Expr → Bool
    | .not _ | .infix _ _ _ => false
    | _ => true
  def cmpAtomicSel : Sel → Bool
    | .filter e => cmpAtomic e
    | _ => true
  def cmpAtomicSels : List Sel → Bool
    | [] => true
    | s :: ss => cmpAtomicSel s && cmpAtomicSels ss
  def cmpAtomicSegs : List Seg → Bool
    | [] => true
    | .child sels :: rest => cmpAtomicSels sels && cmpAtomicSegs rest
    | .desc :: rest => cmpAtomicSegs rest
end

mutual
  /-- every `..` is followed by a child segment, at every nesting depth (RFC 9535 grammar; the library
      also accepts a trailing `..`) -/
  def wfDeep : Expr → Bool
    | .not e => wfDeep e
    | .infix l _ r => wfDeep l && wfDeep r
    | .self q | .root q _ | .ctx q => wfDeepSegs q
    | .func _ args => wfDeepList args
    | .list items => wfDeepList items
    | _ => true
  def wfDeepList : List Expr → Bool
    | [] => true
    | e :: es => wfDeep e && wfDeepList es
  def wfDeepSel : Sel → Bool
    | .filter e => wfDeep e
    | _ => true
  def wfDeepSels : List Sel → Bool
    | [] => true
    | s :: ss => wfDeepSel s && wfDeepSels ss
  def wfDeepSegs : List Seg → Bool
    | [] => true
    | .child sels :: rest => wfDeepSels sels && wfDeepSegs rest
    | .desc :: .child sels :: rest => wfDeepSels sels && wfDeepSegs rest
    | .desc :: _ => false
end

end Typing
end JP
