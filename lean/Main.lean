/-
  jpdrv — line-protocol driver for the model. One JSON request per input line, one JSON
  response per output line. Built from the same definitions the theorems are about.

  Value encoding (`J`): null/true/false/strings/arrays as themselves, Python ints as JSON
  integers, Python floats m/8 as {"f": m}, objects as {"o": [[k, v], ...]} (member order).
-/
import Lean.Data.Json
import JP.Basic
import JP.Pointer
import JP.RelPointer
import JP.Patch
import JP.Query
import JP.Rfc9535
import JP.RegexImpl
import JP.Fluent
import JP.Typing
import JP.Projection
import JP.Surface
import JP.Lex
import JP.Lemmas.SyntaxGate
open Lean JP

namespace Drv

def s2l (s : String) : Str := s.toList
def l2s (l : Str) : String := String.ofList l

partial def decJ (j : Json) : Except String J :=
  match j with
  | .null => pure .null
  | .bool b => pure (.bool b)
  | .num n => if n.exponent = 0 then pure (.int n.mantissa) else throw "non-integer number"
  | .str s => pure (.str (s2l s))
  | .arr xs => do
    let ys ← xs.toList.mapM decJ
    pure (.arr ys)
  | .obj _ =>
    match j.getObjVal? "f" with
    | .ok (.num n) => pure (.flt n.mantissa)
    | _ =>
      match j.getObjVal? "o" with
      | .ok (.arr kvs) => do
        let ms ← kvs.toList.mapM (fun kv =>
          match kv with
          | .arr #[.str k, v] => do
            let v' ← decJ v
            pure (s2l k, v')
          | _ => throw "bad member")
        pure (.obj ms)
      | _ => throw "bad object encoding"

partial def encJ : J → Json
  | .null => .null
  | .bool b => .bool b
  | .int i => .num ⟨i, 0⟩
  | .flt m => Json.mkObj [("f", .num ⟨m, 0⟩)]
  | .str s => .str (l2s s)
  | .arr xs => .arr (xs.map encJ).toArray
  | .obj kvs => Json.mkObj [("o", .arr (kvs.map (fun (k, v) => Json.arr #[.str (l2s k), encJ v])).toArray)]

def encPart : Part → Json
  | .idx i => .num ⟨i, 0⟩
  | .key s => .str (l2s s)

def decPart (j : Json) : Except String Part :=
  match j with
  | .num n => pure (.idx n.mantissa)
  | .str s => pure (.key (s2l s))
  | _ => throw "bad part"

def encParts (ps : List Part) : Json := .arr (ps.map encPart).toArray
def decParts (j : Json) : Except String (List Part) :=
  match j with
  | .arr xs => xs.toList.mapM decPart
  | _ => throw "bad parts"

def encRes {α} (f : α → Json) : Res α → Json
  | .ok v => Json.mkObj [("ok", f v)]
  | .error e => Json.mkObj [("err", .str e.name)]

def encOpt {α} (f : α → Json) : Option α → Json
  | some v => Json.mkObj [("some", f v)]
  | none => Json.mkObj [("none", .null)]

def strList (xs : List Str) : Json := .arr (xs.map (fun s => Json.str (l2s s))).toArray

/-! The concrete `unicode-escape` decoder used by the driver (the theorems hold for every
    decoder). Handles `\/`, `\\`, `\n`, `\t`, `\r`, `\uXXXX` with surrogate pairs; anything
    else is outside what the generators send. -/
def hexVal (c : Char) : Option Nat :=
  if c.isDigit then some (c.toNat - 48)
  else if 'a' ≤ c ∧ c ≤ 'f' then some (c.toNat - 87)
  else if 'A' ≤ c ∧ c ≤ 'F' then some (c.toNat - 55)
  else none

def hex4 : Str → Option (Nat × Str)
  | a :: b :: c :: d :: rest => do
    let a ← hexVal a; let b ← hexVal b; let c ← hexVal c; let d ← hexVal d
    pure (a * 4096 + b * 256 + c * 16 + d, rest)
  | _ => none

partial def escDec (s : Str) : Option Str :=
  match s with
  | [] => some []
  | '\\' :: '/' :: rest => (escDec rest).map ('/' :: ·)
  | '\\' :: '\\' :: rest => (escDec rest).map ('\\' :: ·)
  | '\\' :: 'n' :: rest => (escDec rest).map ('\n' :: ·)
  | '\\' :: 't' :: rest => (escDec rest).map ('\t' :: ·)
  | '\\' :: 'r' :: rest => (escDec rest).map ('\r' :: ·)
  | '\\' :: 'u' :: rest =>
    match hex4 rest with
    | none => none
    | some (hi, rest') =>
      if 0xD800 ≤ hi ∧ hi ≤ 0xDBFF then
        match rest' with
        | '\\' :: 'u' :: rest'' =>
          match hex4 rest'' with
          | some (lo, rest''') =>
            if 0xDC00 ≤ lo ∧ lo ≤ 0xDFFF then
              (escDec rest''').map (Char.ofNat (0x10000 + (hi - 0xD800) * 1024 + (lo - 0xDC00)) :: ·)
            else none
          | none => none
        | _ => none
      else if 0xDC00 ≤ hi ∧ hi ≤ 0xDFFF then none
      else (escDec rest').map (Char.ofNat hi :: ·)
  | '\\' :: _ => none
  | c :: rest => (escDec rest).map (c :: ·)

def getStr (j : Json) (k : String) : Except String Str := do
  let v ← j.getObjVal? k
  match v with
  | .str s => pure (s2l s)
  | _ => throw s!"field {k}: expected string"

def getBool (j : Json) (k : String) : Except String Bool := do
  let v ← j.getObjVal? k
  match v with
  | .bool b => pure b
  | _ => throw s!"field {k}: expected bool"

def getJ (j : Json) (k : String) : Except String J := do
  let v ← j.getObjVal? k
  decJ v

def getParts (j : Json) (k : String) : Except String (List Part) := do
  let v ← j.getObjVal? k
  decParts v

def getStrList (j : Json) (k : String) : Except String (List Str) := do
  let v ← j.getObjVal? k
  match v with
  | .arr xs => xs.toList.mapM (fun x => match x with | .str s => pure (s2l s) | _ => throw "expected string")
  | _ => throw s!"field {k}: expected list"

open Pointer in
def encSuffix : RelPointer.Suffix → Json
  | .ptr ps => encParts ps
  | .hash => .str "#"

def encSpecRes : Patch.SRes → Json
  | .ok v => Json.mkObj [("ok", encJ v)]
  | .error .violation => Json.mkObj [("err", .str "violation")]
  | .error .testFailed => Json.mkObj [("err", .str "testFailed")]

def decSOp (j : Json) : Except String Patch.SOp := do
  let name ← getStr j "op"
  match l2s name with
  | "add" => pure (.add (← getStrList j "path") (← getJ j "value"))
  | "remove" => pure (.remove (← getStrList j "path"))
  | "replace" => pure (.replace (← getStrList j "path") (← getJ j "value"))
  | "move" => pure (.move (← getStrList j "from") (← getStrList j "path"))
  | "copy" => pure (.copy (← getStrList j "from") (← getStrList j "path"))
  | "test" => pure (.test (← getStrList j "path") (← getJ j "value"))
  | o => throw s!"bad spec op {o}"


/-! Query AST decoding (the harness dumps the implementation's compiled query). -/
def optInt (j : Json) : Except String (Option Int) :=
  match j with
  | .null => pure none
  | .num n => pure (some n.mantissa)
  | _ => throw "expected int or null"

def decOp (s : String) : Except String CmpOp :=
  match s with
  | "==" => pure .eq | "!=" => pure .ne | "<" => pure .lt | ">" => pure .gt | "<=" => pure .le
  | ">=" => pure .ge | "<>" => pure .lg | "&&" => pure .and | "||" => pure .or
  | "in" => pure .in_ | "contains" => pure .contains | "=~" => pure .re
  | o => throw s!"unknown operator {o}"

mutual
  partial def decExpr (j : Json) : Except String Expr := do
    let t ← j.getObjValAs? String "t"
    match t with
    | "nil" => pure .nil
    | "undef" => pure .undefined
    | "bool" => pure (.bool (← j.getObjValAs? Bool "v"))
    | "int" =>
      let v ← j.getObjVal? "v"
      let .num n := v | throw "int"
      pure (.int n.mantissa)
    | "flt" =>
      let v ← j.getObjVal? "m"
      let .num n := v | throw "flt"
      pure (.flt n.mantissa)
    | "str" => pure (.str (s2l (← j.getObjValAs? String "v")))
    | "regex" => pure (.regex (s2l (← j.getObjValAs? String "p")) (s2l (← j.getObjValAs? String "f")))
    | "list" =>
      let items ← j.getObjVal? "items"
      let .arr xs := items | throw "list"
      pure (.list (← xs.toList.mapM decExpr))
    | "not" => pure (.not (← decExpr (← j.getObjVal? "e")))
    | "infix" =>
      pure (.infix (← decExpr (← j.getObjVal? "l")) (← decOp (← j.getObjValAs? String "op")) (← decExpr (← j.getObjVal? "r")))
    | "self" => pure (.self (← decSegs (← j.getObjVal? "q")))
    | "root" => pure (.root (← decSegs (← j.getObjVal? "q")) (← j.getObjValAs? Bool "fake"))
    | "ctx" => pure (.ctx (← decSegs (← j.getObjVal? "q")))
    | "func" =>
      let args ← j.getObjVal? "args"
      let .arr xs := args | throw "args"
      pure (.func (s2l (← j.getObjValAs? String "name")) (← xs.toList.mapM decExpr))
    | "key" => pure .key
    | o => throw s!"unknown expr {o}"

  partial def decSel (j : Json) : Except String Sel := do
    let t ← j.getObjValAs? String "s"
    match t with
    | "name" => pure (.name (s2l (← j.getObjValAs? String "v")))
    | "index" =>
      let v ← j.getObjVal? "v"
      let .num n := v | throw "index"
      pure (.index n.mantissa)
    | "slice" => pure (.slice (← optInt (← j.getObjVal? "a")) (← optInt (← j.getObjVal? "b")) (← optInt (← j.getObjVal? "c")))
    | "wild" => pure .wild
    | "keys" => pure .keys
    | "filter" => pure (.filter (← decExpr (← j.getObjVal? "e")))
    | o => throw s!"unknown selector {o}"

  partial def decSegs (j : Json) : Except String (List Seg) := do
    let .arr xs := j | throw "segs"
    xs.toList.mapM (fun g => do
      let t ← g.getObjValAs? String "g"
      match t with
      | "desc" => pure Seg.desc
      | "child" =>
        let sels ← g.getObjVal? "sels"
        let .arr ss := sels | throw "sels"
        pure (Seg.child (← ss.toList.mapM decSel))
      | o => throw s!"unknown segment {o}")
end

def decPath (j : Json) : Except String Path := do
  pure ⟨← decSegs (← j.getObjVal? "segs"), ← j.getObjValAs? Bool "fake"⟩

def decCompound (j : Json) : Except String Compound := do
  let first ← decPath (← j.getObjVal? "first")
  let restJ ← j.getObjVal? "rest"
  let .arr restA := restJ | throw "rest"
  let rest ← restA.toList.mapM (fun j => do
    match j with
    | .arr #[.str op, pj] => do
      let p ← decPath pj
      pure (op == "|", p)
    | _ => throw "bad rest")
  pure ⟨first, rest⟩

def encNode (n : Node) : Json :=
  Json.mkObj [("parts", encParts n.parts), ("path", .str (l2s n.path)), ("val", encJ n.val)]

def encRNode (n : Rfc.RNode) : Json :=
  Json.mkObj [("path", .str (l2s (Rfc.normalizedPath n.loc))), ("val", encJ n.val)]


def decFluentOp (j : Json) : Except String Fluent.Op :=
  match j with
  | .arr #[.str name, .num n] =>
    let k := n.mantissa
    match name with
    | "limit" => pure (.limit k) | "head" => pure (.head k) | "first" => pure (.first k)
    | "drop" => pure (.drop k) | "skip" => pure (.skip k)
    | "tail" => pure (.tail k) | "last" => pure (.last k)
    | "take" => pure (.take k) | "tee" => pure (.tee k)
    | o => throw s!"bad fluent op {o}"
  | .arr #[.str "first_one"] => pure .firstOne
  | .arr #[.str "one"] => pure .one
  | .arr #[.str "last_one"] => pure .lastOne
  | _ => throw "bad fluent op"

def encNats (xs : List Nat) : Json := .arr (xs.map (fun (n : Nat) => Json.num ⟨n, 0⟩)).toArray

def encOut : Fluent.Out Nat → Json
  | .valueError => Json.mkObj [("err", .str "ValueError")]
  | .taken xs => Json.mkObj [("taken", encNats xs)]
  | .children xss => Json.mkObj [("children", .arr (xss.map encNats).toArray)]
  | .item none => Json.mkObj [("item", .null)]
  | .item (some x) => Json.mkObj [("item", .num ⟨x, 0⟩)]

def encRun (r : List (Fluent.Out Nat) × List Nat) : Json :=
  Json.mkObj [("outs", .arr (r.1.map encOut).toArray), ("final", encNats r.2)]


/-! AST and token encoders (for the surface-syntax operations) -/
def encOp : CmpOp → String
  | .eq => "==" | .ne => "!=" | .lt => "<" | .gt => ">" | .le => "<=" | .ge => ">=" | .lg => "<>"
  | .and => "&&" | .or => "||" | .in_ => "in" | .contains => "contains" | .re => "=~"

def jInt (i : Int) : Json := .num ⟨i, 0⟩
def jOptInt : Option Int → Json
  | none => .null
  | some i => jInt i

mutual
  partial def encExpr : Expr → Json
    | .nil => Json.mkObj [("t", "nil")]
    | .undefined => Json.mkObj [("t", "undef")]
    | .bool b => Json.mkObj [("t", "bool"), ("v", .bool b)]
    | .int i => Json.mkObj [("t", "int"), ("v", jInt i)]
    | .flt m => Json.mkObj [("t", "flt"), ("m", jInt m)]
    | .str v => Json.mkObj [("t", "str"), ("v", .str (l2s v))]
    | .regex p f => Json.mkObj [("t", "regex"), ("p", .str (l2s p)), ("f", .str (l2s f))]
    | .list items => Json.mkObj [("t", "list"), ("items", .arr (items.map encExpr).toArray)]
    | .not e => Json.mkObj [("t", "not"), ("e", encExpr e)]
    | .infix l op r => Json.mkObj [("t", "infix"), ("l", encExpr l), ("op", .str (encOp op)), ("r", encExpr r)]
    | .self q => Json.mkObj [("t", "self"), ("q", encSegs q)]
    | .root q fake => Json.mkObj [("t", "root"), ("q", encSegs q), ("fake", .bool fake)]
    | .ctx q => Json.mkObj [("t", "ctx"), ("q", encSegs q)]
    | .func name args => Json.mkObj [("t", "func"), ("name", .str (l2s name)), ("args", .arr (args.map encExpr).toArray)]
    | .key => Json.mkObj [("t", "key")]
  partial def encSel : Sel → Json
    | .name v => Json.mkObj [("s", "name"), ("v", .str (l2s v))]
    | .index i => Json.mkObj [("s", "index"), ("v", jInt i)]
    | .slice a b c => Json.mkObj [("s", "slice"), ("a", jOptInt a), ("b", jOptInt b), ("c", jOptInt c)]
    | .wild => Json.mkObj [("s", "wild")]
    | .keys => Json.mkObj [("s", "keys")]
    | .filter e => Json.mkObj [("s", "filter"), ("e", encExpr e)]
  partial def encSegs (segs : List Seg) : Json :=
    .arr (segs.map (fun g => match g with
      | .desc => Json.mkObj [("g", "desc")]
      | .child sels => Json.mkObj [("g", "child"), ("sels", .arr (sels.map encSel).toArray)])).toArray
end

def encTok : Surface.Tok → Json
  | .root => "ROOT" | .fakeRoot => "FAKE_ROOT" | .self => "SELF" | .key => "KEY" | .ctx => "FILTER_CONTEXT" | .keys => "KEYS"
  | .wild => "WILD" | .filter => "FILTER" | .lbracket => "LBRACKET" | .rbracket => "RBRACKET" | .comma => "COMMA"
  | .lparen => "LPAREN" | .rparen => "RPAREN" | .ddot => "DDOT" | .not => "NOT" | .true_ => "TRUE" | .false_ => "FALSE"
  | .nil => "NIL" | .undefined => "UNDEFINED"
  | .op o => Json.arr #["OP", .str (encOp o)]
  | .prop v => Json.arr #["PROP", .str (l2s v)]
  | .bare v => Json.arr #["BARE", .str (l2s v)]
  | .str v => Json.arr #["STR", .str (l2s v)]
  | .int i => Json.arr #["INT", jInt i]
  | .flt m => Json.arr #["FLOAT", jInt m]
  | .slice a b c => Json.arr #["SLICE", jOptInt a, jOptInt b, jOptInt c]
  | .re p f => Json.arr #["RE", .str (l2s p), .str (l2s f)]
  | .func n => Json.arr #["FUNC", .str (l2s n)]

def decTok (j : Json) : Except String Surface.Tok :=
  match j with
  | .str "ROOT" => pure .root | .str "FAKE_ROOT" => pure .fakeRoot | .str "SELF" => pure .self | .str "KEY" => pure .key
  | .str "FILTER_CONTEXT" => pure .ctx | .str "KEYS" => pure .keys | .str "WILD" => pure .wild | .str "FILTER" => pure .filter
  | .str "LBRACKET" => pure .lbracket | .str "RBRACKET" => pure .rbracket | .str "COMMA" => pure .comma
  | .str "LPAREN" => pure .lparen | .str "RPAREN" => pure .rparen | .str "DDOT" => pure .ddot | .str "NOT" => pure .not
  | .str "TRUE" => pure .true_ | .str "FALSE" => pure .false_ | .str "NIL" => pure .nil | .str "UNDEFINED" => pure .undefined
  | .arr #[.str "OP", .str o] => do pure (.op (← decOp o))
  | .arr #[.str "PROP", .str v] => pure (.prop (s2l v))
  | .arr #[.str "BARE", .str v] => pure (.bare (s2l v))
  | .arr #[.str "STR", .str v] => pure (.str (s2l v))
  | .arr #[.str "INT", .num n] => pure (.int n.mantissa)
  | .arr #[.str "FLOAT", .num n] => pure (.flt n.mantissa)
  | .arr #[.str "SLICE", a, b, c] => do pure (.slice (← optInt a) (← optInt b) (← optInt c))
  | .arr #[.str "RE", .str p, .str f] => pure (.re (s2l p) (s2l f))
  | .arr #[.str "FUNC", .str n] => pure (.func (s2l n))
  | _ => throw s!"bad token {j.compress}"


/-! lexer operations -/
def kindName : Lex.Kind → String
  | .dq => "DOUBLE_QUOTE_STRING" | .sq => "SINGLE_QUOTE_STRING" | .rePattern => "RE_PATTERN" | .reFlags => "RE_FLAGS"
  | .sliceStart => "SLICE_START" | .sliceStop => "SLICE_STOP" | .sliceStep => "SLICE_STEP" | .func => "FUNCTION"
  | .prop => "PROP" | .bare => "BARE_PROPERTY" | .flt => "FLOAT" | .int => "INT" | .ddot => "DDOT" | .and_ => "AND" | .or_ => "OR"
  | .root => "ROOT" | .fakeRoot => "FAKE_ROOT" | .self => "SELF" | .key => "KEY" | .union => "UNION" | .inter => "INTERSECT"
  | .fctx => "FILTER_CONTEXT" | .keys => "KEYS" | .wild => "WILD" | .filter => "FILTER" | .in_ => "IN" | .true_ => "TRUE"
  | .false_ => "FALSE" | .nil => "NIL" | .contains => "CONTAINS" | .undefined => "UNDEFINED" | .missing => "MISSING"
  | .lbracket => "LBRACKET" | .rbracket => "RBRACKET" | .comma => "COMMA" | .eq => "EQ" | .ne => "NE" | .lg => "LG" | .le => "LE"
  | .ge => "GE" | .re => "RE" | .lt => "LT" | .gt => "GT" | .not_ => "NOT" | .lparen => "LPAREN" | .rparen => "RPAREN"

def decSpell (req : Json) : Except String Lex.Spell :=
  match req.getObjVal? "spell" with
  | .ok (.arr #[.str a, .str b, .str c, .str d, .str e, .str f, .str g, .str h]) =>
    pure { root := s2l a, fakeRoot := s2l b, self := s2l c, key := s2l d, union := s2l e, inter := s2l f, fctx := s2l g, keys := s2l h }
  | .ok .null => pure Lex.dflt
  | .ok _ => throw "bad spell"
  | .error _ => pure Lex.dflt

def decCfg (req : Json) : Except String Lex.Cfg := do
  let sp ← decSpell req
  let uw : List Char := match req.getObjValAs? String "uword" with
    | .ok s => s.toList
    | .error _ => []
  pure { spell := sp, uword := fun c => uw.contains c }

/-- cooked tokens grouped as `impl_tokens` groups them: [[tokens of operand 0], "|", [tokens of operand 1], …] -/
def groupCooked (cs : List Lex.CTok) : Json :=
  let rec go (cur : List Json) (acc : List Json) : List Lex.CTok → List Json
    | [] => (Json.arr cur.reverse.toArray :: acc).reverse
    | .tok t :: rest => go (encTok t :: cur) acc rest
    | .union :: rest => go [] (Json.str "|" :: Json.arr cur.reverse.toArray :: acc) rest
    | .inter :: rest => go [] (Json.str "&" :: Json.arr cur.reverse.toArray :: acc) rest
  .arr (go [] [] cs).toArray

def sfPrec : Surface.Prec := Surface.precOfGenerated Generated.parserPrecConsts Generated.precedences

def handle (req : Json) : Except String Json := do
  let op ← req.getObjVal? "op"
  let .str op := op | throw "op must be a string"
  match op with
  | "ping" => pure (Json.mkObj [("pong", .bool true)])
  -- primitives
  | "prim.index" =>
    let s ← getStr req "s"
    pure (Json.mkObj [("index", encRes encPart (Pointer.indexOf s)),
                      ("canon", .bool (isCanonNat s)),
                      ("lstrip", .str (l2s (lstrip s))),
                      ("strip", .str (l2s (strip s)))])
  | "prim.intstr" =>
    let v ← req.getObjVal? "i"
    let .num n := v | throw "i"
    pure (Json.mkObj [("s", .str (l2s (intStr n.mantissa)))])
  -- pointer
  | "ptr.parse" =>
    let s ← getStr req "s"
    let ue ← getBool req "ue"
    let r := Pointer.parse escDec ue s
    let printed : Res Str := r.map Pointer.encode
    let rfc := Pointer.rfcParse s
    pure (Json.mkObj [("parts", encRes encParts r), ("str", encRes (fun s => .str (l2s s)) printed),
                      ("rfc", encOpt strList rfc)])
  | "ptr.resolve" =>
    let s ← getStr req "s"
    let ue ← getBool req "ue"
    let doc ← getJ req "doc"
    let r := Pointer.resolveText escDec ue s doc
    let ex : Res Bool := do
      let ps ← Pointer.parse escDec ue s
      Pointer.existsIn doc ps
    let rp : Res (Option J × Option J) := do
      let ps ← Pointer.parse escDec ue s
      Pointer.resolveParent doc ps
    let spec : Option (Option J) := (Pointer.rfcParse s).map (Pointer.rfcEval doc)
    let ext : Bool := match Pointer.rfcParse s with
      | some ts => ts.any Pointer.isExtensionToken
      | none => true
    pure (Json.mkObj [("value", encRes encJ r), ("exists", encRes (fun b => Json.bool b) ex),
                      ("parent", encRes (fun (p, o) => Json.arr #[encOpt encJ p, encOpt encJ o]) rp),
                      ("spec", encOpt (encOpt encJ) spec), ("ext", .bool ext)])
  | "ptr.resolve_parts" =>
    let ps ← getParts req "parts"
    let doc ← getJ req "doc"
    pure (Json.mkObj [("value", encRes encJ (Pointer.resolveParts doc ps)),
                      ("str", .str (l2s (Pointer.encode ps)))])
  | "ptr.from_parts" =>
    let ps ← getParts req "parts"
    let ue ← getBool req "ue"
    let r := Pointer.fromParts escDec ue ps
    pure (Json.mkObj [("parts", encRes encParts r), ("str", encRes (fun ps => .str (l2s (Pointer.encode ps))) r)])
  | "ptr.nav" =>
    -- a chain of join / parent operations starting from a parsed pointer
    let s ← getStr req "s"
    let ue ← getBool req "ue"
    let steps ← req.getObjVal? "steps"
    let .arr steps := steps | throw "steps"
    let start := Pointer.parse escDec ue s
    let fin : Res (List Part) := steps.foldl (fun acc st =>
      match acc with
      | .error e => .error e
      | .ok ps =>
        match st with
        | .str "parent" => .ok (Pointer.parent ps)
        | .arr #[.str "join", .str t] => Pointer.truediv escDec ps (s2l t)
        | _ => .error (.builtin .assertionError)) start
    pure (Json.mkObj [("parts", encRes encParts fin), ("str", encRes (fun ps => .str (l2s (Pointer.encode ps))) fin)])
  | "ptr.rel" =>
    let a ← getParts req "a"
    let b ← getParts req "b"
    pure (Json.mkObj [("eq", .bool (Pointer.eq a b)), ("relative", .bool (Pointer.isRelativeTo a b))])
  | "ptr.spell" =>
    let ts ← getStrList req "tokens"
    pure (Json.mkObj [("s", .str (l2s (Pointer.spellTokens ts)))])
  -- relative pointer
  | "rel.parse" =>
    let s ← getStr req "s"
    let ue ← getBool req "ue"
    let r := RelPointer.parse escDec ue s
    pure (Json.mkObj [("rel", encRes (fun r => Json.mkObj [("origin", .num ⟨r.origin, 0⟩), ("index", .num ⟨r.index, 0⟩),
                                                      ("suffix", encSuffix r.suffix)]) r),
                      ("str", encRes (fun r => .str (l2s (RelPointer.toStr r))) r)])
  | "rel.to" =>
    let s ← getStr req "s"
    let base ← getStr req "base"
    let ue ← getBool req "ue"
    let r : Res (List Part) := do
      let rel ← RelPointer.parse escDec ue s
      let b ← Pointer.parse escDec ue base
      RelPointer.applyTo escDec ue rel b
    pure (Json.mkObj [("parts", encRes encParts r), ("str", encRes (fun ps => .str (l2s (Pointer.encode ps))) r)])
  | "rel.toparts" =>
    -- the base is a pointer that exists already: its tokens are given, not its text
    let s ← getStr req "s"
    let base ← getStrList req "base"
    let ue ← getBool req "ue"
    let r : Res (List Part) := do
      let rel ← RelPointer.parse escDec ue s
      RelPointer.applyTo escDec ue rel (base.map Part.key)   -- `from_parts` holds every token as a string
    pure (Json.mkObj [("str", encRes (fun ps => .str (l2s (Pointer.encode ps))) r)])
  | "rel.spec" =>
    let origin ← req.getObjVal? "origin"
    let offset ← req.getObjVal? "offset"
    let .num o := origin | throw "origin"
    let .num f := offset | throw "offset"
    let hash ← getBool req "hash"
    let suffix ← getStrList req "suffix"
    let base ← getStrList req "base"
    let spec : RelPointer.RelSpec := ⟨o.mantissa.toNat, f.mantissa, hash, suffix⟩
    pure (Json.mkObj [("text", .str (l2s (RelPointer.specText spec))),
                      ("result", encOpt (fun ts => .str (l2s (Pointer.spellTokens ts))) (RelPointer.specApply spec base))])
  -- patch
  | "patch.apply" =>
    let ops ← getJ req "ops"
    let doc ← getJ req "doc"
    let ue ← getBool req "ue"
    let built := Patch.build escDec ue ops
    let r : Res J := do
      let p ← built
      Patch.apply p doc
    pure (Json.mkObj [("result", encRes encJ r), ("asdicts", encRes (fun p => encJ (Patch.asdicts p)) built)])
  | "patch.apply_parts" =>
    let kind ← req.getObjValAs? String "kind"
    let ps ← getParts req "parts"
    let doc ← getJ req "doc"
    let op : Patch.Op ← match kind with
      | "test" => pure (Patch.Op.test ps (← getJ req "value"))
      | "replace" => pure (Patch.Op.replace ps (← getJ req "value"))
      | "remove" => pure (Patch.Op.remove ps)
      | "add" => pure (Patch.Op.add ps (← getJ req "value"))
      | o => throw s!"bad kind {o}"
    pure (Json.mkObj [("result", encRes encJ (Patch.apply [op] doc))])
  | "patch.spec" =>
    let ops ← req.getObjVal? "ops"
    let .arr ops := ops | throw "ops"
    let sops ← ops.toList.mapM decSOp
    let doc ← getJ req "doc"
    pure (Json.mkObj [("result", encSpecRes (Patch.rfcApply sops doc))])
  -- JSONPath evaluation
  | "q.eval" =>
    let path ← decPath (← req.getObjVal? "path")
    let doc ← getJ req "doc"
    let extra ← getJ req "extra"
    let nodes := Query.finditer RegexImpl.rx path doc extra
    let specPath ← match req.getObjVal? "spec_path" with
      | .ok j => decPath j
      | .error _ => pure path
    let std := !specPath.fake && Rfc.stdSegs specPath.segs && Rfc.wellFormedSegs specPath.segs
    let spec := if std then (Rfc.query RegexImpl.rx specPath.segs doc).map encRNode else []
    pure (Json.mkObj [("nodes", .arr (nodes.map encNode).toArray), ("std", .bool std), ("spec", .arr spec.toArray)])
  | "q.compound" =>
    let first ← decPath (← req.getObjVal? "first")
    let restJ ← req.getObjVal? "rest"
    let .arr restA := restJ | throw "rest"
    let rest ← restA.toList.mapM (fun j => do
      match j with
      | .arr #[.str op, pj] => do
        let p ← decPath pj
        pure (op == "|", p)
      | _ => throw "bad rest")
    let doc ← getJ req "doc"
    let extra ← getJ req "extra"
    let c : Compound := ⟨first, rest⟩
    let nodes := Query.compoundFinditer RegexImpl.rx c doc extra
    let vals := Query.compoundFindall RegexImpl.rx c doc extra
    pure (Json.mkObj [("nodes", .arr (nodes.map encNode).toArray), ("values", .arr (vals.map encJ).toArray)])
  | "fluent.run" =>
    let k ← req.getObjValAs? Nat "k"
    let opsJ ← req.getObjVal? "ops"
    let .arr opsA := opsJ | throw "ops"
    let ops ← opsA.toList.mapM decFluentOp
    let l := List.range k
    pure (Json.mkObj [("model", encRun (Fluent.run ops (.src l))), ("spec", encRun (Fluent.runSpec ops l))])
  | "q.typed" =>
    let path ← decPath (← req.getObjVal? "path")
    let tbl := Typing.tableOfGenerated Generated.functions
    pure (Json.mkObj [("wt", .bool (Rfc.wtSegs path.segs)), ("gate", .bool (Typing.gateSegs tbl path.segs)),
                      ("scope", .bool (Rfc.stdSegs path.segs && Typing.cmpAtomicSegs path.segs && Typing.wfDeepSegs path.segs))])
  | "proj.select" =>
    let styleS ← req.getObjValAs? String "style"
    let style : Projection.Style ← match styleS with
      | "RELATIVE" => pure Projection.Style.relative
      | "FLAT" => pure Projection.Style.flat
      | "ROOT" => pure Projection.Style.root
      | o => throw s!"bad style {o}"
    let mparts ← getParts req "match_parts"
    let mval ← getJ req "match_val"
    let selsJ ← req.getObjVal? "sels"
    let .arr selsA := selsJ | throw "sels"
    let sels ← selsA.toList.mapM (fun j => do
      match j with
      | .arr #[ps, v] => do
        let ps' ← decParts ps
        let v' ← decJ v
        pure (ps', v')
      | _ => throw "bad selection")
    match Projection.select style mparts mval sels with
    | none => pure (Json.mkObj [("none", .null)])
    | some none => pure (Json.mkObj [("outside", .null)])
    | some (some r) => pure (Json.mkObj [("ok", encJ r)])
  | "lex.raw" =>
    let text ← getStr req "text"
    let cfg ← decCfg req
    let raw : Json := match Lex.lexRaw cfg text with
      | .ok ts => Json.mkObj [("ok", .arr (ts.map (fun t => Json.arr #[.str (kindName t.kind), .str (l2s t.value)])).toArray)]
      | .error e => Json.mkObj [("err", .str e.name)]
    let cooked : Json := match Lex.lexRaw cfg text with
      | .ok ts => (match Lex.cook ts with
        | .ok cs => Json.mkObj [("ok", groupCooked cs)]
        | .error .syntax => Json.mkObj [("err", "syntax")]
        | .error .outside => Json.mkObj [("err", "outside")])
      | .error e => Json.mkObj [("err", .str e.name)]
    pure (Json.mkObj [("raw", raw), ("cooked", cooked)])
  | "lex.pstr" =>
    let sp ← decSpell req
    let c ← decCompound (← req.getObjVal? "query")
    let text := Lex.pstrCompound sp c
    -- the text round trip inside the model: lex, cook, parse each operand
    let cfg ← decCfg req
    let back : Json := match Lex.lexRaw cfg text with
      | .ok ts => (match Lex.cook ts with
        | .ok cs => Json.mkObj [("ok", groupCooked cs)]
        | .error .syntax => Json.mkObj [("err", "syntax")]
        | .error .outside => Json.mkObj [("err", "outside")])
      | .error e => Json.mkObj [("err", .str e.name)]
    let want : List Lex.CTok := (Surface.ptoksPath c.first).map Lex.CTok.tok ++
      (c.rest.map fun (u, p) => (if u then Lex.CTok.union else Lex.CTok.inter) :: (Surface.ptoksPath p).map Lex.CTok.tok).flatten
    pure (Json.mkObj [("text", .str (l2s text)), ("relex", back), ("ptoks", groupCooked want)])
  | "syn.indextext" =>
    let v ← getStr req "v"
    pure (Json.mkObj [("shape", .bool (Lemmas.intShape v)), ("refused", .bool (Lemmas.indexTextRefused v)), ("rfc", .bool (Lemmas.rfcInt v))])
  | "lex.compile" =>
    -- the composed model of `compile(text)`: lexer, literal decoding, parser (each operand of a compound query)
    let text ← getStr req "text"
    let cfg ← decCfg req
    match Lex.tokenize cfg text with
    | .error .syntax => pure (Json.mkObj [("err", "syntax")])
    | .error .outside => pure (Json.mkObj [("err", "outside")])
    | .ok cs =>
      -- split at the union / intersection tokens
      let rec split (cur : List Surface.Tok) (acc : List (Option Bool × List Surface.Tok)) (op : Option Bool) : List Lex.CTok → List (Option Bool × List Surface.Tok)
        | [] => ((op, cur.reverse) :: acc).reverse
        | .tok t :: rest => split (t :: cur) acc op rest
        | .union :: rest => split [] ((op, cur.reverse) :: acc) (some true) rest
        | .inter :: rest => split [] ((op, cur.reverse) :: acc) (some false) rest
      let groups := split [] [] none cs
      let parsed : List (Option Bool × Option Path) := groups.map fun (op, ts) =>
        (op, match Surface.parseQuery sfPrec ts with
             | .ok p => some p
             | .error _ => none)
      let enc := fun (p : Path) => Json.mkObj [("segs", encSegs p.segs), ("fake", .bool p.fake)]
      if parsed.all (fun x => x.2.isSome) then
        match parsed with
        | (_, some first) :: rest =>
          pure (Json.mkObj [("ok", Json.mkObj [("first", enc first),
            ("rest", .arr (rest.filterMap (fun x => match x.2 with
              | some p => some (Json.arr #[.str (if x.1 == some true then "|" else "&"), enc p])
              | none => none)).toArray)])])
        | _ => pure (Json.mkObj [("err", "syntax")])
      else pure (Json.mkObj [("err", "syntax")])
  | "lex.decode" =>
    let v ← getStr req "v"
    let q ← req.getObjValAs? String "q"
    let r := if q == "'" then Lex.decodeSQ v else Lex.decodeDQ v
    pure (match r with
      | .ok s => Json.mkObj [("ok", .str (l2s s))]
      | .error .syntax => Json.mkObj [("err", "syntax")]
      | .error .surrogate => Json.mkObj [("err", "outside")])
  | "sf.ptoks" =>
    let path ← decPath (← req.getObjVal? "path")
    pure (Json.mkObj [("tokens", .arr ((Surface.ptoksPath path).map encTok).toArray),
                      ("parsed", .bool (Surface.parsedSegs path.segs)),
                      ("norm", encSegs (Surface.normSegs path.segs)),
                      ("reparse", match Surface.parseQuery sfPrec (Surface.ptoksPath path) with
                        | .ok p => Json.mkObj [("ok", Json.mkObj [("segs", encSegs p.segs), ("fake", .bool p.fake)])]
                        | .error .syntax => Json.mkObj [("err", "syntax")]
                        | .error .fuel => Json.mkObj [("err", "fuel")])])
  | "sf.parse" =>
    let toksJ ← req.getObjVal? "tokens"
    let .arr toksA := toksJ | throw "tokens"
    let toks ← toksA.toList.mapM decTok
    match Surface.parseQuery sfPrec toks with
    | .ok p => pure (Json.mkObj [("ok", Json.mkObj [("segs", encSegs p.segs), ("fake", .bool p.fake)])])
    | .error .syntax => pure (Json.mkObj [("err", "syntax")])
    | .error .fuel => pure (Json.mkObj [("err", "fuel")])
  | "q.slice" =>
    let len ← req.getObjValAs? Nat "len"
    let a ← optInt (← req.getObjVal? "a")
    let b ← optInt (← req.getObjVal? "b")
    let c ← optInt (← req.getObjVal? "c")
    let st := c.getD 1
    let code : List Int := if st = 0 then [] else
      let (s, e) := Query.sliceIndices a b st len
      Query.pyRange s e st
    let spec := Rfc.sliceIndices a b c len
    pure (Json.mkObj [("code", .arr (code.map (fun i => Json.num ⟨i, 0⟩)).toArray), ("spec", .arr (spec.map (fun i => Json.num ⟨i, 0⟩)).toArray)])
  | "q.canon" =>
    let s ← getStr req "s"
    pure (Json.mkObj [("canon", .str (l2s (Query.canonicalString s))), ("normal", .str (l2s (Rfc.normalName s)))])
  | "json.eqv" =>
    let a ← getJ req "a"
    let b ← getJ req "b"
    pure (Json.mkObj [("eqv", .bool (a.eqv b))])
  | other => throw s!"unknown op {other}"

partial def loop (hin : IO.FS.Stream) (hout : IO.FS.Stream) : IO Unit := do
  let line ← hin.getLine
  if line.isEmpty then return ()
  let line := line.trimAscii.toString
  if line.isEmpty then loop hin hout else
  let out : Json :=
    match Json.parse line with
    | .error e => Json.mkObj [("fatal", .str s!"json: {e}")]
    | .ok req =>
      match handle req with
      | .ok j => j
      | .error e => Json.mkObj [("fatal", .str e)]
  hout.putStrLn out.compress
  loop hin hout

end Drv

def main : IO Unit := do
  let hin ← IO.getStdin
  let hout ← IO.getStdout
  Drv.loop hin hout
  hout.flush
