#!/usr/bin/env python3
"""tools/seedsummary.py — one line per confirmed seeded change: which checks were run against it and the verdicts
(from seeded/<id>/meta.json as last written by tools/seedtest.py)."""
import glob
import json
import os

V = os.path.dirname(os.path.dirname(os.path.abspath(__file__)))
rows = []
for d in sorted(glob.glob(os.path.join(V, "seeded", "*"))):
    m = json.load(open(os.path.join(d, "meta.json")))
    c = m.get("confirmed", {})
    res = c.get("results", {})
    caught = [p for p, r in res.items() if r.get("exit") == 1 and str(r.get("verdict", "")).startswith("VIOLATION")]
    nofi = [p for p in caught if "no-failing-input-found" in res[p].get("verdict", "")]
    rows.append((os.path.basename(d), ",".join(caught) or "-", ",".join(nofi) or "", (m.get("summary") or "")[:110].replace("\n", " ")))
for r in rows:
    print(f"| {r[0]} | {r[1]} | {r[2]} | {r[3]} |")
print(len(rows), "seeded changes;", sum(1 for r in rows if r[1] != "-"), "detected by at least one check")
