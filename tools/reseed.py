#!/usr/bin/env python3
"""tools/reseed.py [ids…] — re-run the stored seeded changes against the current checks: apply seeded/<id>/patch.diff to /repo,
run the checks recorded for it (quick tier), undo. Prints one line per (change, check); exits 1 if a change is missed by
every check recorded for it."""
import glob
import json
import os
import subprocess
import sys

V = os.path.dirname(os.path.dirname(os.path.abspath(__file__)))


def sh(cmd, **kw):
    return subprocess.run(cmd, shell=True, capture_output=True, text=True, **kw)


def main():
    want = sys.argv[1:]
    assert sh("git -C /repo status --porcelain").stdout.strip() == "", "/repo is not clean"
    missed = []
    for d in sorted(glob.glob(os.path.join(V, "seeded", "*"))):
        sid = os.path.basename(d)
        if want and not any(sid.startswith(w) for w in want):
            continue
        meta = json.load(open(os.path.join(d, "meta.json")))
        props = [r.split()[1] for r in meta.get("confirmed", {}).get("ran", [])] or [meta.get("property")]
        ap = sh(f"git -C /repo apply {os.path.join(d, 'patch.diff')}")
        if ap.returncode != 0:
            print(f"{sid}: patch no longer applies to the repaired tree (skipped)")
            continue
        got = []
        try:
            for p in props:
                try:
                    c = sh(f"cd {V} && ./check {p} --tier quick", timeout=2000)
                    line = [l for l in c.stdout.splitlines() if l.startswith("VIOLATION")]
                    ok = c.returncode == 1 and bool(line)
                    got.append(ok)
                    print(f"{sid} {p}: {'DETECTED' if ok else 'MISSED'} {(line[0] if line else c.stdout.strip().splitlines()[-1] if c.stdout.strip() else '')[:120]}", flush=True)
                except subprocess.TimeoutExpired:
                    print(f"{sid} {p}: TIMEOUT", flush=True)
                    got.append(False)
        finally:
            sh("git -C /repo reset -q; git -C /repo checkout -- .")
        if not any(got):
            missed.append(sid)
    print("missed:", missed)
    return 1 if missed else 0


if __name__ == "__main__":
    sys.exit(main())
