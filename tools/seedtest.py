#!/usr/bin/env python3
"""tools/seedtest.py <worktree> <seed-id> <property> [more properties…]

Takes a seeded change produced in a scratch worktree (<worktree>/_seed/{patch.diff,demo.py,meta.json}),
confirms it independently (suite still passes, demo fails with / passes without the change), stores it as
/verif/seeded/<seed-id>/, then applies it to /repo, runs the named checks (quick tier) and undoes it again.
Prints one line per check: DETECTED / MISSED."""
import json
import os
import shutil
import subprocess
import sys

V = os.path.dirname(os.path.dirname(os.path.abspath(__file__)))
REPO = "/repo"


def sh(cmd, **kw):
    return subprocess.run(cmd, shell=True, capture_output=True, text=True, **kw)


def main():
    wt, sid, props = sys.argv[1], sys.argv[2], sys.argv[3:]
    src = os.path.join(wt, "_seed")
    dst = os.path.join(V, "seeded", sid)
    os.makedirs(dst, exist_ok=True)
    for f in ("patch.diff", "demo.py", "meta.json"):
        shutil.copy(os.path.join(src, f), os.path.join(dst, f))
    meta = json.load(open(os.path.join(dst, "meta.json")))
    assert sh("git -C /repo status --porcelain").stdout.strip() == "", "/repo is not clean"
    demo = os.path.join(dst, "demo.py")
    r0 = sh(f"PYTHONPATH={REPO} /venv/bin/python {demo}")
    ok_clean = r0.returncode == 0
    ap = sh(f"git -C {REPO} apply {os.path.join(dst, 'patch.diff')}")
    if ap.returncode != 0:
        print("PATCH DOES NOT APPLY:", ap.stderr[:300])
        return 2
    try:
        t = sh(f"{V}/tools/run_tests.sh")
        tests_ok = "719 passed, 2 errors" in t.stdout
        r1 = sh(f"PYTHONPATH={REPO} /venv/bin/python {demo}")
        demo_fails = r1.returncode != 0
        results = {}
        for p in props:
            c = sh(f"cd {V} && ./check {p} --tier quick", timeout=3000)
            line = [l for l in c.stdout.splitlines() if l.startswith("VIOLATION")]
            results[p] = {"exit": c.returncode, "verdict": line[0] if line else c.stdout.strip().splitlines()[-1][:200] if c.stdout.strip() else ""}
            print(f"{sid} {p}: {'DETECTED' if c.returncode == 1 and line else 'MISSED'}  {results[p]['verdict'][:160]}")
            rp = os.path.join(V, "replays", f"{p}-quick-0.json")
            if os.path.exists(rp):
                rep = json.load(open(rp))
                results[p]["kind"] = rep.get("kind")
                v = (rep.get("violations") or [{}])[0]
                results[p]["first_failing_input"] = json.dumps(v.get("input"), ensure_ascii=False)[:400]
                results[p]["what"] = v.get("what")
    finally:
        sh(f"git -C {REPO} checkout -- .")
    meta["confirmed"] = {"demo_passes_on_clean_tree": ok_clean, "suite_passes_with_change": tests_ok, "demo_fails_with_change": demo_fails,
                         "ran": [f"./check {p} --tier quick" for p in props], "results": results}
    json.dump(meta, open(os.path.join(dst, "meta.json"), "w"), indent=1, ensure_ascii=False)
    print(f"{sid}: clean-demo-ok={ok_clean} suite-ok={tests_ok} demo-fails={demo_fails}")
    assert sh("git -C /repo status --porcelain").stdout.strip() == ""
    # the clean tree must be quiet again
    for p in props:
        c = sh(f"cd {V} && ./check {p} --tier quick", timeout=3000)
        if c.returncode != 0:
            print(f"WARNING: {p} not quiet on the clean tree after undo: {c.stdout[-300:]}")
    return 0


if __name__ == "__main__":
    sys.exit(main())
