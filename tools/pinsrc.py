#!/usr/bin/env python3
"""tools/pinsrc.py — rewrite harness/source_pins.json from /repo's working tree (run after a reviewed change of /repo, once the
models follow it). The pins only decide whether a quick check goes on with its thorough generator; see harness/srcpins.py."""
import os
import sys

sys.path.insert(0, os.path.dirname(os.path.dirname(os.path.abspath(__file__))))
from harness import srcpins  # noqa: E402

srcpins.write_pins()
print("pinned", len(srcpins.current()), "files; changed now:", srcpins.changed())
