#!/usr/bin/env python3
"""Regenerates MANIFEST.json from harness/props/*.py metadata (CLAIM dicts) so it stays valid."""
import importlib, json, os, sys
V = os.path.dirname(os.path.dirname(os.path.abspath(__file__)))
sys.path.insert(0, V)
props = [json.loads(l) for l in open(os.path.join(V, "properties.jsonl"))]
checks, na = [], []
for p in props:
    pid = p["id"]
    path = os.path.join(V, "harness", "props", pid + ".py")
    if not os.path.exists(path):
        na.append({"property_id": pid, "reason": "check not built yet (work in progress; see DESIGN.md section 4 for the plan)"})
        continue
    mod = importlib.import_module(f"harness.props.{pid}")
    if not getattr(mod, "READY", False):
        na.append({"property_id": pid, "reason": "check under construction (harness exists, theorems not yet integrated); see DESIGN.md section 4"})
        continue
    claim = getattr(mod, "CLAIM", {})
    checks.append({
        "property_id": pid,
        "quick_cmd": f"./check {pid} --tier quick",
        "thorough_cmd": f"./check {pid} --tier thorough",
        "evidence_file": f"evidence/{pid}.json",
        "replay_cmd_template": f"./check {pid} --replay {{path}}",
        "engine": "lean4-jp",
        "level_claimed": {
            "category": getattr(mod, "LEVEL", "proof"),
            "text": claim.get("text", ""),
            "design_ref": claim.get("design_ref", f"DESIGN.md section 4, {pid}"),
        },
        "level_note": claim.get("note", "; ".join(getattr(mod, "TRUSTED", []))),
        "technique": claim.get("technique", "Lean 4 theorems about a hand-written executable model + differential correspondence with the implementation"),
    })
m = {
    "version": 1,
    "setup_cmd": "cd /verif && /venv/bin/python -c 'from harness import tables; tables.regenerate()' && cd lean && lake build JP JP.Audit jpdrv",
    "hooks": {
        "guard": "JG_RP_PYTHON_JSONPATH_VERIF",
        "enable": "no hooks are needed: checks import the package in-process from /repo's working tree (PYTHONPATH=/repo); the guard variable is set by the harness but no source reads it",
        "baseline_off_cmd": "/verif/tools/run_tests.sh",
        "source_commits": [],
        "add_only": True,
    },
    "engines": [{
        "name": "lean4-jp",
        "path": "lean/",
        "serves_properties": [c["property_id"] for c in checks],
        "kind_free_text": "Lean 4 library JP: executable code-shaped models + RFC-shaped specs + property theorems (JP/Props), compiled driver jpdrv for differential correspondence, tables regenerated from source by harness/tables.py",
    }],
    "checks": checks,
    "not_applicable": na,
    "notes": "Every check: regenerate tables from /repo -> lake build theorems -> axiom audit -> correspondence (implementation vs model vs spec) -> verdict. See DESIGN.md.",
}
json.dump(m, open(os.path.join(V, "MANIFEST.json"), "w"), indent=1)
print(f"{len(checks)} checks, {len(na)} not_applicable")
