#!/usr/bin/env python3
import json, os, sys
p = sys.argv[1]
n = int(sys.argv[2]) if len(sys.argv) > 2 else 4
if not os.path.exists(p):
    print("no replay file"); sys.exit(0)
r = json.load(open(p))
seen = {}
for v in (r.get('violations') or []):
    k = v['what'][:50]
    seen[k] = seen.get(k, 0) + 1
    if seen[k] <= n:
        print("VIOL", json.dumps(v, ensure_ascii=False)[:900])
print({k: c for k, c in seen.items()})
for b in r.get('no_longer_checks', []) + r.get('broken_obligations', []):
    print("BROKEN", b.get('kind'), b.get('count'), str(b.get('detail', ''))[:1500])
    for m in b.get('first', [])[:n]:
        print("  MISMATCH", json.dumps(m, ensure_ascii=False)[:900])
