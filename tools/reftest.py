#!/usr/bin/env python3
"""tools/reftest.py <worktree> <ref-id>

Takes a behaviour-preserving refactoring produced in a scratch worktree (<worktree>/_ref/{patch.diff,meta.json}),
stores it as /verif/refactors/<ref-id>/, applies it to /repo, confirms the suite still passes, runs every check
(quick tier) and undoes it again. A check that is not quiet on a refactoring is a false alarm of the machinery (or
the refactoring is not behaviour-preserving after all: the replay says which). Prints one line per check."""
import json
import os
import shutil
import subprocess
import sys

V = os.path.dirname(os.path.dirname(os.path.abspath(__file__)))
REPO = "/repo"


def sh(cmd, **kw):
    return subprocess.run(cmd, shell=True, capture_output=True, text=True, **kw)


def main():
    wt, rid = sys.argv[1], sys.argv[2]
    props = sys.argv[3:] or [f"C{i:02d}" for i in range(1, 21)]
    src = os.path.join(wt, "_ref") if wt != "-" else None
    dst = os.path.join(V, "refactors", rid)
    os.makedirs(dst, exist_ok=True)
    if src:
        for f in ("patch.diff", "meta.json"):
            shutil.copy(os.path.join(src, f), os.path.join(dst, f))
    meta = json.load(open(os.path.join(dst, "meta.json")))
    assert sh("git -C /repo status --porcelain").stdout.strip() == "", "/repo is not clean"
    ap = sh(f"git -C {REPO} apply {os.path.join(dst, 'patch.diff')}")
    if ap.returncode != 0:
        print("PATCH DOES NOT APPLY:", ap.stderr[:300])
        return 2
    results = {}
    try:
        t = sh(f"{V}/tools/run_tests.sh")
        tests_ok = "719 passed, 2 errors" in t.stdout
        for p in props:
            c = sh(f"cd {V} && ./check {p} --tier quick", timeout=3000)
            line = [l for l in c.stdout.splitlines() if l.startswith(("VIOLATION", "OK", "TIMEOUT", "INFRA"))]
            quiet = c.returncode == 0 and not any(l.startswith("VIOLATION") for l in line)
            results[p] = {"exit": c.returncode, "verdict": (line[-1] if line else c.stdout.strip()[-200:])[:200]}
            if not quiet:
                rp = os.path.join(V, "replays", f"{p}-quick-0.json")
                if os.path.exists(rp):
                    rep = json.load(open(rp))
                    results[p]["kind"] = rep.get("kind")
                    v = (rep.get("violations") or [{}])[0]
                    results[p]["what"] = v.get("what")
                    results[p]["first_failing_input"] = json.dumps(v.get("input"), ensure_ascii=False)[:400]
                    results[p]["broken"] = json.dumps(rep.get("broken"), ensure_ascii=False)[:600]
            print(f"{rid} {p}: {'quiet' if quiet else 'ALARM'}  {results[p]['verdict'][:150]}")
    finally:
        sh(f"git -C {REPO} checkout -- .")
    meta["confirmed"] = {"suite_passes_with_change": tests_ok, "results": results,
                         "alarms": [p for p, r in results.items() if r["exit"] != 0]}
    json.dump(meta, open(os.path.join(dst, "meta.json"), "w"), indent=1, ensure_ascii=False)
    print(f"{rid}: suite-ok={tests_ok} alarms={meta['confirmed']['alarms']}")
    assert sh("git -C /repo status --porcelain").stdout.strip() == ""
    return 0


if __name__ == "__main__":
    sys.exit(main())
