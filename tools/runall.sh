#!/bin/sh
# tools/runall.sh [tier] — every check in sequence; prints one verdict line per property
tier=${1:-quick}
cd "$(dirname "$0")/.."
for i in 01 02 03 04 05 06 07 08 09 10 11 12 13 14 15 16 17 18 19 20; do
  out=$(./check C$i --tier "$tier" 2>&1); rc=$?
  echo "C$i exit=$rc $(echo "$out" | grep -E '^(OK|VIOLATION|KNOWN-FINDING|TIMEOUT|INFRA)' | tr '\n' ' ')"
done
python3 "$(dirname "$0")/opaudit.py"
