#!/usr/bin/env python3
"""tools/ptest.py seed|ref <worktree> <id> [properties…]

Like seedtest.py / reftest.py, but leaves /repo alone: the checks run in a private copy of /verif (made under /var/tmp and
removed afterwards) against the worktree itself (JP_REPO=<worktree>), so several changes can be tried at the same time and
/verif can be edited meanwhile. `seed`: <worktree>/_seed/{patch.diff,demo.py,meta.json} -> /verif/seeded/<id>/, DETECTED /
MISSED per property. `ref`: <worktree>/_ref/{patch.diff,meta.json} -> /verif/refactors/<id>/, quiet / ALARM for every property."""
import json
import os
import shutil
import subprocess
import sys

V = os.path.dirname(os.path.dirname(os.path.abspath(__file__)))


def sh(cmd, **kw):
    return subprocess.run(cmd, shell=True, capture_output=True, text=True, **kw)


def main():
    mode, wt, sid = sys.argv[1], sys.argv[2], sys.argv[3]
    props = sys.argv[4:] or [f"C{i:02d}" for i in range(1, 21)]
    sub = "_seed" if mode == "seed" else "_ref"
    dst = os.path.join(V, "seeded" if mode == "seed" else "refactors", sid)
    os.makedirs(dst, exist_ok=True)
    for f in (("patch.diff", "demo.py", "meta.json") if mode == "seed" else ("patch.diff", "meta.json")):
        shutil.copy(os.path.join(wt, sub, f), os.path.join(dst, f))
    meta = json.load(open(os.path.join(dst, "meta.json")))
    # the worktree must be exactly HEAD of /repo plus the patch
    head = sh("git -C /repo rev-parse HEAD").stdout.strip()
    assert sh(f"git -C {wt} rev-parse HEAD").stdout.strip() == head, "worktree is not at /repo's HEAD"
    suite = sh(f"cd {wt} && PYTHONPATH={wt} /venv/bin/python -m pytest -q -p no:cacheprovider --continue-on-collection-errors tests 2>&1 | tail -3")
    tests_ok = "719 passed, 2 errors" in suite.stdout
    conf = {"suite_passes_with_change": tests_ok}
    if mode == "seed":
        demo = os.path.join(dst, "demo.py")
        conf["demo_passes_on_clean_tree"] = sh(f"PYTHONPATH=/repo /venv/bin/python {demo}").returncode == 0
        conf["demo_fails_with_change"] = sh(f"PYTHONPATH={wt} /venv/bin/python {demo}").returncode != 0
    copy = f"/var/tmp/vcopy_{sid}"
    shutil.rmtree(copy, ignore_errors=True)
    sh(f"rsync -a --exclude .git --exclude seeded --exclude refactors {V}/ {copy}/")
    results = {}
    try:
        for p in props:
            c = sh(f"cd {copy} && JP_REPO={wt} ./check {p} --tier quick", timeout=3000)
            lines = [l for l in c.stdout.splitlines() if l.startswith(("VIOLATION", "OK", "TIMEOUT", "INFRA"))]
            viol = [l for l in lines if l.startswith("VIOLATION")]
            results[p] = {"exit": c.returncode, "verdict": (viol[0] if viol else (lines[-1] if lines else c.stdout.strip()[-200:]))[:200]}
            rp = os.path.join(copy, "replays", f"{p}-quick-0.json")
            if c.returncode != 0 and os.path.exists(rp):
                rep = json.load(open(rp))
                results[p]["kind"] = rep.get("kind")
                v = (rep.get("violations") or [{}])[0]
                results[p]["what"] = v.get("what")
                results[p]["first_failing_input"] = json.dumps(v.get("input"), ensure_ascii=False)[:400]
                results[p]["broken"] = json.dumps(rep.get("broken"), ensure_ascii=False)[:500]
            if mode == "seed":
                print(f"{sid} {p}: {'DETECTED' if c.returncode == 1 and viol else 'MISSED'}  {results[p]['verdict'][:150]}", flush=True)
            else:
                print(f"{sid} {p}: {'quiet' if c.returncode == 0 and not viol else 'ALARM'}  {results[p]['verdict'][:150]}", flush=True)
    finally:
        shutil.rmtree(copy, ignore_errors=True)
    conf["ran"] = [f"JP_REPO=<worktree> ./check {p} --tier quick" for p in props]
    conf["results"] = results
    if mode == "ref":
        conf["alarms"] = [p for p, r in results.items() if r["exit"] != 0]
    meta["confirmed"] = conf
    json.dump(meta, open(os.path.join(dst, "meta.json"), "w"), indent=1, ensure_ascii=False)
    print(f"{sid}: " + " ".join(f"{k}={v}" for k, v in conf.items() if k not in ("results", "ran")), flush=True)
    return 0


if __name__ == "__main__":
    sys.exit(main())
