#!/bin/sh
# Runs the repository's pinned suite (guard OFF). Expect: 719 passed, 2 errors (collection errors of test_compliance/test_nts are baseline).
cd /repo && env -u JG_RP_PYTHON_JSONPATH_VERIF /venv/bin/python -m pytest -ra -q -p no:cacheprovider --timeout=900 --continue-on-collection-errors "$@" 2>&1 | tail -4
