#!/usr/bin/env python3
"""tools/preseed.py [-j N] [seed ids…]  |  tools/preseed.py [-j N] --refactors [ids…] — re-run every stored seeded change against the current checks, in parallel and without
touching /repo: each change is applied in a scratch worktree of /repo's HEAD and the property's quick check runs in a private copy
of /verif with JP_REPO pointing at that worktree. Prints DETECTED / MISSED per change and a final `missed: [...]` line."""
import json
import os
import shutil
import subprocess
import sys
from concurrent.futures import ThreadPoolExecutor

V = os.path.dirname(os.path.dirname(os.path.abspath(__file__)))


def sh(cmd, **kw):
    return subprocess.run(cmd, shell=True, capture_output=True, text=True, **kw)


def one(sid):
    d = os.path.join(V, "seeded", sid)
    meta = json.load(open(os.path.join(d, "meta.json")))
    prop = meta.get("property") or sid[:3]
    tag = "rs_" + "".join(ch if ch.isalnum() else "_" for ch in sid)
    wt, copy = f"/var/tmp/{tag}", f"/var/tmp/vcopy_{tag}"
    sh(f"git -C /repo worktree remove --force {wt}")
    shutil.rmtree(copy, ignore_errors=True)
    try:
        if sh(f"git -C /repo worktree add --detach {wt} HEAD").returncode != 0:
            return sid, prop, "INFRA worktree"
        if sh(f"git -C {wt} apply {os.path.join(d, 'patch.diff')}").returncode != 0:
            return sid, prop, "SKIPPED (the patch no longer applies to the repaired tree)"
        sh(f"rsync -a --exclude .git --exclude seeded --exclude refactors {V}/ {copy}/")
        c = sh(f"cd {copy} && JP_REPO={wt} ./check {prop} --tier quick", timeout=3000)
        viol = [l for l in c.stdout.splitlines() if l.startswith("VIOLATION")]
        if c.returncode == 1 and viol:
            return sid, prop, "DETECTED " + viol[0]
        last = [l for l in c.stdout.splitlines() if l.strip()]
        return sid, prop, "MISSED " + (last[-1][:160] if last else f"exit {c.returncode}")
    finally:
        sh(f"git -C /repo worktree remove --force {wt}")
        shutil.rmtree(copy, ignore_errors=True)


def one_ref(rid):
    """a stored behaviour-preserving refactoring against every check: each must stay quiet"""
    d = os.path.join(V, "refactors", rid)
    tag = "rr_" + rid
    wt, copy = f"/var/tmp/{tag}", f"/var/tmp/vcopy_{tag}"
    sh(f"git -C /repo worktree remove --force {wt}")
    shutil.rmtree(copy, ignore_errors=True)
    try:
        if sh(f"git -C /repo worktree add --detach {wt} HEAD").returncode != 0:
            return rid, "all", "INFRA worktree"
        if sh(f"git -C {wt} apply {os.path.join(d, 'patch.diff')}").returncode != 0:
            return rid, "all", "SKIPPED (the patch no longer applies)"
        sh(f"rsync -a --exclude .git --exclude seeded --exclude refactors {V}/ {copy}/")
        alarms, results = [], {}
        for i in range(1, 21):
            p = f"C{i:02d}"
            c = sh(f"cd {copy} && JP_REPO={wt} ./check {p} --tier quick", timeout=3000)
            lines = [l for l in c.stdout.splitlines() if l.startswith(("VIOLATION", "OK", "TIMEOUT", "INFRA"))]
            results[p] = {"exit": c.returncode, "verdict": (lines[-1] if lines else c.stdout.strip()[-200:])[:200]}
            if c.returncode != 0:
                alarms.append(p)
        meta = json.load(open(os.path.join(d, "meta.json")))
        meta.setdefault("confirmed", {})
        meta["confirmed"]["results"] = results
        meta["confirmed"]["alarms"] = alarms
        json.dump(meta, open(os.path.join(d, "meta.json"), "w"), indent=1, ensure_ascii=False)
        return rid, "all", ("quiet on all 20 checks" if not alarms else "MISSED-QUIET: alarms " + ",".join(alarms))
    finally:
        sh(f"git -C /repo worktree remove --force {wt}")
        shutil.rmtree(copy, ignore_errors=True)


def main():
    args = sys.argv[1:]
    jobs = 6
    if args[:1] == ["-j"]:
        jobs, args = int(args[1]), args[2:]
    if args[:1] == ["--refactors"]:
        ids = args[1:] or sorted(os.listdir(os.path.join(V, "refactors")))
        bad = []
        with ThreadPoolExecutor(jobs) as ex:
            for rid, _, res in ex.map(one_ref, ids):
                print(f"{rid}: {res}", flush=True)
                if not res.startswith("quiet"):
                    bad.append(rid)
        sh("git -C /repo worktree prune")
        print("not quiet:", bad)
        return 1 if bad else 0
    ids = args or sorted(os.listdir(os.path.join(V, "seeded")))
    missed = []
    with ThreadPoolExecutor(jobs) as ex:
        for sid, prop, res in ex.map(one, ids):
            print(f"{sid} {prop}: {res}", flush=True)
            if res.startswith(("MISSED", "INFRA")):
                missed.append(sid)
    sh("git -C /repo worktree prune")
    print("missed:", missed)
    return 1 if missed else 0


if __name__ == "__main__":
    sys.exit(main())
