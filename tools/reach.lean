/- tools/reach.lean — run: cd lean && lake env lean ../tools/reach.lean
   Lists the definitions of the model modules that the driver (`main` in lean/Main.lean) does not reach, i.e. definitions no
   correspondence run can exercise directly. Informational (spec-side definitions used only inside theorems are expected here). -/
import Lean
import Main
open Lean

partial def reachFrom (env : Environment) : List Name → NameSet → NameSet
  | [], seen => seen
  | n :: rest, seen =>
    if seen.contains n then reachFrom env rest seen else
    let seen := seen.insert n
    match env.find? n with
    | none => reachFrom env rest seen
    | some ci =>
      let used := (ci.type.getUsedConstants ++ (ci.value?.map (·.getUsedConstants)).getD #[]).toList
      reachFrom env (used ++ rest) seen

def modelModules : List Name :=
  [`JP.Basic, `JP.Pointer, `JP.RelPointer, `JP.Patch, `JP.Query, `JP.Rfc9535, `JP.Fluent, `JP.Cache, `JP.Projection, `JP.Typing,
   `JP.Surface, `JP.Lex, `JP.TokenCfg, `JP.Guards, `JP.Cli, `JP.Async, `JP.RfcSpell, `JP.RfcSpellF]

#eval show CoreM Unit from do
  let env ← getEnv
  -- roots: every constant of module `Main` (`partial def`s are opaque, so `main` alone does not see through the loop)
  let mainIdx := env.header.moduleNames.toList.idxOf `Main
  let roots := env.constants.toList.filterMap fun (n, _) =>
    match env.getModuleIdxFor? n with
    | some i => if i.toNat == mainIdx then some n else none
    | none => none
  let reach := reachFrom env roots {}
  let mut out : Array (Name × Name) := #[]
  for (n, ci) in env.constants.toList do
    if n.isInternal || n.isInternalDetail then continue
    match ci with
    | .defnInfo dv =>
      if dv.all.any reach.contains then continue   -- a member of a mutual block whose sibling is reached
      match env.getModuleIdxFor? n with
      | some idx =>
        let m := env.header.moduleNames[idx.toNat]!
        if modelModules.contains m && !reach.contains n then
          if ci.type.getForallBody.isSort then continue
          let s := n.toString
          if s.contains "match_" || s.contains "._" || s.contains "inst" || s.contains "proof_" || s.contains ".eq_" || s.contains "sizeOf" || s.contains ".below" || s.contains ".rec" || s.contains "noConfusion" || s.contains ".ctorIdx" || s.contains ".toCtorIdx" || s.contains "ofNat" || s.contains ".elim" || s.contains "casesOn" || s.contains "brecOn" || s.contains "ctorElim" then continue
          out := out.push (m, n)
      | none => pure ()
    | _ => pure ()
  let sorted := out.qsort (fun a b => a.1.toString < b.1.toString || (a.1 == b.1 && a.2.toString < b.2.toString))
  IO.println s!"{sorted.size} model definitions not reached from the driver:"
  for (m, n) in sorted do IO.println s!"  {m}: {n}"
