#!/usr/bin/env python3
"""tools/opaudit.py — every operation of the driver (lean/Main.lean) must be named by some harness module.

A model definition reachable only through an operation nobody calls is tied to the code by nothing (this is how `ptr.rel`,
`json.eqv`, `q.canon`, `prim.index`, `prim.intstr`, `ptr.resolve_parts`, `ptr.spell` and `lex.decode` had stayed untied).
A static fact about /verif, not about /repo: exit 1 lists the uncalled operations; it is not part of any check's verdict."""
import os
import re
import sys

V = os.path.dirname(os.path.dirname(os.path.abspath(__file__)))
ops = sorted(set(re.findall(r'^  \| "([A-Za-z_.0-9]+)" =>', open(os.path.join(V, "lean", "Main.lean")).read(), re.M)))
text = ""
for root, _dirs, files in os.walk(os.path.join(V, "harness")):
    for f in files:
        if f.endswith(".py"):
            text += open(os.path.join(root, f)).read()
missing = [o for o in ops if f'"{o}"' not in text and f"'{o}'" not in text]
print(f"{len(ops)} driver operations, {len(missing)} never called" + (": " + " ".join(missing) if missing else ""))
sys.exit(1 if missing else 0)
