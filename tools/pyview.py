#!/usr/bin/env python3
"""Compact view of a Python source file: docstrings and blank lines removed."""
import ast, sys
src = open(sys.argv[1]).read()
start = int(sys.argv[2]) if len(sys.argv) > 2 else 0
n = int(sys.argv[3]) if len(sys.argv) > 3 else 100000
tree = ast.parse(src)
lines = src.splitlines()
drop = set()
for node in ast.walk(tree):
    if isinstance(node, (ast.FunctionDef, ast.AsyncFunctionDef, ast.ClassDef, ast.Module)):
        b = node.body
        if b and isinstance(b[0], ast.Expr) and isinstance(getattr(b[0], "value", None), ast.Constant) and isinstance(b[0].value.value, str):
            for i in range(b[0].lineno - 1, b[0].end_lineno):
                drop.add(i)
out = [l for i, l in enumerate(lines) if i not in drop and l.strip() and not l.strip().startswith("#")]
print("\n".join(out[start:start + n]))
